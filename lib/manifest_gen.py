#!/usr/bin/env python3
"""Regenerates MANIFEST.json from the table below (single source of truth for the interface file)."""
import json
import os
import subprocess

ROOT = os.path.dirname(os.path.dirname(os.path.abspath(__file__)))

CLAIMED = {
    "C07": dict(
        category="model_checking", design_ref="DESIGN.md 5 (C07)",
        technique="TLA+ spec PeerFsm.tla exhausted by TLC + replay of every model transition on the real PeerFsm + "
                  "TLC trace validation of recorded random histories (PeerFsmTrace.tla)",
        text="TLC visits the complete (finite, unconstrained) state graph of PeerFsm.tla under the C07 invariants; every "
             "transition of that graph is then executed on the real PeerFsm and the projected state and outputs compared. "
             "The projection covers all mutable state of the struct, so edge cover of the complete graph is a simulation "
             "argument for all input histories, not a sample.",
        note="Trusted: TLC, the projection in harness/daemon/fsm.rs, the abstraction of message payloads to "
             "{acceptable OPEN, wrong-AS OPEN, KEEPALIVE, UPDATE, NOTIFICATION, ROUTE-REFRESH}; parser-rejected OPENs never reach the FSM."),
    "C08": dict(
        category="model_checking", design_ref="DESIGN.md 5 (C08)",
        technique="TLA+ spec HoldTimer.tla (PeerFsm x driver timers x virtual time) exhausted by TLC + replay of every "
                  "PeerFsm transition for real hold-time pairs on the real PeerFsm and the real session driver",
        text="TLC proves the timing invariants on the timed composition for scaled hold-time pairs (finite state space, no "
             "constraint); the conformance step shows the real FSM emits exactly the timer commands of the model for the real "
             "values {0,3,30,65535,...} and that the real driver arms tokio timers exactly as ArmHold/ArmKa say.",
        note="Trusted: tokio Sleep fires at its deadline; virtual time is scaled (unit-free arithmetic). The driver binding runs "
             "one connection per script through the real rx_msg / timer-expiry arm / flush_tx and reads the Sleep deadlines."),
}

RIB_NOTE = ("Trusted: TLC; the projection in harness/lib/src/bin/rib_replay.rs (public Table API only); the attribute-class table "
            "checks/riblib.py from which both the model's decision key and the concrete attributes are generated. Conformance of the "
            "larger configurations is sampled (random model walks), of the small ones exhaustive (edge cover).")
CLAIMED.update({
    "C02": dict(
        category="model_checking", design_ref="DESIGN.md 5 (C06/C15/C02)",
        technique="TLA+ spec Rib.tla (decision order as a lexicographic key, strict-weak-order and maximality invariants) exhausted by "
                  "TLC + model behaviours replayed on the real table::Table with rank / best / ECMP / eligibility monitors",
        text="TLC proves on every reachable state of the bounded model that the stated order is a strict weak order, that the "
             "reported best is maximal among eligible paths and that ranking depends only on the path set; every replayed step "
             "checks the real ranking is sorted under that key, its head is one of the model's maximal paths, ECMP equals the "
             "model's tie set and ineligible paths are absent.",
        note=RIB_NOTE),
    "C06": dict(
        category="model_checking", design_ref="DESIGN.md 5 (C06/C15/C02)",
        technique="TLA+ spec Rib.tla (notifications + the two documented consumers folded into view variables, ViewsMatch/IdsOK "
                  "invariants) exhausted by TLC + replay on the real Table folding the real NlriChange stream",
        text="TLC proves the fold invariant for the notification rule of the model; on the real table every replayed behaviour "
             "folds the real notifications with the documented skip rules and compares both consumers with the real Loc-RIB after "
             "every step, checks destination-id uniqueness/stability and that the end of a deferral announces every held prefix.",
        note=RIB_NOTE),
    "C15": dict(
        category="model_checking", design_ref="DESIGN.md 5 (C06/C15/C02)",
        technique="TLA+ spec Rib.tla (incrementally maintained counters vs recount, CountersOK/TotalsOK invariants) exhausted by TLC "
                  "+ replay on the real Table with a recount after every step; SessionLimit.tla (per-family limit counters of one session, one "
                  "action per rx_update call) exhausted by TLC + its transitions replayed on a real PeerSession",
        text="TLC proves the incremental counter rules equal a recount in every reachable state of the bounded model (several "
             "sessions of one peer, add-path, filtered paths, limits from 0); every replayed step recounts the real table and "
             "compares peer stats, the per-session limit counter and the table totals; at the session level every family's counter, the "
             "limit verdict of rx_update and a recount of the RIB are compared with SessionLimit.tla after every UPDATE.",
        note=RIB_NOTE),
    "C11": dict(
        category="model_checking", design_ref="DESIGN.md 5 (C11)",
        technique="TLA+ spec Deferral.tla (machine + driver glue + held/announced prefixes) exhausted by TLC + replay of every machine "
                  "transition on the real RestartingDeferral + Rib.tla deferral behaviours replayed on the real Table",
        text="The deferral machine is finite: TLC visits its complete graph and every transition is replayed on the real machine "
             "(complete projection), so the machine-level claims hold for all event sequences over 3 peers x 2-3 families; the table "
             "half (nothing announced while deferring, everything once at the end) is model-checked in Rib.tla and replayed.",
        note="Trusted: TLC, the projection in harness/daemon/gr.rs; the table half and the driver glue (Global.selection_deferral, "
             "process_restarting_outputs, run()'s tail, the expiry handler) are sampled conformance over feasible event sequences."),
})

CLAIMED.update({
    "C10": dict(
        category="model_checking", design_ref="DESIGN.md 5 (C10)",
        technique="TLA+ spec GrHelper.tla (GrState machine + driver glue + routes with stale/LLGR marks) exhausted by TLC + replay of "
                  "every machine transition on gr::GrState + model behaviours executed end-to-end on the real session code "
                  "(accept_connection / PeerSession::run / timers) against a scripted BGP speaker over loopback",
        text="TLC proves the C10 invariants on the complete (finite) composition for every session-end reason class; the pure machine "
             "is replayed exhaustively (complete projection); the driver glue is replayed through the real run()/session_loop/"
             "apply_disconnect/process_effects/timer tasks with a real TableManager, comparing GrState, live timers and the peer's "
             "routes with their marks after every step and evaluating the core invariant on the real state.",
        note="Trusted: TLC; projections in harness/daemon/{gr,event}.rs; timers observed as live one-shot senders and fired through "
             "them (durations are hours); session-end classes hold-timer and local Cease are not executed by the driver replay."),
    "C12": dict(
        category="model_checking", design_ref="DESIGN.md 5 (C12)",
        technique="TLA+ spec Rov.tla (RFC 6811 over a W-bit space, VRP table as a set) exhausted by TLC + every reachable VRP set "
                  "replayed on the real RpkiTable at several IPv4/IPv6 bit offsets",
        text="All VRP sets up to the bound over a 3-bit address space, all routes and all origin derivations are enumerated by "
             "TLC with the RFC 6811 state computed by the specification; the real validate(), table contents and "
             "insert/remove/drop-source algebra are compared for every set at offsets on and off byte boundaries.",
        note="Trusted: TLC; the embedding of the W-bit space; beyond-bound VRP set sizes and arbitrary real prefixes are not enumerated."),
    "C13": dict(
        category="model_checking", design_ref="DESIGN.md 5 (C13)",
        technique="TLA+ spec RtrClient.tla (client + conforming cache + second cache) exhausted by TLC + every transition replayed on "
                  "the real RpkiClient::serve_inner over tokio::io::duplex with model-chosen fragmentation; operator-ended sessions through "
                  "the real API; real-thread stress of concurrent caches (each table operation is one atomic action of the model)",
        text="The model is finite and fully explored; every transition (PDU type x fragmentation point x state) is executed on the "
             "real client with a real TableManager and the VRPs installed per cache compared after every PDU, including progress "
             "past PDU types the client does not use and removal at stream end.",
        note="Trusted: TLC; the cache is conforming; PDU consumption is observed through the client's per-type counters."),
})

CLAIMED.update({
    "C01": dict(
        category="model_checking", design_ref="DESIGN.md 5 (C01)",
        technique="TLA+ spec Export.tla (RIB with id re-use -> FIFO channel -> Deliver -> pending maps -> Flush -> neighbour's "
                  "Adj-RIB-In, route refresh) exhausted by TLC + model behaviours replayed on the real export pipeline over a "
                  "loopback socket, ending with a comparison against a brand-new session",
        text="TLC explores every interleaving of RIB changes with delivery, flushing and refresh for small constants and proves "
             "convergence to the fresh dump for the sound design (and exhibits the violation for each listed known deviation); "
             "behaviours of the as-implemented model are executed on the real TableManager / PeerSession (on_established, "
             "handle_prefix_update, flush_tx, do_route_refresh), the decoded Adj-RIB-In compared after every step, then the "
             "session is drained and compared with a brand-new session on the same RIB.",
        note="Trusted: TLC; the decoder used for the mirror (the repository's own PeerCodec); ranking reduced to router-id order; "
             "half of the replayed behaviours run under a per-neighbour export policy (rejecting one class) that disagrees with the "
             "global one, and with announcements the import policy rejects; conformance is sampled (random walks), the design "
             "check exhaustive within the constants."),
})

CLAIMED.update({
    "C09": dict(
        category="exploration", design_ref="DESIGN.md 5 (C09)",
        technique="TLA+ function-style spec Propagation.tla: the full case matrix with Expected per case enumerated by TLC, each case "
                  "executed on the real process_nlri_change (both export branches, the ADD-PATH one also with a companion path) with a "
                  "recording sink; inbound loop table "
                  "replayed on real sessions",
        text="The matrix source kind (API-originated, kernel, eBGP, iBGP, RR client, RS client, confed) x receiver role x confederation x AS_PATH shape x attribute-presence vector x LLGR x same-peer is "
             "finite; TLC enumerates it completely (exhaustive: true) and the real export function is run on every case and compared "
             "field by field with what the statement requires; fields the statement leaves open are not compared.",
        note="Trusted: the transcription of the statement into Expected (checked for internal consistency by TLC); concrete attribute "
             "values are one representative per class."),
})

CLAIMED.update({
    "C14": dict(
        category="exploration", design_ref="DESIGN.md 5 (C14)",
        technique="TLA+ function-style reference semantics Policy.tla: (policy, route) cases enumerated by TLC with the required "
                  "outcome, each evaluated by the real PolicyTable + apply_import at three address embeddings; PolicyStore.tla "
                  "(state machine of every add/replace/delete call, invariant NoDivergence checked exhaustively by TLC) whose random "
                  "behaviours are replayed on the real PolicyTable with result, listing, held-copy identity and live evaluation "
                  "compared after every call; panics are violations",
        text="Every condition of the catalogue against every route of the bounded universe, and 72 two-statement policies for "
             "ordering / accumulation / default, are enumerated completely by TLC together with the outcome the reference semantics "
             "requires; the real evaluation is compared case by case.  The store half is checked exhaustively in the model (138k "
             "states) and by random model behaviours (900 x 40 calls in the quick tier) replayed on the real store for each of the "
             "six defined-set kinds and three pairs of kinds.",
        note="Trusted: the transcription of the statement into Policy.tla (sanity-checked by TLC); only prefix / AS-path / community "
             "/ AS-path-length conditions and set-LOCAL_PREF / add-community actions are in the catalogue."),
})

CLAIMED.update({
    "C05": dict(
        category="exploration", design_ref="DESIGN.md 5 (C05)",
        technique="TLA+ function-style reference table Rfc7606.tla: base message x peer x AS width x attribute x corruption "
                  "(x second corrupted attribute) cases enumerated by TLC with the allowed outcomes, each materialised as UPDATE "
                  "bytes and run through the real try_parse + validate_message; panics are violations",
        text="All 54,616 cases of the table are enumerated by TLC and each is run on the real decoder/validator; the fate of the "
             "announced prefix, of the withdrawn prefix and of each corrupted attribute is compared with the table.  Bounded to "
             "IPv4 legacy NLRI and IPv6 MP_REACH/MP_UNREACH, one announced and one withdrawn prefix, at most two corrupted "
             "attributes.",
        note="Trusted: the transcription of the statement into Rfc7606.tla (sanity-checked by TLC) and the byte builder of the "
             "harness (its 'none' cases must decode to the intended route, which the table requires)."),
})

CLAIMED.update({
    "C16": dict(
        category="exploration", design_ref="DESIGN.md 5 (C16)",
        technique="TLA+ Admission.tla (state machine: connect / API calls / remote close / session tail as separate actions, "
                  "invariants OnePerDirection, SlotHeld, LiveIsAdmitted, DynamicHasConnection checked exhaustively by TLC) with "
                  "random behaviours replayed on the real Global + accept_connection + PeerSession::run + gRPC handlers over "
                  "loopback sockets; function-style tables Negotiate.tla / Params.tla / Contains.tla enumerated by TLC and compared "
                  "case by case with the real PeerFsm, negotiate_gr/llgr, accept_connection and IpNet::contains",
        text="Admission: the model is checked exhaustively (16k states quick, 15M thorough) and 250 (2500) random behaviours of up "
             "to 25 (30) steps are replayed on the real code with the result of every call and the neighbour table compared. "
             "Negotiation: all 26,005 capability-list pairs of the table from both ends. Session parameters: 120 configurations; "
             "peer-group inheritance (Inherit.tla): 16,384 combinations of fields set by the neighbour / by its group. "
             "Prefix containment: 1,280 cases x 8 embeddings.",
        note="Trusted: the transcription of the statement into the tables; the single-threaded test runtime realises the model's "
             "interleavings (the harness does not yield between a close signal and the model's `end` step). IPv6 sessions are not "
             "opened (only ::1 exists in the sandbox); IPv6 is covered by the containment table."),
})

CLAIMED.update({
    "C03": dict(
        category="exploration", design_ref="DESIGN.md 5 (C03)",
        technique="TLA+ Framing.tla (stream-decoder contract under arbitrary fragmentation; invariants FragmentationIndependent, "
                  "NoCompleteFrameLeft, Progress checked exhaustively by TLC) with every model transition replayed with concrete bytes "
                  "on PeerCodec::try_parse and RtrCodec::decode; the per-call contract is then checked on a structured corruption sweep "
                  "of real messages of every family and codec variant under catch_unwind in debug and release arithmetic",
        text="Stream part: exhaustive for the model (all frame-class sequences of up to 3 frames, all fragmentations) on three decoder "
             "instances. Sweep part: bounded - one- and sampled two-site boundary substitutions and every truncation of valid messages "
             "(375k decoder runs quick, ~10M thorough in both arithmetic profiles); arbitrary byte strings are not enumerated.",
        note="Trusted: the harness's own contract checker and the sample messages (self-tested by round trip). The per-family NLRI "
             "decoders are exercised only through corruptions of the sample NLRI values."),
})

CLAIMED.update({
    "C04": dict(
        category="exploration", design_ref="DESIGN.md 5 (C04)",
        technique="TLA+ Chunking.tla (the splitting loop of encode_to as a state machine, invariants FrameWithinLimit / Partition / "
                  "Complete checked by TLC for all entry-size sequences, deviations shown to violate them); the frames written by the "
                  "real encoder are checked to be a behaviour of the specification and decoded with the codec negotiated from the "
                  "opposite side",
        text="2,616 encoder cases (19 families x codec variants x attribute-size classes x entry-count classes x announce/withdraw) in "
             "each arithmetic profile: frame structure, entry sequence, next hop, attributes, fixed point; OPEN capability totals "
             "across 255 bytes.  Bounded to the sample NLRI / attribute values.",
        note="Trusted: the sample values and the harness's frame splitter; equality of attributes is by code and payload."),
})

CLAIMED.update({
    "C18": dict(
        category="exploration", design_ref="DESIGN.md 5 (C18)",
        technique="TLA+ Subscribe.tla (session threads and subscriber at shard-lock granularity; invariants Reconstructs and "
                  "LastEventIsCurrent checked by TLC over all interleavings, deviation LoadBeforeLock shown to violate them); random "
                  "complete interleavings replayed on the real TableManager with real OS threads parked at cfg-guarded scheduling "
                  "points before every shard-lock acquisition; per-step RIB comparison and final fold-vs-RIB comparison; Rib.tla behaviours "
                  "through the real TableManager with sequential subscribers; real-thread stress of concurrent subscribe / unsubscribe",
        text="Exhaustive in the model for 5 configurations (2 session threads x 1-3 calls, with/without session end, 1-2 subscribers, "
             "2 shards, 3 keys, pre/post-policy views); 1250 (2500) complete interleavings replayed on the real code, every other one "
             "with a next hop reported unreachable; the real RIB is compared with the model after every step.",
        note="Trusted: the placement of the scheduling points (a change confined inside one critical section is seen only through "
             "the final comparison). Peer-up/peer-down pairing in bmp.rs is not covered."),
})

CLAIMED.update({
    "C20": dict(
        category="exploration", design_ref="DESIGN.md 5 (C20)",
        technique="TLA+ Rib.tla (decision process, ECMP set, next-hop validity) extended with the FIB / registration projection; "
                  "random model behaviours replayed through the real TableManager with a readable kernel handle (cfg-guarded "
                  "constructor); the request stream is drained and folded after every operation and compared with the model",
        text="500 (3000) random behaviours of up to 30 (40) operations over 2 prefixes, 3 peers, tie/win/lose attribute classes, shared "
             "next hops, import rejection, stale / LLGR marking and purges and reachability flips; per step the folded FIB and the "
             "registration counts are compared.  Soft reset IN under a next-hop-setting import policy is one of the operations.  IPv4 unicast only; VRF "
             "installation not covered.",
        note="Trusted: Rib.tla's decision process (validated against the real table by C02/C06) and the fold of the request stream."),
})

CLAIMED.update({
    "C17": dict(
        category="exploration", design_ref="DESIGN.md 5 (C17)",
        technique="TLA+ function-style spec ApiValue.tla (API input cases, MustAccept, the wire invariants WellFormed over the projection "
                  "of an Attribute / Nlri, and the verdict Reason) whose cases TLC enumerates; every case is converted by the real "
                  "attr_from_api / net_from_api and the recorded conversions are validated by TLC against ApiValueTrace.tla; TLA+ "
                  "state machine ApiStore.tla (AddPath / DeletePath / ListPath next to peer-learned paths; invariants checked "
                  "exhaustively by TLC) with every transition replayed on the real GrpcService and TableManager; sample / "
                  "wire-decoded values round-tripped through the API form",
        text="1,626 API input cases (attribute kinds x field classes incl. out-of-range enums, over-long lists, malformed addresses, "
             "Unknown{type = known code}; NLRI kinds x families x field classes) are converted by the real code and each record "
             "(outcome, projected value, round trip, trip over the wire, use in selection / policy / encoding under catch_unwind) is "
             "accepted or rejected by the specification; 14.8k values (samples of every attribute kind and of the 19 families' NLRI, "
             "wire-decoded copies, 256 x 19 x 3 extended communities) go to the API form and back; all 6,120 transitions of the "
             "store model are replayed on the real gRPC handlers comparing the RPC result, the table and ListPath after every call.",
        note="Trusted: the transcription of the wire decoder's guarantees into WellFormed; concrete values are one representative per "
             "field class; TunnelEncap / PrefixSid / LS contents only through the sample round trip. The next hop is not part of "
             "what ListPath shows (it is held outside the attribute list); its stored value is compared instead."),
})

CLAIMED.update({
    "C19": dict(
        category="exploration", design_ref="DESIGN.md 5 (C19)",
        technique="TLA+ function-style spec MonitorRecord.tla (monitored events -> structural fields an independent reader must find, "
                  "verdict Reason) whose events TLC enumerates; every event is converted by the daemon's real converters and encoded "
                  "by the real BmpCodec / MrtCodec / dump_table, read back by a reader written from RFC 7854 / 6396 / 8050 with the "
                  "embedded PDUs parsed by the repository's BGP parser, and the observations validated by TLC against "
                  "MonitorRecordTrace.tla; TLA+ state machine BmpSession.tla replayed on the real BmpClient::serve over real sessions",
        text="867 monitored events (Route Monitoring in 5 views x peer family x 5 address families x add-path x reach / unreach / "
             "end-of-rib x NLRI count up to 20,000 x attribute size up to 5.2k x next-hop family; Peer Up / Down / Initiation; "
             "BGP4MP; TABLE_DUMP_V2 dumps of real tables) produce ~4,000 BMP messages / MRT records that are read back and judged "
             "by the specification.  Bounded to the sample NLRI / attribute values; Stats Reports and Route Mirroring are not "
             "emitted by the daemon.",
        note="Trusted: the reader (RFC transcription) and the repository's BGP parser for the embedded PDUs; Route Monitoring "
             "headers of the live path are rebuilt in the harness as BmpClient::serve builds them (the session half runs serve "
             "itself)."),
})

NOT_YET = {}

HOOK_COMMITS = []


def main():
    props = [json.loads(l) for l in open(os.path.join(ROOT, "properties.jsonl"))]
    checks = []
    na = []
    for p in props:
        pid = p["id"]
        if pid in CLAIMED:
            c = CLAIMED[pid]
            checks.append({
                "property_id": pid,
                "quick_cmd": f"bin/check {pid} --tier quick",
                "thorough_cmd": f"bin/check {pid} --tier thorough",
                "evidence_file": f"/verif/evidence/{pid}.json",
                "replay_cmd_template": f"bin/check {pid} --replay {{path}}",
                "engine": c.get("engine", "tlc+harness"),
                "level_claimed": {"category": c["category"], "text": c["text"], "design_ref": c["design_ref"]},
                "level_note": c["note"],
                "technique": c["technique"],
            })
        else:
            na.append({"property_id": pid, "reason": NOT_YET.get(pid, "check not built yet in this session (see DESIGN.md 6 build order)")})
    hooks = subprocess.run(["git", "-C", "/repo", "log", "--format=%H %s"], capture_output=True, text=True).stdout
    commits = [l.split()[0] for l in hooks.splitlines() if "verif hook" in l]
    m = {
        "version": 1,
        "setup_cmd": "bin/setup",
        "hooks": {
            "guard": "--cfg osrg_rustybgp_verif",
            "enable": "RUSTFLAGS='--cfg osrg_rustybgp_verif --check-cfg cfg(osrg_rustybgp_verif)' "
                      "OSRG_RUSTYBGP_VERIF_DIR=/verif/harness/daemon cargo test -p rustybgpd --offline (done by lib/vf.py)",
            "baseline_off_cmd": "cd /repo && cargo test --workspace --no-fail-fast --offline",
            "source_commits": commits,
            "add_only": True,
        },
        "engines": [
            {"name": "tlc", "path": "/verif/spec", "kind_free_text": "TLA+ specifications checked with TLC; *MC.tla emit transitions, *Trace.tla validate recorded traces"},
            {"name": "daemon-harness", "path": "/verif/harness/daemon", "kind_free_text": "Rust files compiled into rustybgpd's test binary through cfg-guarded include! hooks"},
            {"name": "lib-harness", "path": "/verif/harness/lib", "kind_free_text": "standalone cargo package with path deps on /repo/packet and /repo/table"},
        ],
        "checks": checks,
        "not_applicable": na,
        "notes": "All checks: cd /verif && bin/check <id> --tier quick|thorough. Exit 0 held / 1 VIOLATION / 2 tool error.",
    }
    json.dump(m, open(os.path.join(ROOT, "MANIFEST.json"), "w"), indent=1)


if __name__ == "__main__":
    main()
