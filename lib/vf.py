"""Shared machinery for the /verif checks: TLC driver, EDGE-line parsing, transition-cover
sequence generation, cargo drivers for the two harness engines, evidence and findings.

Exit-code contract (DESIGN 3.1): 0 = property held on everything explored, 1 = violation
(with a `VIOLATION property=<id> replay=<path>` line), 2 = tool error / timeout.
"""
import collections
import fcntl
import hashlib
import json
import os
import random
import re
import subprocess
import sys
import time

ROOT = os.path.dirname(os.path.dirname(os.path.abspath(__file__)))
REPO = os.environ.get("VERIF_REPO", "/repo")
WORK = os.path.join(ROOT, "work")
TARGET = os.path.join(ROOT, "target")
GUARD = "osrg_rustybgp_verif"
RUSTFLAGS = f"--cfg {GUARD} --check-cfg cfg({GUARD})"
NCPU = os.cpu_count() or 4


class ToolError(Exception):
    pass


class CodePanic(Exception):
    """A harness process died because the CODE UNDER TEST panicked (panic location outside /verif): that is data about
    the repository, not a tool problem - run_check turns it into a violation."""

    def __init__(self, harness, where, message, inputs):
        super().__init__(f"{harness}: panic at {where}: {message}")
        self.harness, self.where, self.message, self.inputs = harness, where, message, inputs


def _code_panic(harness, text, env):
    """Raise CodePanic if `text` (output of a failed harness process) shows a panic located in the repository's sources."""
    import re
    for m in re.finditer(r"panicked at ([^\n:]+):(\d+)(?::\d+)?:?\n?([^\n]*)", text):
        path = m.group(1)
        if "/verif/" in path or "harness" in path or path.startswith("/rustc/") or "/.cargo/" in path:
            continue
        inputs = {k: v for k, v in (env or {}).items() if k.startswith("VERIF_")}
        raise CodePanic(harness, f"{path}:{m.group(2)}", m.group(3).strip()[:300], inputs)


def log(*a):
    print(*a, file=sys.stderr, flush=True)


def canon(x):
    return json.dumps(x, sort_keys=True, separators=(",", ":"))


# --------------------------------------------------------------------------- TLC

class TlcResult:
    def __init__(self):
        self.stdout = ""
        self.generated = 0
        self.distinct = 0
        self.depth = 0
        self.violated = None      # invariant / property name, or "deadlock", "assert"
        self.error_text = ""
        self.wall = 0.0
        self.rc = 0
        self.edges = []
        self.prints = []
        self.action_cov = {}


_tlc_seq = [0]


def tlc(spec_dir, module, cfg, workers=None, timeout=900, simulate=None, depth=None,
        env=None, heap="8g", want_edges=False, coverage=False, dfs=False, seed=None,
        quiet=False):
    """Run TLC on <spec_dir>/<module>.tla with <cfg>.  Never raises for a property
    violation (see .violated); raises ToolError for timeouts / parse errors."""
    os.makedirs(WORK, exist_ok=True)
    _tlc_seq[0] += 1
    meta = os.path.join(WORK, "tlc", f"{module}-{os.getpid()}-{_tlc_seq[0]}")
    os.makedirs(meta, exist_ok=True)
    tmp = os.path.join(WORK, "tmp")
    os.makedirs(tmp, exist_ok=True)
    if workers is None:
        workers = min(NCPU, 12)
    jopts = f"-Xss1g -Djava.io.tmpdir={tmp}"
    if dfs:
        jopts += " -Dtlc2.tool.queue.IStateQueue=StateDeque"
    e = dict(os.environ)
    e["JAVA_TOOL_OPTIONS"] = jopts
    if env:
        e.update(env)
    cmd = ["timeout", str(int(timeout)), "java", "-XX:+UseParallelGC", f"-Xmx{heap}",
           "-cp", "/opt/veriftools/tla/tla2tools.jar:/opt/veriftools/tla/CommunityModules-deps.jar",
           "tlc2.TLC", "-workers", str(workers), "-metadir", meta, "-cleanup",
           "-noGenerateSpecTE", "-config", cfg]
    if coverage:
        cmd += ["-coverage", "1"]
    if simulate:
        cmd += ["-simulate", f"num={simulate}"]
        if depth:
            cmd += ["-depth", str(depth)]
        if seed is not None:
            cmd += ["-seed", str(seed)]
    cmd.append(module + ".tla")
    t0 = time.time()
    p = subprocess.run(cmd, cwd=spec_dir, env=e, stdout=subprocess.PIPE,
                       stderr=subprocess.STDOUT, text=True, errors="replace")
    r = TlcResult()
    r.wall = time.time() - t0
    r.rc = p.returncode
    r.stdout = p.stdout
    subprocess.run(["rm", "-rf", meta])
    if p.returncode == 124:
        raise ToolError(f"TLC timeout after {timeout}s on {module}/{cfg}")
    out = p.stdout
    m = None
    for m in re.finditer(r"(\d+) states generated, (\d+) distinct states found", out):
        pass
    if m:
        r.generated, r.distinct = int(m.group(1)), int(m.group(2))
    m = re.search(r"depth of the complete state graph search is (\d+)", out)
    if m:
        r.depth = int(m.group(1))
    m = re.search(r"Error: Invariant (\S+) is violated", out)
    if m:
        r.violated = m.group(1)
    elif re.search(r"Error: Action property (\S+)", out):
        r.violated = re.search(r"Error: Action property (\S+)", out).group(1)
    elif "Error: Temporal properties were violated" in out:
        r.violated = "temporal"
    elif "Error: Deadlock reached" in out:
        r.violated = "deadlock"
    elif re.search(r"Error: Postcondition (\S+)", out):
        r.violated = "postcondition"
    elif "Error: The first argument of Assert evaluated to FALSE" in out or \
            "Assumption" in out and "is false" in out:
        r.violated = "assert"
    elif "Error:" in out:
        r.error_text = out[out.index("Error:"):][:3000]
        if not r.violated:
            raise ToolError(f"TLC error on {module}/{cfg}:\n{r.error_text}")
    if r.violated:
        i = out.find("Error:")
        r.error_text = out[i:i + 6000]
    if want_edges:
        for line in out.splitlines():
            if line.startswith('"{'):
                try:
                    r.edges.append(json.loads(json.loads(line)))
                except Exception as ex:  # pragma: no cover
                    raise ToolError(f"unparseable EDGE line: {line[:200]} ({ex})")
    if not simulate and not r.violated and not m and "Model checking completed" not in out \
            and "Finished in" not in out:
        raise ToolError(f"TLC did not finish on {module}/{cfg}:\n{out[-2000:]}")
    if not quiet:
        log(f"[tlc] {module} {os.path.basename(cfg)}: generated={r.generated} distinct={r.distinct} "
            f"depth={r.depth} violated={r.violated} {r.wall:.1f}s")
    return r


def tlc_trace(spec_dir, module, cfg, trace_path, timeout=600, heap="4g"):
    """Trace validation run: -workers 1, depth-first queue, TRACE env var."""
    return tlc(spec_dir, module, cfg, workers=1, timeout=timeout, heap=heap, dfs=True,
               env={"TRACE": trace_path})


# --------------------------------------------------------------------------- graph cover

def pick_targets(edges, klass, extra=0, seed=0):
    """One representative edge per class `klass(edge)` (chosen with `seed`), plus `extra` random others.
    Used to spend a small replay budget on behaviourally distinct transitions first."""
    rng = random.Random(seed)
    by = collections.defaultdict(list)
    for i, e in enumerate(edges):
        by[klass(e)].append(i)
    targets = set()
    for k in sorted(by, key=lambda x: canon(x)):
        targets.add(rng.choice(by[k]))
    rest = [i for i in range(len(edges)) if i not in targets]
    rng.shuffle(rest)
    targets.update(rest[:extra])
    return targets, len(by)


def cover_sequences(edges, key=lambda e: canon(e["pre"]), post_key=lambda e: canon(e["post"]),
                    init_key=None, max_len=120, budget=None, seed=0, targets=None):
    """Operation sequences (lists of edge indexes) that start in the initial state and
    together traverse every edge at least once.  Greedy: from the current state walk the
    shortest path to the nearest state that still has an untraversed out-edge.
    Returns (sequences, covered_count, total)."""
    out = collections.defaultdict(list)
    for i, e in enumerate(edges):
        out[key(e)].append(i)
    pk = [post_key(e) for e in edges]
    if init_key is None:
        # the state with no incoming edge from a different state, else the first pre
        init_key = key(edges[0])
    if targets is None:
        uncovered = {k: list(v) for k, v in out.items()}
        remaining = len(edges)
    else:
        uncovered = {k: [i for i in v if i in targets] for k, v in out.items()}
        remaining = sum(len(v) for v in uncovered.values())
    total = remaining
    seqs = []
    cur_seq = []
    cur = init_key
    steps = 0

    def nearest(start):
        # BFS over states; returns list of edge idx leading to a state with uncovered edges
        if uncovered.get(start):
            return []
        seen = {start}
        q = collections.deque([(start, None)])
        parent = {}
        while q:
            st, _ = q.popleft()
            for ei in out.get(st, ()):
                nx = pk[ei]
                if nx in seen:
                    continue
                seen.add(nx)
                parent[nx] = (st, ei)
                if uncovered.get(nx):
                    path = []
                    x = nx
                    while x != start:
                        px, pe = parent[x]
                        path.append(pe)
                        x = px
                    path.reverse()
                    return path
                q.append((nx, None))
        return None

    while remaining > 0 and (budget is None or steps < budget):
        path = nearest(cur)
        if path is None or len(cur_seq) + len(path) + 1 > max_len:
            if cur_seq:
                seqs.append(cur_seq)
            cur_seq = []
            cur = init_key
            path = nearest(cur)
            if path is None:
                break
        for ei in path:
            cur_seq.append(ei)
            cur = pk[ei]
            steps += 1
        lst = uncovered[cur]
        ei = lst.pop()
        remaining -= 1
        cur_seq.append(ei)
        cur = pk[ei]
        steps += 1
    if cur_seq:
        seqs.append(cur_seq)
    return seqs, total - remaining, total


# --------------------------------------------------------------------------- cargo

def _lock():
    os.makedirs(TARGET, exist_ok=True)
    f = open(os.path.join(TARGET, ".lock"), "w")
    fcntl.flock(f, fcntl.LOCK_EX)
    return f


def cargo_env(extra=None):
    e = dict(os.environ)
    e["CARGO_NET_OFFLINE"] = "true"
    e["RUSTFLAGS"] = RUSTFLAGS
    e["OSRG_RUSTYBGP_VERIF_DIR"] = os.path.join(ROOT, "harness", "daemon")
    e.setdefault("RUST_BACKTRACE", "0")
    if extra:
        e.update(extra)
    return e


def daemon_test(test_filter, env=None, timeout=900, build_timeout=1500):
    """Build rustybgpd's test binary from REPO's working tree with hooks on and run the
    harness tests matching `test_filter`.  Returns the combined output."""
    e = cargo_env(env)
    e["CARGO_TARGET_DIR"] = os.path.join(TARGET, "daemon")
    lock = _lock()
    try:
        t0 = time.time()
        b = subprocess.run(["timeout", str(build_timeout), "cargo", "test", "--offline", "-p", "rustybgpd",
                            "--no-run", "--message-format=json"], cwd=REPO, env=e,
                           stdout=subprocess.PIPE, stderr=subprocess.PIPE, text=True)
        if b.returncode != 0:
            raise ToolError("cargo build of rustybgpd tests failed:\n" + b.stderr[-6000:])
        exe = None
        for line in b.stdout.splitlines():
            if line.startswith("{") and '"executable"' in line:
                try:
                    j = json.loads(line)
                except Exception:
                    continue
                if j.get("executable") and j.get("target", {}).get("name") == "rustybgpd" \
                        and j.get("profile", {}).get("test"):
                    exe = j["executable"]
        if not exe:
            raise ToolError("could not locate rustybgpd test executable")
        log(f"[cargo] daemon test binary built in {time.time() - t0:.1f}s")
    finally:
        lock.close()
    t0 = time.time()
    p = subprocess.run(["timeout", str(timeout), exe, test_filter, "--nocapture", "--test-threads", "1"],
                       cwd=os.path.join(REPO, "daemon"), env=e, stdout=subprocess.PIPE,
                       stderr=subprocess.STDOUT, text=True, errors="replace")
    log(f"[cargo] {test_filter}: rc={p.returncode} {time.time() - t0:.1f}s")
    if p.returncode == 124:
        raise ToolError(f"harness {test_filter} timed out after {timeout}s")
    if p.returncode != 0:
        _code_panic(test_filter, p.stdout, env)
    return p.returncode, p.stdout


def lib_build(build_timeout=1500, profile="dev"):
    """Build the standalone harness crate (path deps on REPO/packet, REPO/table)."""
    hd = os.path.join(ROOT, "harness", "lib")
    if REPO != "/repo":
        # a run against another checkout (VERIF_REPO): the path dependencies of the harness package name /repo, so build a
        # copy of the package whose manifest points at that checkout
        import shutil
        cp = os.path.join(TARGET, "libsrc")
        shutil.rmtree(cp, ignore_errors=True)
        shutil.copytree(hd, cp, ignore=shutil.ignore_patterns("target"))
        mf = os.path.join(cp, "Cargo.toml")
        txt = open(mf).read().replace('"/repo/', '"' + REPO.rstrip("/") + "/")
        open(mf, "w").write(txt)
        hd = cp
    e = cargo_env()
    e["CARGO_TARGET_DIR"] = os.path.join(TARGET, "lib")
    e["VERIF_REPO"] = REPO
    lock = _lock()
    try:
        t0 = time.time()
        b = subprocess.run(["timeout", str(build_timeout), "cargo", "build", "--offline", "--bins"] +
                           (["--release"] if profile == "release" else []), cwd=hd, env=e,
                           stdout=subprocess.PIPE, stderr=subprocess.STDOUT, text=True)
        if b.returncode != 0:
            raise ToolError("cargo build of harness/lib failed:\n" + b.stdout[-6000:])
        log(f"[cargo] harness/lib built in {time.time() - t0:.1f}s")
    finally:
        lock.close()
    return os.path.join(TARGET, "lib", "release" if profile == "release" else "debug")


def lib_run(binname, args, timeout=900, env=None, stdin=None, profile="dev"):
    d = lib_build(profile=profile)
    e = dict(os.environ)
    if env:
        e.update(env)
    t0 = time.time()
    p = subprocess.run(["timeout", str(timeout), os.path.join(d, binname)] + list(args), env=e,
                       stdout=subprocess.PIPE, stderr=subprocess.PIPE, text=True, input=stdin,
                       errors="replace")
    log(f"[lib] {binname}: rc={p.returncode} {time.time() - t0:.1f}s")
    if p.returncode == 124:
        raise ToolError(f"{binname} timed out after {timeout}s")
    if p.returncode != 0:
        _code_panic(binname, p.stderr, dict(env or {}, VERIF_ARGS=" ".join(str(a) for a in args)))
    return p.returncode, p.stdout, p.stderr


def read_jsonl(path):
    res = []
    with open(path) as f:
        for line in f:
            line = line.strip()
            if line:
                res.append(json.loads(line))
    return res


# --------------------------------------------------------------------------- findings

def load_findings():
    p = os.path.join(ROOT, "known_findings.json")
    if not os.path.exists(p):
        return []
    return json.load(open(p))


# --------------------------------------------------------------------------- check context

class Check:
    def __init__(self, pid, level):
        self.pid = pid
        self.level = level
        self.tier = os.environ.get("VERIF_TIER", "quick")
        self.seed = int(os.environ.get("VERIF_SEED", "0") or 0)
        self.rng = random.Random(self.seed)
        self.t0 = time.time()
        self.cov = {"evaluations": 0, "distinct_nontrivial": 0, "states": 0, "transitions": 0,
                    "traces_validated_against_impl": 0, "samples": [], "exhaustive": False,
                    "rule": "", "parts": {}}
        self.assumptions = []
        self.violations = []
        self.known_printed = set()
        self.findings = [f for f in load_findings() if f.get("property") == pid]

    # -- known findings
    def known(self, ident):
        for f in self.findings:
            if f.get("status") == "known" and f.get("id") == ident:
                return f
        return None

    def report_known(self, ident, what):
        if ident not in self.known_printed:
            self.known_printed.add(ident)
            print(f"KNOWN-FINDING: property={self.pid} {ident}: {what}", flush=True)

    # -- violations
    def violation(self, kind, detail, replay):
        os.makedirs(os.path.join(ROOT, "replays"), exist_ok=True)
        body = canon({"kind": kind, "detail": detail, "replay": replay})
        h = hashlib.sha1(body.encode()).hexdigest()[:12]
        path = os.path.join(ROOT, "replays", f"{self.pid}-{h}.json")
        with open(path, "w") as f:
            json.dump({"property": self.pid, "kind": kind, "detail": detail, "seed": self.seed,
                       "tier": self.tier, "replay": replay}, f, indent=1, sort_keys=True)
        if path in self.violations:
            return path
        self.violations.append(path)
        if len(self.violations) <= 5:
            print(f"VIOLATION property={self.pid} replay={path}", flush=True)
            log(f"  kind={kind} detail={json.dumps(detail)[:1500]}")
        return path

    def add_tlc(self, name, r):
        self.cov["states"] += r.distinct
        self.cov["transitions"] += r.generated
        self.cov["parts"][name] = {"tlc_distinct_states": r.distinct, "tlc_states_generated": r.generated,
                                   "depth": r.depth, "wall_s": round(r.wall, 1)}

    def sample(self, x):
        if len(self.cov["samples"]) < 4:
            self.cov["samples"].append(x)

    def finish(self, tool_error=None):
        ev = {
            "property_id": self.pid,
            "tier": self.tier if self.tier in ("quick", "thorough") else "quick",
            "seed": self.seed,
            "level": self.level,
            "coverage": self.cov,
            "assumptions": self.assumptions,
            "wall_s": round(time.time() - self.t0, 2),
            "violations": len(self.violations),
        }
        if tool_error:
            ev["assumptions"] = self.assumptions + [f"TOOL ERROR, run incomplete: {tool_error}"[:2000]]
            # keep the file schema-valid even for an incomplete run
            ev["coverage"]["evaluations"] = max(1, ev["coverage"]["evaluations"])
            ev["coverage"]["distinct_nontrivial"] = max(2, ev["coverage"]["distinct_nontrivial"])
            if not ev["coverage"]["samples"]:
                ev["coverage"]["samples"] = ["none: tool error"]
        if ev["coverage"]["states"] == 0:
            ev["coverage"].pop("states")
            ev["coverage"].pop("transitions")
            ev["coverage"].pop("traces_validated_against_impl", None)
        # extra checks (ids starting with X: growth of the specification beyond the listed properties) are not in the
        # manifest; their record goes to the scratch directory
        evdir = os.path.join(ROOT, "evidence") if not self.pid.startswith("X") else os.path.join(WORK, "evidence-extra")
        os.makedirs(evdir, exist_ok=True)
        with open(os.path.join(evdir, f"{self.pid}.json"), "w") as f:
            json.dump(ev, f, indent=1, sort_keys=True)
        if tool_error:
            log(f"TOOL ERROR: {tool_error}")
            return 2
        if self.violations:
            return 1
        log(f"[{self.pid}] OK tier={self.tier} wall={ev['wall_s']}s evaluations={self.cov['evaluations']}")
        return 0


def run_check(pid, level, body):
    os.makedirs(WORK, exist_ok=True)       # a fresh checkout has no work/ and a check may write an input file first
    c = Check(pid, level)
    try:
        body(c)
    except CodePanic as ex:
        # the code under test panicked in a place no harness step catches: a violation (every property's code must not
        # panic on the inputs its check feeds it), with the harness input kept for the replay
        keep = {}
        for k, v in ex.inputs.items():
            keep[k] = v
            if os.path.isfile(str(v)) and os.path.getsize(v) < 400000:
                keep[k + "_content"] = open(v, errors="replace").read()
        c.violation("panic", {"harness": ex.harness, "panicked_at": ex.where, "message": ex.message},
                    {"harness": ex.harness, "inputs": keep})
        return c.finish()
    except ToolError as ex:
        return c.finish(tool_error=str(ex))
    except Exception as ex:  # harness bug = tool error, never a violation
        import traceback
        traceback.print_exc()
        return c.finish(tool_error=f"{type(ex).__name__}: {ex}")
    return c.finish()


def rejected(stdout):
    """(record number, reason) pairs printed by a *Trace.tla module for the records it rejects."""
    out = []
    for ln in stdout.splitlines():
        if ln.startswith('"{') and "rejected" in ln:
            j = json.loads(json.loads(ln))
            out.append((int(j["rejected"]), j["why"]))
    return out


def parse_walks(stdout):
    """Split the EmitWalk lines of a `tlc -simulate -workers 1` run into behaviours (lvl==2 starts one; a line whose
    lvl is not last+1 is a re-evaluated state, not a step)."""
    walks = []
    cur = None
    last = 0
    for line in stdout.splitlines():
        if line.startswith('"{'):
            j = json.loads(json.loads(line))
            if j["lvl"] == 2:
                cur = []
                walks.append(cur)
            elif cur is None or j["lvl"] != last + 1:
                continue
            last = j["lvl"]
            cur.append(j)
    return [w for w in walks if w]
