// Independent structural reader for BMP (RFC 7854 / 8671 / 9069) messages and MRT (RFC 6396 / 8050) records, written from
// the RFCs; the repository has no decoder for either.  Included textually by harness/daemon/bmp.rs and mrt.rs.
// Embedded BGP PDUs are framed here (marker / length / type) and then handed to the repository's own BGP parser.

#[derive(Default, Clone, Debug)]
pub struct Obs {
    pub outcome: String,
    pub nrec: usize,
    pub lenok: bool,
    pub typ: i64,
    pub peertype: i64,
    pub v: bool,
    pub l: bool,
    pub o: bool,
    pub addrok: bool,
    pub minpdus: usize,
    pub maxpdus: usize,
    pub leftover: bool,
    pub parse: String,
    pub content: String,
    pub subtype: i64,
    pub afi: i64,
    pub aswidth: i64,
    pub idxok: bool,
    pub countok: bool,
    /// the bytes do not depend on what the same codec encoded before
    pub stateless: bool,
    pub note: String,
}

impl Obs {
    pub fn new() -> Self {
        Obs {
            outcome: "ok".into(),
            lenok: true,
            typ: -2,
            peertype: -2,
            addrok: true,
            minpdus: usize::MAX,
            parse: "ok".into(),
            content: "same".into(),
            subtype: -2,
            afi: -2,
            aswidth: -2,
            idxok: true,
            countok: true,
            stateless: true,
            ..Default::default()
        }
    }
    pub fn failed(outcome: &str, note: &str) -> Self {
        let mut o = Obs::new();
        o.outcome = outcome.into();
        o.note = note.into();
        o
    }
    pub fn merge_i(slot: &mut i64, v: i64) {
        if *slot == -2 {
            *slot = v;
        } else if *slot != v {
            *slot = -1;
        }
    }
    pub fn to_json(&self) -> String {
        let clean = |s: &str| s.replace('\\', "/").replace('"', "'").replace('\n', " ");
        format!(
            "{{\"outcome\":\"{}\",\"nrec\":{},\"lenok\":{},\"type\":{},\"peertype\":{},\"v\":{},\"l\":{},\"o\":{},\"addrok\":{},\"minpdus\":{},\"maxpdus\":{},\"leftover\":{},\"parse\":\"{}\",\"content\":\"{}\",\"subtype\":{},\"afi\":{},\"aswidth\":{},\"idxok\":{},\"countok\":{},\"stateless\":{},\"note\":\"{}\"}}",
            self.outcome,
            self.nrec,
            self.lenok,
            self.typ,
            self.peertype,
            self.v,
            self.l,
            self.o,
            self.addrok,
            if self.minpdus == usize::MAX { 0 } else { self.minpdus },
            self.maxpdus,
            self.leftover,
            clean(&self.parse),
            clean(&self.content),
            self.subtype,
            self.afi,
            self.aswidth,
            self.idxok,
            self.countok,
            self.stateless,
            clean(&self.note)
        )
    }
}

/// Split `b` into BGP PDUs by marker / length; returns the PDUs and whether bytes are left that are not a PDU.
pub fn split_pdus(b: &[u8]) -> (Vec<Vec<u8>>, bool) {
    let mut out = Vec::new();
    let mut off = 0usize;
    while off < b.len() {
        if b.len() - off < 19 || b[off..off + 16].iter().any(|x| *x != 0xff) {
            return (out, true);
        }
        let l = u16::from_be_bytes([b[off + 16], b[off + 17]]) as usize;
        if l < 19 || off + l > b.len() {
            return (out, true);
        }
        out.push(b[off..off + l].to_vec());
        off += l;
    }
    (out, false)
}

pub struct BmpRecord {
    pub typ: u8,
    pub peer_type: u8,
    pub flags: u8,
    pub addr: [u8; 16],
    pub asn: u32,
    pub bgp_id: [u8; 4],
    /// what follows the per-peer header (or the common header for messages without one)
    pub body: Vec<u8>,
}

/// One encoded BMP message (the whole buffer must be exactly that message).
pub fn read_bmp(b: &[u8]) -> Result<BmpRecord, String> {
    if b.len() < 6 {
        return Err("shorter than the common header".into());
    }
    if b[0] != 3 {
        return Err(format!("version {}", b[0]));
    }
    let len = u32::from_be_bytes([b[1], b[2], b[3], b[4]]) as usize;
    if len != b.len() {
        return Err(format!("LENGTH common header says {} but the message has {} bytes", len, b.len()));
    }
    let typ = b[5];
    let has_peer = matches!(typ, 0 | 1 | 2 | 3 | 6);
    if !has_peer {
        return Ok(BmpRecord { typ, peer_type: 0, flags: 0, addr: [0; 16], asn: 0, bgp_id: [0; 4], body: b[6..].to_vec() });
    }
    if b.len() < 6 + 42 {
        return Err("shorter than the per-peer header".into());
    }
    let p = &b[6..48];
    let mut addr = [0u8; 16];
    addr.copy_from_slice(&p[10..26]);
    Ok(BmpRecord {
        typ,
        peer_type: p[0],
        flags: p[1],
        addr,
        asn: u32::from_be_bytes([p[26], p[27], p[28], p[29]]),
        bgp_id: [p[30], p[31], p[32], p[33]],
        body: b[48..].to_vec(),
    })
}

pub struct MrtRecord {
    pub typ: u16,
    pub subtype: u16,
    pub body: Vec<u8>,
}

/// One encoded MRT record (the whole buffer must be exactly that record).
pub fn read_mrt(b: &[u8]) -> Result<MrtRecord, String> {
    if b.len() < 12 {
        return Err("shorter than the MRT header".into());
    }
    let len = u32::from_be_bytes([b[8], b[9], b[10], b[11]]) as usize;
    if len != b.len() - 12 {
        return Err(format!("LENGTH MRT header says {} but {} bytes follow", len, b.len() - 12));
    }
    Ok(MrtRecord { typ: u16::from_be_bytes([b[4], b[5]]), subtype: u16::from_be_bytes([b[6], b[7]]), body: b[12..].to_vec() })
}

pub struct Bgp4mp {
    pub aswidth: usize,
    pub peer_as: u32,
    pub local_as: u32,
    pub afi: u16,
    pub peer_ip: Vec<u8>,
    pub local_ip: Vec<u8>,
    pub message: Vec<u8>,
}

/// BGP4MP_MESSAGE{,_AS4}{,_ADDPATH} body (RFC 6396 4.4.2 / 4.4.3, RFC 8050 3)
pub fn read_bgp4mp(subtype: u16, b: &[u8]) -> Result<Bgp4mp, String> {
    let aswidth = match subtype {
        1 | 8 => 2usize,   // BGP4MP_MESSAGE, BGP4MP_MESSAGE_ADDPATH
        4 | 9 => 4,        // BGP4MP_MESSAGE_AS4, BGP4MP_MESSAGE_AS4_ADDPATH
        6 | 10 => 2,       // _LOCAL variants
        7 | 11 => 4,
        s => return Err(format!("subtype {s} is not a BGP4MP message subtype")),
    };
    let need = 2 * aswidth + 4;
    if b.len() < need {
        return Err("BGP4MP header truncated".into());
    }
    let rd = |x: &[u8]| if aswidth == 2 { u16::from_be_bytes([x[0], x[1]]) as u32 } else { u32::from_be_bytes([x[0], x[1], x[2], x[3]]) };
    let peer_as = rd(&b[0..]);
    let local_as = rd(&b[aswidth..]);
    let afi = u16::from_be_bytes([b[2 * aswidth + 2], b[2 * aswidth + 3]]);
    let alen = match afi {
        1 => 4,
        2 => 16,
        a => return Err(format!("AFI {a}")),
    };
    if b.len() < need + 2 * alen {
        return Err("BGP4MP addresses truncated".into());
    }
    Ok(Bgp4mp {
        aswidth,
        peer_as,
        local_as,
        afi,
        peer_ip: b[need..need + alen].to_vec(),
        local_ip: b[need + alen..need + 2 * alen].to_vec(),
        message: b[need + 2 * alen..].to_vec(),
    })
}

pub struct TdPeer {
    pub v6: bool,
    pub as4: bool,
    pub bgp_id: [u8; 4],
    pub addr: Vec<u8>,
    pub asn: u32,
}

/// PEER_INDEX_TABLE body (RFC 6396 4.3.1): (collector id, peers, every byte consumed)
pub fn read_peer_index(b: &[u8]) -> Result<([u8; 4], Vec<TdPeer>, bool), String> {
    if b.len() < 8 {
        return Err("PEER_INDEX_TABLE truncated".into());
    }
    let id = [b[0], b[1], b[2], b[3]];
    let vlen = u16::from_be_bytes([b[4], b[5]]) as usize;
    let mut off = 6 + vlen;
    if b.len() < off + 2 {
        return Err("view name overruns".into());
    }
    let count = u16::from_be_bytes([b[off], b[off + 1]]) as usize;
    off += 2;
    let mut peers = Vec::new();
    for _ in 0..count {
        if off >= b.len() {
            return Err("peer count exceeds the entries present".into());
        }
        let t = b[off];
        let v6 = t & 1 != 0;
        let as4 = t & 2 != 0;
        let need = 1 + 4 + if v6 { 16 } else { 4 } + if as4 { 4 } else { 2 };
        if off + need > b.len() {
            return Err("peer entry truncated".into());
        }
        let a0 = off + 5;
        let alen = if v6 { 16 } else { 4 };
        let asn = if as4 {
            u32::from_be_bytes([b[a0 + alen], b[a0 + alen + 1], b[a0 + alen + 2], b[a0 + alen + 3]])
        } else {
            u16::from_be_bytes([b[a0 + alen], b[a0 + alen + 1]]) as u32
        };
        peers.push(TdPeer { v6, as4, bgp_id: [b[off + 1], b[off + 2], b[off + 3], b[off + 4]], addr: b[a0..a0 + alen].to_vec(), asn });
        off += need;
    }
    Ok((id, peers, off == b.len()))
}

pub struct TdEntry {
    pub peer_index: u16,
    pub attrs: Vec<u8>,
}

/// RIB_IPV4_UNICAST / RIB_IPV6_UNICAST body (RFC 6396 4.3.2): (seq, prefix bits, prefix bytes, entries, every byte consumed)
pub fn read_rib(b: &[u8], v6: bool) -> Result<(u32, u8, Vec<u8>, Vec<TdEntry>, bool), String> {
    if b.len() < 5 {
        return Err("RIB record truncated".into());
    }
    let seq = u32::from_be_bytes([b[0], b[1], b[2], b[3]]);
    let bits = b[4];
    if bits as usize > if v6 { 128 } else { 32 } {
        return Err(format!("prefix length {bits}"));
    }
    let plen = (bits as usize).div_ceil(8);
    let mut off = 5 + plen;
    if b.len() < off + 2 {
        return Err("prefix overruns".into());
    }
    let prefix = b[5..5 + plen].to_vec();
    let count = u16::from_be_bytes([b[off], b[off + 1]]) as usize;
    off += 2;
    let mut entries = Vec::new();
    for _ in 0..count {
        if off + 8 > b.len() {
            return Err("entry count exceeds the entries present".into());
        }
        let peer_index = u16::from_be_bytes([b[off], b[off + 1]]);
        let alen = u16::from_be_bytes([b[off + 6], b[off + 7]]) as usize;
        if off + 8 + alen > b.len() {
            return Err("attribute length overruns the record".into());
        }
        entries.push(TdEntry { peer_index, attrs: b[off + 8..off + 8 + alen].to_vec() });
        off += 8 + alen;
    }
    Ok((seq, bits, prefix, entries, off == b.len()))
}

/// Path attributes as (flags, type, value) triples; Err if the block is not well formed.
pub fn split_attrs(b: &[u8]) -> Result<Vec<(u8, u8, Vec<u8>)>, String> {
    let mut out = Vec::new();
    let mut off = 0usize;
    while off < b.len() {
        if off + 3 > b.len() {
            return Err("attribute header truncated".into());
        }
        let flags = b[off];
        let code = b[off + 1];
        let (len, hdr) = if flags & 0x10 != 0 {
            if off + 4 > b.len() {
                return Err("attribute header truncated".into());
            }
            (u16::from_be_bytes([b[off + 2], b[off + 3]]) as usize, 4)
        } else {
            (b[off + 2] as usize, 3)
        };
        if off + hdr + len > b.len() {
            return Err(format!("attribute {code} overruns the block"));
        }
        out.push((flags, code, b[off + hdr..off + hdr + len].to_vec()));
        off += hdr + len;
    }
    Ok(out)
}
