// Shared by harness/daemon/bmp.rs and mrt.rs (C19): the concrete monitored events behind the cases of
// spec/MonitorRecord/MonitorRecord.tla, and the comparison of what a record carries with what was monitored.

#[allow(dead_code)]
mod samples {
    include!(concat!(env!("OSRG_RUSTYBGP_VERIF_DIR"), "/../lib/src/samples.rs"));
}
#[allow(dead_code)]
mod reader {
    include!(concat!(env!("OSRG_RUSTYBGP_VERIF_DIR"), "/../common/monitor_reader.rs"));
}

use std::panic::{AssertUnwindSafe, catch_unwind};

#[allow(dead_code)]
struct Case {
    i: usize,
    k: String,
    view: String,
    peer: String,
    local: String,
    fam: String,
    addpath: bool,
    dir: String,
    count: String,
    nh: String,
    attrs: String,
    x: String,
}

fn parse_case(line: &str) -> Option<Case> {
    let t: Vec<&str> = line.split('\t').collect();
    if t.len() < 12 {
        return None;
    }
    Some(Case {
        i: t[0].parse().ok()?,
        k: t[1].into(),
        view: t[2].into(),
        peer: t[3].into(),
        local: t[4].into(),
        fam: t[5].into(),
        addpath: t[6] == "true",
        dir: t[7].into(),
        count: t[8].into(),
        nh: t[9].into(),
        attrs: t[10].into(),
        x: t[11].into(),
    })
}

fn mc_family(tag: &str) -> rustybgp_packet::Family {
    for f in samples::families() {
        if samples::family_name(f) == tag {
            return f;
        }
    }
    panic!("harness: family {tag}")
}

fn mc_addr(af: &str, host: u8) -> std::net::IpAddr {
    if af == "v4" {
        std::net::IpAddr::V4(std::net::Ipv4Addr::new(192, 0, 2, host))
    } else {
        std::net::IpAddr::V6(std::net::Ipv6Addr::new(0x2001, 0xdb8, 0, 0, 0, 0, 0, host as u16))
    }
}

fn mc_source(peer: &str, local: &str) -> std::sync::Arc<rustybgp_table::Source> {
    std::sync::Arc::new(rustybgp_table::Source::new(
        mc_addr(peer, 77),
        mc_addr(local, 254),
        4_200_000_077,
        65001,
        std::net::Ipv4Addr::new(192, 0, 2, 77),
        rustybgp_table::PeerRole::Ebgp,
    ))
}

fn mc_entries(fam: rustybgp_packet::Family, count: &str, addpath: bool) -> Vec<rustybgp_packet::PathNlri> {
    use rustybgp_packet::{Family, Nlri, PathNlri, bgp};
    let base = samples::nlri_samples(fam);
    let n = match count {
        "one" => 1,
        "few" => base.len().min(5).max(2),
        "many" => 1500,
        _ => 20000,
    };
    (0..n)
        .map(|i| {
            let nlri = if n <= base.len() {
                base[i].clone()
            } else if fam == Family::IPV4 {
                Nlri::V4(bgp::Ipv4Net { addr: std::net::Ipv4Addr::new(10 + (i >> 16) as u8, (i >> 8) as u8, i as u8, 0), mask: 24 })
            } else if fam == Family::IPV6 {
                Nlri::V6(bgp::Ipv6Net { addr: std::net::Ipv6Addr::new(0x2001, 0xdb8, i as u16, 0, 0, 0, 0, 0), mask: 48 })
            } else {
                base[i % base.len()].clone()
            };
            PathNlri { path_id: if addpath { i as u32 + 1 } else { 0 }, nlri }
        })
        .collect()
}

fn mc_attrs(size: &str) -> std::sync::Arc<Vec<rustybgp_packet::Attribute>> {
    let mut v = samples::base_attrs();
    if size != "small" {
        let mut b = Vec::new();
        for i in 0..(if size == "big" { 950u32 } else { 1300 }) {
            b.extend_from_slice(&((65001u32 << 16) | i).to_be_bytes());
        }
        v.push(rustybgp_packet::Attribute::new_with_bin(rustybgp_packet::Attribute::COMMUNITY, b).unwrap());
    }
    std::sync::Arc::new(v)
}

fn mc_nexthop(fam: rustybgp_packet::Family, nh: &str) -> Option<rustybgp_packet::bgp::Nexthop> {
    samples::nexthop_for(fam)?;
    Some(match nh {
        "v4" => samples::nexthop_v4(),
        "v6ll" => samples::nexthop_v6ll(),
        _ => samples::nexthop_v6(),
    })
}

fn mc_attr_key(a: &rustybgp_packet::Attribute) -> (u8, Vec<u8>) {
    (a.code(), match a.binary() {
        Some(b) => b.clone(),
        None => a.value().map(|v| v.to_be_bytes().to_vec()).unwrap_or_default(),
    })
}

struct Decoded {
    reach: Vec<(u32, rustybgp_packet::Nlri)>,
    unreach: Vec<(u32, rustybgp_packet::Nlri)>,
    eor: Vec<rustybgp_packet::Family>,
    attrs: Vec<Vec<(u8, Vec<u8>)>>,
    nexthops: Vec<Option<rustybgp_packet::bgp::Nexthop>>,
    opens: Vec<(u32, u32, u16, usize)>,
    notifications: usize,
}

/// Parse PDUs with the repository's parser: four-octet AS, every family, add-path as the record states.
fn mc_decode(pdus: &[Vec<u8>], addpath: bool) -> Result<Decoded, String> {
    use rustybgp_packet::bgp;
    let (_, mut rx) = samples::codec_pair(&samples::families(), true, addpath, true, false);
    let mut d = Decoded { reach: vec![], unreach: vec![], eor: vec![], attrs: vec![], nexthops: vec![], opens: vec![], notifications: 0 };
    for p in pdus {
        let mut b = bytes::BytesMut::from(&p[..]);
        let parsed = match catch_unwind(AssertUnwindSafe(|| rx.try_parse(&mut b))) {
            Err(_) => return Err("the parser panics on an embedded PDU".into()),
            Ok(Err(n)) => return Err(format!("embedded PDU rejected: NOTIFICATION {}/{}", n.notification_code(), n.notification_subcode())),
            Ok(Ok(None)) => return Err("embedded PDU incomplete".into()),
            Ok(Ok(Some(x))) => x,
        };
        let msgs: Vec<bgp::Message> = match bgp::validate_message(parsed, false) {
            Err(n) => return Err(format!("embedded PDU fails validation: {}/{}", n.notification_code(), n.notification_subcode())),
            Ok(it) => it.collect(),
        };
        for m in msgs {
            match m {
                bgp::Message::Update(bgp::Update::Reach { entries, nexthop, attr, .. }) => {
                    d.reach.extend(entries.into_iter().map(|e| (e.path_id, e.nlri)));
                    d.nexthops.push(nexthop);
                    let mut a: Vec<(u8, Vec<u8>)> = attr.iter().map(mc_attr_key).collect();
                    a.sort();
                    d.attrs.push(a);
                }
                bgp::Message::Update(bgp::Update::Unreach { entries, .. }) => d.unreach.extend(entries.into_iter().map(|e| (e.path_id, e.nlri))),
                bgp::Message::Update(bgp::Update::EndOfRib(f)) => d.eor.push(f),
                bgp::Message::Open(o) => d.opens.push((o.as_number, o.router_id, o.holdtime.seconds(), o.capability.len())),
                bgp::Message::Notification(_) => d.notifications += 1,
                _ => {}
            }
        }
    }
    Ok(d)
}

fn mc_same_multiset<T: Ord + Clone>(a: &[T], b: &[T]) -> bool {
    let mut x = a.to_vec();
    let mut y = b.to_vec();
    x.sort();
    y.sort();
    x == y
}

/// "same" if the decoded PDUs carry exactly the monitored prefixes (with path ids when add-path), attributes and next hop.
fn mc_compare(
    d: &Decoded,
    dir: &str,
    fam: rustybgp_packet::Family,
    entries: &[rustybgp_packet::PathNlri],
    attrs: &[rustybgp_packet::Attribute],
    nexthop: Option<rustybgp_packet::bgp::Nexthop>,
) -> String {
    let want: Vec<(u32, String)> = entries.iter().map(|e| (e.path_id, format!("{:?}", e.nlri))).collect();
    match dir {
        "eor" => {
            if d.eor == vec![fam] && d.reach.is_empty() && d.unreach.is_empty() {
                "same".into()
            } else {
                format!("diff: end-of-rib of {:?} expected, found eor={:?} reach={} unreach={}", fam, d.eor, d.reach.len(), d.unreach.len())
            }
        }
        "unreach" => {
            let got: Vec<(u32, String)> = d.unreach.iter().map(|(p, n)| (*p, format!("{:?}", n))).collect();
            if !d.reach.is_empty() {
                "diff: a withdrawal is reported as an announcement".into()
            } else if !mc_same_multiset(&got, &want) {
                format!("diff: {} withdrawn prefixes monitored, {} found (or different ones)", want.len(), got.len())
            } else {
                "same".into()
            }
        }
        _ => {
            let got: Vec<(u32, String)> = d.reach.iter().map(|(p, n)| (*p, format!("{:?}", n))).collect();
            if !d.unreach.is_empty() {
                return "diff: an announcement is reported as a withdrawal".into();
            }
            if !mc_same_multiset(&got, &want) {
                return format!("diff: {} announced prefixes monitored, {} found (or different ones)", want.len(), got.len());
            }
            let mut a: Vec<(u8, Vec<u8>)> = attrs.iter().map(mc_attr_key).collect();
            a.sort();
            if d.attrs.iter().any(|x| *x != a) {
                return "diff: attributes differ".into();
            }
            if d.nexthops.iter().any(|x| *x != nexthop) {
                return format!("diff: next hop {:?} monitored, {:?} found", nexthop, d.nexthops.first());
            }
            "same".into()
        }
    }
}
