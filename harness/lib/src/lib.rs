//! Shared helpers for the lib-level harness binaries.

pub mod samples;
