// Valid sample values (NLRI per family, next hops, path attributes, negotiated codecs) built only
// from the public API of `rustybgp_packet`.  Every NLRI sample round-trips through
// `PeerCodec::encode_to` -> `PeerCodec::try_parse` -> `validate_message` (see
// `src/bin/samples_selftest.rs`).
//
// Conventions that keep the samples round-trippable with the codec as it is today:
//  * prefixes carry no bits beyond their mask (the decoder zero-fills what it does not read);
//  * attribute values stay below 256 bytes (the decoder keeps the wire EXTENDED_LENGTH flag bit in
//    `Attribute::flags()`, so a longer value would not compare equal to its source);
//  * `nexthop_for` picks the next-hop address family that `mp_reach_encode` writes unpadded (an
//    IPv4 next hop is zero-padded to 16 bytes for every family except IPv4 unicast (NEXT_HOP
//    attribute), multicast, VPN, SR-Policy and EVPN, and then reads back as an IPv6 address).

use std::net::{IpAddr, Ipv4Addr, Ipv6Addr};

use rustybgp_packet::Nlri;
use rustybgp_packet::bgp::{Attribute, Capability, Family, Ipv4Net, Ipv6Net, Nexthop, PeerCodec};
use rustybgp_packet::evpn::{
    Esi, EthernetAutoDiscoveryRoute, EthernetIpPrefixRoute, EthernetSegmentRoute, EvpnNlri,
    InclusiveMulticastEthernetTag, MacIpAdvertisement,
};
use rustybgp_packet::flowspec::{
    FlowspecV4Component, FlowspecV4Nlri, FlowspecV6Component, FlowspecV6Nlri, FlowspecVpnV4Nlri,
    FlowspecVpnV6Nlri, Op,
};
use rustybgp_packet::labeled::{LabeledV4Nlri, LabeledV6Nlri};
use rustybgp_packet::ls::{
    self, BgpLsLinkNlri, BgpLsNlri, BgpLsNodeNlri, BgpLsPrefixNlri, BgpLsSrv6SidNlri, LinkDescTlv,
    LsTlv, NodeDescriptor, PrefixDescTlv,
};
use rustybgp_packet::mpls::{MplsLabel, MplsLabelStack};
use rustybgp_packet::mup::{
    MupDirectSegmentDiscoveryRoute, MupInterworkSegmentDiscoveryRoute, MupNlri,
    MupType1SessionTransformedRoute, MupType2SessionTransformedRoute,
};
use rustybgp_packet::prefix_sid::{
    PrefixSid, PrefixSidTlv, Srv6InformationSubTlv, Srv6ServiceDataSubSubTlv, Srv6ServiceSubTlv,
    Srv6ServiceTlv, Srv6SidStructureSubSubTlv,
};
use rustybgp_packet::rd::RouteDistinguisher;
use rustybgp_packet::rtc::{MatchType, RtcNlri};
use rustybgp_packet::sr_policy::SrPolicyNlri;
use rustybgp_packet::tunnel_encap::{
    self, SrPolicyBindingSid, SrPolicyCandidatePath, SrPolicyPreference, SrPolicySegmentList,
    SrSegment, SrWeight, TUNNEL_TYPE_SR_POLICY, TunnelEncapTlv, TunnelEncapValue,
};
use rustybgp_packet::vpn::{VpnV4Nlri, VpnV6Nlri};

/// AS number used in the FourOctetAsNumber capability of the sender side of `codec_pair`.
pub const LOCAL_AS: u32 = 65001;
/// AS number used in the FourOctetAsNumber capability of the receiver side of `codec_pair`.
pub const REMOTE_AS: u32 = 65002;

/// Every address family the packet crate defines a `Family::*` constant for (19; `EMPTY` excluded).
pub fn families() -> Vec<Family> {
    vec![
        Family::IPV4,
        Family::IPV6,
        Family::IPV4_MC,
        Family::IPV6_MC,
        Family::IPV4_MPLS,
        Family::IPV6_MPLS,
        Family::IPV4_VPN,
        Family::IPV6_VPN,
        Family::IPV4_FLOWSPEC,
        Family::IPV6_FLOWSPEC,
        Family::IPV4_FLOWSPEC_VPN,
        Family::IPV6_FLOWSPEC_VPN,
        Family::L2VPN_EVPN,
        Family::LS,
        Family::IPV4_SRPOLICY,
        Family::IPV6_SRPOLICY,
        Family::IPV4_MUP,
        Family::IPV6_MUP,
        Family::RTC,
    ]
}

/// Short printable name of a family (`afi/safi` for anything unexpected).
pub fn family_name(family: Family) -> String {
    let s = match family {
        Family::IPV4 => "ipv4",
        Family::IPV6 => "ipv6",
        Family::IPV4_MC => "ipv4-mc",
        Family::IPV6_MC => "ipv6-mc",
        Family::IPV4_MPLS => "ipv4-mpls",
        Family::IPV6_MPLS => "ipv6-mpls",
        Family::IPV4_VPN => "ipv4-vpn",
        Family::IPV6_VPN => "ipv6-vpn",
        Family::IPV4_FLOWSPEC => "ipv4-flowspec",
        Family::IPV6_FLOWSPEC => "ipv6-flowspec",
        Family::IPV4_FLOWSPEC_VPN => "ipv4-flowspec-vpn",
        Family::IPV6_FLOWSPEC_VPN => "ipv6-flowspec-vpn",
        Family::L2VPN_EVPN => "l2vpn-evpn",
        Family::LS => "ls",
        Family::IPV4_SRPOLICY => "ipv4-srpolicy",
        Family::IPV6_SRPOLICY => "ipv6-srpolicy",
        Family::IPV4_MUP => "ipv4-mup",
        Family::IPV6_MUP => "ipv6-mup",
        Family::RTC => "rtc",
        _ => return format!("{}/{}", family.afi(), family.safi()),
    };
    s.to_string()
}

// ---------------------------------------------------------------------------------------------
// building blocks
// ---------------------------------------------------------------------------------------------

fn v4(s: &str) -> Ipv4Addr {
    s.parse().unwrap()
}

fn v6(s: &str) -> Ipv6Addr {
    s.parse().unwrap()
}

fn ip(s: &str) -> IpAddr {
    s.parse().unwrap()
}

fn net4(s: &str, mask: u8) -> Ipv4Net {
    Ipv4Net { addr: v4(s), mask }
}

fn net6(s: &str, mask: u8) -> Ipv6Net {
    Ipv6Net { addr: v6(s), mask }
}

fn labels(v: &[u32]) -> MplsLabelStack {
    MplsLabelStack::new(v.iter().map(|l| MplsLabel::new(*l)).collect())
}

fn rd_as2() -> RouteDistinguisher {
    RouteDistinguisher::TwoOctetAs { admin: 65001, assigned: 100 }
}

fn rd_ip() -> RouteDistinguisher {
    RouteDistinguisher::Ipv4 { admin: v4("192.0.2.1"), assigned: 7 }
}

fn rd_as4() -> RouteDistinguisher {
    RouteDistinguisher::FourOctetAs { admin: 4_200_000_001, assigned: 9 }
}

fn esi(n: u8) -> Esi {
    Esi([0, n, n, n, n, n, n, n, n, n])
}

/// Numeric / bitmask operator list; `Op::END` is added to the last element.
fn ops(v: &[(u8, u64)]) -> Vec<Op> {
    let last = v.len() - 1;
    v.iter()
        .enumerate()
        .map(|(i, (bits, value))| Op {
            bits: if i == last { *bits | Op::END } else { *bits },
            value: *value,
        })
        .collect()
}

fn flowspec_v4_mixes() -> Vec<Vec<FlowspecV4Component>> {
    use FlowspecV4Component as C;
    let mut sized: Vec<Vec<C>> = FLOWSPEC_BODY_SIZES.iter().map(|n| vec![C::DstPort(sized_port_ops(*n))]).collect();
    let mut base = flowspec_v4_mixes_base();
    base.append(&mut sized);
    base
}

fn flowspec_v4_mixes_base() -> Vec<Vec<FlowspecV4Component>> {
    use FlowspecV4Component as C;
    vec![
        // operands at every width boundary (1, 2, 4 and 8 octets)
        vec![C::PacketLen(ops(&[(Op::EQ, 0), (Op::EQ, 255), (Op::EQ, 256), (Op::EQ, 65535), (Op::EQ, 65536), (Op::EQ, 0xffff_ffff), (Op::EQ, 0x1_0000_0000)]))],
        vec![C::DstPrefix(net4("10.1.0.0", 16))],
        vec![
            C::DstPrefix(net4("192.0.2.0", 24)),
            C::SrcPrefix(net4("198.51.100.128", 25)),
            C::Protocol(ops(&[(Op::EQ, 6)])),
            C::DstPort(ops(&[(Op::EQ, 80), (Op::GT_EQ, 8080), (Op::AND | Op::LT_EQ, 8088)])),
            C::TcpFlags(ops(&[(Op::MATCH, 0x02)])),
        ],
        vec![
            C::SrcPrefix(net4("203.0.113.7", 32)),
            C::Protocol(ops(&[(Op::EQ, 17), (Op::EQ, 1)])),
            C::Port(ops(&[(Op::EQ, 53)])),
            C::SrcPort(ops(&[(Op::GT, 1024)])),
            C::IcmpType(ops(&[(Op::EQ, 8)])),
            C::IcmpCode(ops(&[(Op::EQ, 0)])),
            C::PacketLen(ops(&[(Op::GT_EQ, 64), (Op::AND | Op::LT_EQ, 1500)])),
            C::Dscp(ops(&[(Op::EQ, 46)])),
            C::Fragment(ops(&[(Op::NOT | Op::MATCH, 0x01)])),
        ],
    ]
}

/// A port list whose encoding is exactly `body` octets: one type octet, then k three-octet operators (two-octet values)
/// and j two-octet operators (one-octet values).
fn sized_port_ops(body: usize) -> Vec<Op> {
    let rest = body - 1;
    let j = (0..3).find(|j| rest >= 2 * j && (rest - 2 * j) % 3 == 0).unwrap();
    let k = (rest - 2 * j) / 3;
    let mut v: Vec<(u8, u64)> = Vec::new();
    for i in 0..k {
        v.push((Op::EQ, 1000 + i as u64));
    }
    for i in 0..j {
        v.push((Op::EQ, 10 + i as u64));
    }
    ops(&v)
}

/// body lengths around the boundaries of the flowspec NLRI length field (RFC 8955 4.1: < 240 one octet, else two)
const FLOWSPEC_BODY_SIZES: [usize; 7] = [238, 239, 240, 241, 255, 256, 700];

fn flowspec_v6_mixes() -> Vec<Vec<FlowspecV6Component>> {
    use FlowspecV6Component as C;
    let mut sized: Vec<Vec<C>> = FLOWSPEC_BODY_SIZES.iter().map(|n| vec![C::DstPort(sized_port_ops(*n))]).collect();
    let mut base = flowspec_v6_mixes_base();
    base.append(&mut sized);
    base
}

fn flowspec_v6_mixes_base() -> Vec<Vec<FlowspecV6Component>> {
    use FlowspecV6Component as C;
    vec![
        vec![C::FlowLabel(ops(&[(Op::EQ, 0), (Op::EQ, 255), (Op::EQ, 256), (Op::EQ, 65535), (Op::EQ, 65536), (Op::EQ, 0xf_ffff), (Op::EQ, 0xffff_ffff)]))],
        vec![C::DstPrefix { prefix: net6("2001:db8:1::", 48), offset: 0 }],
        // non-zero prefix offsets (RFC 8956 3.1): destination and source each with their own
        vec![
            C::DstPrefix { prefix: net6("2001:db8:1::", 48), offset: 16 },
            C::SrcPrefix { prefix: net6("2001:db8:ffff:1::", 64), offset: 32 },
        ],
        vec![C::SrcPrefix { prefix: net6("2001:db8:2::", 47), offset: 8 }, C::NextHeader(ops(&[(Op::EQ, 6)]))],
        vec![
            C::DstPrefix { prefix: net6("2001:db8:2::", 64), offset: 0 },
            C::SrcPrefix { prefix: net6("2001:db8:ffff::1", 128), offset: 0 },
            C::NextHeader(ops(&[(Op::EQ, 6)])),
            C::DstPort(ops(&[(Op::EQ, 443), (Op::GT_EQ, 8000), (Op::AND | Op::LT_EQ, 8999)])),
            C::TcpFlags(ops(&[(Op::MATCH, 0x12)])),
        ],
        vec![
            C::SrcPrefix { prefix: net6("2001:db8::", 32), offset: 0 },
            C::NextHeader(ops(&[(Op::EQ, 58), (Op::EQ, 17)])),
            C::Port(ops(&[(Op::EQ, 53)])),
            C::SrcPort(ops(&[(Op::GT, 1024)])),
            C::IcmpType(ops(&[(Op::EQ, 128)])),
            C::IcmpCode(ops(&[(Op::EQ, 0)])),
            C::PacketLen(ops(&[(Op::GT_EQ, 1280), (Op::AND | Op::LT_EQ, 9000)])),
            C::Dscp(ops(&[(Op::EQ, 10)])),
            C::Fragment(ops(&[(Op::MATCH, 0x04)])),
            C::FlowLabel(ops(&[(Op::EQ, 0x12345)])),
        ],
    ]
}

/// MAC/IP Advertisement: host address {none, IPv4, IPv6} x second label {absent, present} x ESI {zero, set};
/// IP Prefix: {IPv4, IPv6} x gateway {zero, set} x prefix length {0, odd, full}
fn evpn_product() -> Vec<EvpnNlri> {
    let mac = [0x02, 0x00, 0x5e, 0x77, 0x88, 0x99];
    let mut v = Vec::new();
    for (i, host) in [None, Some(ip("10.20.30.41")), Some(ip("2001:db8:20::41"))].into_iter().enumerate() {
        for label2 in [None, Some(0u32), Some(20021u32)] {
            for e in [Esi::ZERO, esi(7)] {
                v.push(EvpnNlri::MacIpAdvertisement(MacIpAdvertisement {
                    rd: rd_as2(),
                    esi: e,
                    etag: 700 + i as u32,
                    mac,
                    ip: host,
                    label1: 10021,
                    label2,
                }));
            }
        }
    }
    for (pfx, full, gws) in [("10.51.0.0", 32u8, ["0.0.0.0", "192.0.2.5"]), ("2001:db8:51::", 128u8, ["::", "2001:db8::6"])] {
        for gw in gws {
            for plen in [0u8, 17, full] {
                v.push(EvpnNlri::EthernetIpPrefix(EthernetIpPrefixRoute {
                    rd: rd_ip(),
                    esi: Esi::ZERO,
                    etag: 800 + plen as u32,
                    ip_prefix: ip(pfx),
                    prefix_len: plen,
                    gateway_ip: ip(gw),
                    label: 10052,
                }));
            }
        }
    }
    v
}

fn evpn_samples() -> Vec<EvpnNlri> {
    let mut v = evpn_samples_base();
    v.append(&mut evpn_product());
    v
}

fn evpn_samples_base() -> Vec<EvpnNlri> {
    let mac = [0x02, 0x00, 0x5e, 0x10, 0x20, 0x30];
    vec![
        EvpnNlri::EthernetAutoDiscovery(EthernetAutoDiscoveryRoute {
            rd: rd_as2(),
            esi: esi(1),
            etag: 0xffff_ffff,
            label: 10010,
        }),
        EvpnNlri::MacIpAdvertisement(MacIpAdvertisement {
            rd: rd_ip(),
            esi: Esi::ZERO,
            etag: 0,
            mac,
            ip: None,
            label1: 10020,
            label2: None,
        }),
        EvpnNlri::MacIpAdvertisement(MacIpAdvertisement {
            rd: rd_ip(),
            esi: esi(2),
            etag: 100,
            mac,
            ip: Some(ip("10.20.30.40")),
            label1: 10020,
            label2: Some(20020),
        }),
        EvpnNlri::MacIpAdvertisement(MacIpAdvertisement {
            rd: rd_as4(),
            esi: Esi::ZERO,
            etag: 200,
            mac: [0x02, 0x00, 0x5e, 0xaa, 0xbb, 0xcc],
            ip: Some(ip("2001:db8:20::40")),
            label1: 0xff_ffff,
            label2: None,
        }),
        EvpnNlri::InclusiveMulticastEthernetTag(InclusiveMulticastEthernetTag {
            rd: rd_as2(),
            etag: 300,
            originating_router_ip: ip("192.0.2.3"),
        }),
        EvpnNlri::InclusiveMulticastEthernetTag(InclusiveMulticastEthernetTag {
            rd: rd_as2(),
            etag: 301,
            originating_router_ip: ip("2001:db8::3"),
        }),
        EvpnNlri::EthernetSegment(EthernetSegmentRoute {
            rd: rd_ip(),
            esi: esi(4),
            originating_router_ip: ip("192.0.2.4"),
        }),
        EvpnNlri::EthernetSegment(EthernetSegmentRoute {
            rd: rd_ip(),
            esi: esi(5),
            originating_router_ip: ip("2001:db8::4"),
        }),
        EvpnNlri::EthernetIpPrefix(EthernetIpPrefixRoute {
            rd: rd_as2(),
            esi: Esi::ZERO,
            etag: 0,
            ip_prefix: ip("10.50.0.0"),
            prefix_len: 16,
            gateway_ip: ip("0.0.0.0"),
            label: 10050,
        }),
        EvpnNlri::EthernetIpPrefix(EthernetIpPrefixRoute {
            rd: rd_as4(),
            esi: esi(6),
            etag: 500,
            ip_prefix: ip("2001:db8:50::"),
            prefix_len: 48,
            gateway_ip: ip("2001:db8::5"),
            label: 10051,
        }),
    ]
}

fn ls_samples() -> Vec<BgpLsNlri> {
    let isis_node = |last: u8| NodeDescriptor {
        asn: Some(65001),
        bgp_ls_id: Some(0),
        ospf_area_id: None,
        igp_router_id: Some(vec![0x00, 0x00, 0x00, 0x00, 0x00, last]),
        bgp_router_id: None,
        bgp_confederation_member: None,
    };
    let ospf_node = NodeDescriptor {
        asn: Some(4_200_000_001),
        bgp_ls_id: Some(1),
        ospf_area_id: Some(0),
        igp_router_id: Some(vec![192, 0, 2, 1]),
        bgp_router_id: None,
        bgp_confederation_member: None,
    };
    let bgp_node = NodeDescriptor {
        asn: Some(65001),
        bgp_ls_id: None,
        ospf_area_id: None,
        igp_router_id: None,
        bgp_router_id: Some([192, 0, 2, 9]),
        bgp_confederation_member: Some(64512),
    };
    vec![
        BgpLsNlri::Node(BgpLsNodeNlri {
            protocol_id: ls::PROTOCOL_ISIS_L2,
            identifier: 0,
            local_node: isis_node(1),
        }),
        BgpLsNlri::Node(BgpLsNodeNlri {
            protocol_id: ls::PROTOCOL_OSPF_V2,
            identifier: 7,
            local_node: ospf_node.clone(),
        }),
        BgpLsNlri::Node(BgpLsNodeNlri {
            protocol_id: ls::PROTOCOL_BGP,
            identifier: 0,
            local_node: bgp_node,
        }),
        BgpLsNlri::Link(BgpLsLinkNlri {
            protocol_id: ls::PROTOCOL_ISIS_L2,
            identifier: 0,
            local_node: isis_node(1),
            remote_node: isis_node(2),
            link_desc: vec![
                LinkDescTlv::LinkId { local: 11, remote: 22 },
                LinkDescTlv::Ipv4InterfaceAddr([10, 0, 12, 1]),
                LinkDescTlv::Ipv4NeighborAddr([10, 0, 12, 2]),
            ],
        }),
        BgpLsNlri::Link(BgpLsLinkNlri {
            protocol_id: ls::PROTOCOL_ISIS_L1,
            identifier: 1,
            local_node: isis_node(2),
            remote_node: isis_node(3),
            link_desc: vec![
                LinkDescTlv::Ipv6InterfaceAddr(v6("2001:db8:12::1").octets()),
                LinkDescTlv::Ipv6NeighborAddr(v6("2001:db8:12::2").octets()),
                LinkDescTlv::MultiTopoId(vec![2]),
            ],
        }),
        BgpLsNlri::PrefixV4(BgpLsPrefixNlri {
            protocol_id: ls::PROTOCOL_OSPF_V2,
            identifier: 7,
            local_node: ospf_node,
            prefix_desc: vec![
                PrefixDescTlv::OspfRouteType(1),
                PrefixDescTlv::IpReachability { prefix_len: 24, addr: vec![10, 9, 8] },
            ],
        }),
        BgpLsNlri::PrefixV6(BgpLsPrefixNlri {
            protocol_id: ls::PROTOCOL_ISIS_L2,
            identifier: 0,
            local_node: isis_node(3),
            prefix_desc: vec![
                PrefixDescTlv::MultiTopoId(vec![2]),
                PrefixDescTlv::IpReachability {
                    prefix_len: 64,
                    addr: vec![0x20, 0x01, 0x0d, 0xb8, 0x00, 0x09, 0x00, 0x00],
                },
            ],
        }),
        BgpLsNlri::Srv6Sid(BgpLsSrv6SidNlri {
            protocol_id: ls::PROTOCOL_ISIS_L2,
            identifier: 0,
            local_node: isis_node(1),
            sids: vec![v6("2001:db8:a:1::").octets()],
            multi_topo_ids: vec![2],
        }),
    ]
}

fn mup_samples(ipv6: bool) -> Vec<MupNlri> {
    let (prefix, prefix_len, host, ue, ue_len, ep1, ep2, src) = if ipv6 {
        (
            ip("2001:db8:100::"),
            48,
            ip("2001:db8::101"),
            ip("2001:db8:200::1"),
            128,
            ip("2001:db8::102"),
            ip("2001:db8::103"),
            ip("2001:db8::104"),
        )
    } else {
        (
            ip("10.100.0.0"),
            24,
            ip("10.0.0.101"),
            ip("192.168.0.1"),
            32,
            ip("10.0.0.102"),
            ip("10.0.0.103"),
            ip("10.0.0.104"),
        )
    };
    let ip_bits: u8 = if ipv6 { 128 } else { 32 };
    vec![
        MupNlri::InterworkSegmentDiscovery(MupInterworkSegmentDiscoveryRoute {
            rd: rd_as2(),
            prefix_addr: prefix,
            prefix_len,
        }),
        MupNlri::DirectSegmentDiscovery(MupDirectSegmentDiscoveryRoute {
            rd: rd_ip(),
            address: host,
        }),
        MupNlri::Type1SessionTransformed(MupType1SessionTransformedRoute {
            rd: rd_as2(),
            prefix_addr: ue,
            prefix_len: ue_len,
            teid: 0x1234_5678,
            qfi: 9,
            endpoint_address: ep1,
            source_address: None,
        }),
        MupNlri::Type1SessionTransformed(MupType1SessionTransformedRoute {
            rd: rd_as4(),
            prefix_addr: prefix,
            prefix_len,
            teid: 1,
            qfi: 5,
            endpoint_address: ep2,
            source_address: Some(src),
        }),
        MupNlri::Type2SessionTransformed(MupType2SessionTransformedRoute {
            rd: rd_as2(),
            endpoint_address_length: ip_bits + 32,
            endpoint_address: ep1,
            teid: 0x1234_5678,
        }),
        MupNlri::Type2SessionTransformed(MupType2SessionTransformedRoute {
            rd: rd_ip(),
            endpoint_address_length: ip_bits + 16,
            endpoint_address: ep2,
            // only the leading `endpoint_address_length - ip_bits` bits travel on the wire
            teid: 0xabcd_0000,
        }),
        MupNlri::Type2SessionTransformed(MupType2SessionTransformedRoute {
            rd: rd_ip(),
            endpoint_address_length: ip_bits,
            endpoint_address: ep2,
            teid: 0,
        }),
    ]
}

// ---------------------------------------------------------------------------------------------
// NLRI samples
// ---------------------------------------------------------------------------------------------

/// At least three distinct valid NLRI values for `family` (empty for an unknown family).
pub fn nlri_samples(family: Family) -> Vec<Nlri> {
    match family {
        Family::IPV4 | Family::IPV4_MC => vec![
            // every prefix length next to an octet boundary
            Nlri::V4(net4("128.0.0.0", 1)),
            Nlri::V4(net4("10.0.0.0", 7)),
            Nlri::V4(net4("10.128.0.0", 9)),
            Nlri::V4(net4("10.2.0.0", 15)),
            Nlri::V4(net4("10.3.128.0", 17)),
            Nlri::V4(net4("10.3.2.0", 23)),
            Nlri::V4(net4("10.3.2.254", 31)),
            Nlri::V4(net4("0.0.0.0", 0)),
            Nlri::V4(net4("10.0.0.0", 8)),
            Nlri::V4(net4("172.16.0.0", 12)),
            Nlri::V4(net4("192.0.2.0", 24)),
            Nlri::V4(net4("198.51.100.128", 25)),
            Nlri::V4(net4("203.0.113.7", 32)),
        ],
        Family::IPV6 | Family::IPV6_MC => vec![
            Nlri::V6(net6("8000::", 1)),
            Nlri::V6(net6("2001:db8:0:2::", 63)),
            Nlri::V6(net6("2001:db8::2", 127)),
            Nlri::V6(net6("::", 0)),
            Nlri::V6(net6("2001:db8::", 32)),
            Nlri::V6(net6("2001:db8:1::", 48)),
            Nlri::V6(net6("2001:db8:2:3::", 64)),
            Nlri::V6(net6("2001:db8:0:0:8000::", 65)),
            Nlri::V6(net6("2001:db8::1", 128)),
        ],
        Family::IPV4_MPLS => vec![
            // the smallest and the largest label value, off-octet prefix lengths
            Nlri::LabeledV4(LabeledV4Nlri { labels: labels(&[0]), prefix: net4("10.3.2.254", 31) }),
            Nlri::LabeledV4(LabeledV4Nlri { labels: labels(&[1_048_575]), prefix: net4("128.0.0.0", 1) }),
            Nlri::LabeledV4(LabeledV4Nlri { labels: labels(&[100]), prefix: net4("10.0.0.0", 8) }),
            Nlri::LabeledV4(LabeledV4Nlri {
                labels: labels(&[16001, 16002]),
                prefix: net4("192.0.2.0", 24),
            }),
            Nlri::LabeledV4(LabeledV4Nlri {
                labels: labels(&[1_048_575, 20, 17]),
                prefix: net4("203.0.113.7", 32),
            }),
            Nlri::LabeledV4(LabeledV4Nlri { labels: labels(&[3]), prefix: net4("0.0.0.0", 0) }),
        ],
        Family::IPV6_MPLS => vec![
            Nlri::LabeledV6(LabeledV6Nlri { labels: labels(&[0]), prefix: net6("2001:db8::2", 127) }),
            Nlri::LabeledV6(LabeledV6Nlri { labels: labels(&[1_048_575, 0]), prefix: net6("8000::", 1) }),
            Nlri::LabeledV6(LabeledV6Nlri {
                labels: labels(&[100]),
                prefix: net6("2001:db8::", 32),
            }),
            Nlri::LabeledV6(LabeledV6Nlri {
                labels: labels(&[16001, 16002]),
                prefix: net6("2001:db8:2:3::", 64),
            }),
            Nlri::LabeledV6(LabeledV6Nlri {
                labels: labels(&[1_048_575, 2, 17]),
                prefix: net6("2001:db8::1", 128),
            }),
        ],
        Family::IPV4_VPN => vec![
            Nlri::VpnV4(VpnV4Nlri {
                labels: labels(&[100]),
                rd: rd_as2(),
                prefix: net4("10.0.0.0", 8),
            }),
            Nlri::VpnV4(VpnV4Nlri {
                labels: labels(&[16001, 16002]),
                rd: rd_ip(),
                prefix: net4("192.0.2.0", 24),
            }),
            Nlri::VpnV4(VpnV4Nlri {
                labels: labels(&[1_048_575]),
                rd: rd_as4(),
                prefix: net4("203.0.113.7", 32),
            }),
            Nlri::VpnV4(VpnV4Nlri {
                labels: labels(&[200]),
                rd: rd_as2(),
                prefix: net4("0.0.0.0", 0),
            }),
            // route distinguishers with every field at its largest value, labels 0 and 2^20-1
            Nlri::VpnV4(VpnV4Nlri {
                labels: labels(&[0]),
                rd: RouteDistinguisher::FourOctetAs { admin: u32::MAX, assigned: u16::MAX },
                prefix: net4("198.51.100.0", 24),
            }),
            Nlri::VpnV4(VpnV4Nlri {
                labels: labels(&[1_048_575]),
                rd: RouteDistinguisher::TwoOctetAs { admin: u16::MAX, assigned: u32::MAX },
                prefix: net4("198.51.100.0", 25),
            }),
            Nlri::VpnV4(VpnV4Nlri {
                labels: labels(&[16]),
                rd: RouteDistinguisher::Ipv4 { admin: v4("255.255.255.255"), assigned: u16::MAX },
                prefix: net4("198.51.100.128", 26),
            }),
            Nlri::VpnV4(VpnV4Nlri {
                labels: labels(&[17]),
                rd: RouteDistinguisher::TwoOctetAs { admin: 0, assigned: 0 },
                prefix: net4("198.51.100.192", 27),
            }),
        ],
        Family::IPV6_VPN => vec![
            Nlri::VpnV6(VpnV6Nlri {
                labels: labels(&[100]),
                rd: rd_as2(),
                prefix: net6("2001:db8::", 32),
            }),
            Nlri::VpnV6(VpnV6Nlri {
                labels: labels(&[16001, 16002]),
                rd: rd_ip(),
                prefix: net6("2001:db8:2:3::", 64),
            }),
            Nlri::VpnV6(VpnV6Nlri {
                labels: labels(&[1_048_575]),
                rd: rd_as4(),
                prefix: net6("2001:db8::1", 128),
            }),
        ],
        Family::IPV4_FLOWSPEC => flowspec_v4_mixes()
            .into_iter()
            .map(|components| Nlri::FlowspecV4(FlowspecV4Nlri { components }))
            .collect(),
        Family::IPV6_FLOWSPEC => flowspec_v6_mixes()
            .into_iter()
            .map(|components| Nlri::FlowspecV6(FlowspecV6Nlri { components }))
            .collect(),
        Family::IPV4_FLOWSPEC_VPN => flowspec_v4_mixes()
            .into_iter()
            .zip([rd_as2(), rd_ip(), rd_as4()].into_iter().cycle())
            .map(|(components, rd)| Nlri::FlowspecVpnV4(FlowspecVpnV4Nlri { rd, components }))
            .collect(),
        Family::IPV6_FLOWSPEC_VPN => flowspec_v6_mixes()
            .into_iter()
            .zip([rd_as2(), rd_ip(), rd_as4()].into_iter().cycle())
            .map(|(components, rd)| Nlri::FlowspecVpnV6(FlowspecVpnV6Nlri { rd, components }))
            .collect(),
        Family::L2VPN_EVPN => evpn_samples().into_iter().map(Nlri::Evpn).collect(),
        Family::LS => ls_samples().into_iter().map(Nlri::Ls).collect(),
        Family::IPV4_SRPOLICY => vec![
            Nlri::SrPolicy(SrPolicyNlri {
                distinguisher: 1,
                color: 100,
                endpoint: ip("192.0.2.1"),
            }),
            Nlri::SrPolicy(SrPolicyNlri {
                distinguisher: 2,
                color: 100,
                endpoint: ip("192.0.2.1"),
            }),
            Nlri::SrPolicy(SrPolicyNlri {
                distinguisher: 0xffff_ffff,
                color: 0,
                endpoint: ip("0.0.0.0"),
            }),
        ],
        Family::IPV6_SRPOLICY => vec![
            Nlri::SrPolicy(SrPolicyNlri {
                distinguisher: 1,
                color: 100,
                endpoint: ip("2001:db8::1"),
            }),
            Nlri::SrPolicy(SrPolicyNlri {
                distinguisher: 2,
                color: 100,
                endpoint: ip("2001:db8::1"),
            }),
            Nlri::SrPolicy(SrPolicyNlri {
                distinguisher: 0xffff_ffff,
                color: 0,
                endpoint: ip("::"),
            }),
        ],
        Family::IPV4_MUP => mup_samples(false).into_iter().map(Nlri::Mup).collect(),
        Family::IPV6_MUP => mup_samples(true).into_iter().map(Nlri::Mup).collect(),
        Family::RTC => vec![
            Nlri::Rtc(RtcNlri::wildcard()),
            Nlri::Rtc(RtcNlri { match_type: MatchType::AsWildcard { origin_as: 0 } }),
            Nlri::Rtc(RtcNlri { match_type: MatchType::AsWildcard { origin_as: u32::MAX } }),
            Nlri::Rtc(RtcNlri { match_type: MatchType::ExactMatch { origin_as: u32::MAX, route_target: [0xff; 8] } }),
            Nlri::Rtc(RtcNlri { match_type: MatchType::AsWildcard { origin_as: 65001 } }),
            Nlri::Rtc(RtcNlri {
                match_type: MatchType::ExactMatch {
                    origin_as: 65001,
                    // two-octet-AS route target 65001:100
                    route_target: [0x00, 0x02, 0xfd, 0xe9, 0x00, 0x00, 0x00, 0x64],
                },
            }),
            Nlri::Rtc(RtcNlri {
                match_type: MatchType::ExactMatch {
                    origin_as: 4_200_000_001,
                    // IPv4-address route target 192.0.2.1:7
                    route_target: [0x01, 0x02, 192, 0, 2, 1, 0x00, 0x07],
                },
            }),
        ],
        _ => Vec::new(),
    }
}

// ---------------------------------------------------------------------------------------------
// next hops
// ---------------------------------------------------------------------------------------------

/// An IPv4 next hop (192.0.2.254).
pub fn nexthop_v4() -> Nexthop {
    Nexthop::V4(v4("192.0.2.254"))
}

/// An IPv6 global next hop (2001:db8::fe).
pub fn nexthop_v6() -> Nexthop {
    Nexthop::V6(v6("2001:db8::fe"))
}

/// the 32-octet form of an IPv6 next hop: global address plus link-local address (RFC 2545 3)
pub fn nexthop_v6ll() -> Nexthop {
    Nexthop::V6LinkLocal(v6("2001:db8::fe"), v6("fe80::fe"))
}

/// A next hop for an announcement of `family` that survives encode/decode unchanged; `None` for the
/// Flowspec families, which carry none.
///
/// IPv4 next hops are used where the encoder writes them unpadded: IPv4 unicast (NEXT_HOP
/// attribute), IPv4 multicast, VPNv4 (RD-prefixed), IPv4 SR-Policy and EVPN.  Every other family
/// gets an IPv6 next hop because `mp_reach_encode` zero-pads an IPv4 next hop to 16 bytes for them
/// (so it would read back as `Nexthop::V6(c000:2fe::)`); that includes ipv4-mpls, ipv4-mup, rtc and
/// ls, which would more commonly be seen with an IPv4 next hop.
pub fn nexthop_for(family: Family) -> Option<Nexthop> {
    match family {
        Family::IPV4_FLOWSPEC
        | Family::IPV6_FLOWSPEC
        | Family::IPV4_FLOWSPEC_VPN
        | Family::IPV6_FLOWSPEC_VPN => None,
        Family::IPV4
        | Family::IPV4_MC
        | Family::IPV4_VPN
        | Family::IPV4_SRPOLICY
        | Family::L2VPN_EVPN => Some(nexthop_v4()),
        _ => Some(nexthop_v6()),
    }
}

// ---------------------------------------------------------------------------------------------
// path attributes
// ---------------------------------------------------------------------------------------------

fn as_path_segment(seg_type: u8, asns: &[u32]) -> Vec<u8> {
    let mut v = vec![seg_type, asns.len() as u8];
    for a in asns {
        v.extend_from_slice(&a.to_be_bytes());
    }
    v
}

fn attr_bin(code: u8, bin: Vec<u8>) -> Attribute {
    Attribute::new_with_bin(code, bin).unwrap()
}

fn attr_val(code: u8, val: u32) -> Attribute {
    Attribute::new_with_value(code, val).unwrap()
}

/// AS_PATH `65001 4200000001 {65010 65011}` in the crate's canonical four-octet form.
pub fn as_path_sample() -> Attribute {
    let mut bin = as_path_segment(Attribute::AS_PATH_TYPE_SEQ, &[65001, 4_200_000_001]);
    bin.extend(as_path_segment(Attribute::AS_PATH_TYPE_SET, &[65010, 65011]));
    attr_bin(Attribute::AS_PATH, bin)
}

/// One valid value per path-attribute kind `Attribute` can carry, in ascending type-code order
/// (NEXT_HOP, MP_REACH, MP_UNREACH, AS4_PATH and AS4_AGGREGATOR are synthesized by the encoder).
pub fn attr_samples() -> Vec<Attribute> {
    let mut community = Vec::new();
    community.extend_from_slice(&((65001u32 << 16) | 100).to_be_bytes());
    community.extend_from_slice(&0xffff_ff01u32.to_be_bytes()); // NO_EXPORT

    let mut aggregator = 4_200_000_002u32.to_be_bytes().to_vec();
    aggregator.extend_from_slice(&v4("192.0.2.9").octets());

    let mut cluster_list = v4("192.0.2.11").octets().to_vec();
    cluster_list.extend_from_slice(&v4("192.0.2.12").octets());

    let ext_community = vec![
        0x00, 0x02, 0xfd, 0xe9, 0x00, 0x00, 0x00, 0x64, // route-target 65001:100
        0x02, 0x02, 0xfa, 0x56, 0xea, 0x01, 0x00, 0x07, // route-target 4200000001:7
    ];

    let mut large_community = Vec::new();
    for v in [4_200_000_001u32, 1, 2, 65001, 0, 0xffff_ffff] {
        large_community.extend_from_slice(&v.to_be_bytes());
    }

    // AIGP TLV (RFC 7311): type 1, length 11, 8-byte metric
    let mut aigp = vec![1, 0, 11];
    aigp.extend_from_slice(&1000u64.to_be_bytes());

    let prefix_sid_bin = PrefixSid {
        tlvs: vec![PrefixSidTlv::Srv6L3Service(Srv6ServiceTlv {
            reserved: 0,
            sub_tlvs: vec![Srv6ServiceSubTlv::Information(Srv6InformationSubTlv {
                sid: v6("2001:db8:a:1::"),
                flags: 0,
                endpoint_behavior: 0x0013, // End.DT4
                sub_sub_tlvs: vec![Srv6ServiceDataSubSubTlv::Structure(
                    Srv6SidStructureSubSubTlv {
                        locator_block_length: 32,
                        locator_node_length: 16,
                        function_length: 16,
                        argument_length: 0,
                        transposition_length: 0,
                        transposition_offset: 0,
                    },
                )],
            })],
        })],
    }
    .to_vec();

    let tunnel_encap_bin = tunnel_encap::encode(&[TunnelEncapTlv {
        tunnel_type: TUNNEL_TYPE_SR_POLICY,
        value: TunnelEncapValue::SrPolicy(SrPolicyCandidatePath {
            preference: Some(SrPolicyPreference { flags: 0, preference: 100 }),
            binding_sid: Some(SrPolicyBindingSid::Mpls { flags: 0, label: 16000 }),
            segment_lists: vec![SrPolicySegmentList {
                weight: Some(SrWeight { flags: 0, weight: 1 }),
                segments: vec![
                    SrSegment::TypeA { flags: 0, label: 16001 },
                    SrSegment::TypeA { flags: 0, label: 16002 },
                ],
            }],
            ..Default::default()
        }),
    }]);

    let mut ls_attr = Vec::new();
    LsTlv::NodeName("r1".to_string()).encode(&mut ls_attr);
    LsTlv::Ipv4LocalRouterId(v4("192.0.2.1")).encode(&mut ls_attr);
    LsTlv::IgpMetric(10).encode(&mut ls_attr);

    vec![
        attr_val(Attribute::ORIGIN, 0),
        as_path_sample(),
        attr_val(Attribute::MULTI_EXIT_DESC, 50),
        attr_val(Attribute::LOCAL_PREF, 200),
        attr_bin(Attribute::ATOMIC_AGGREGATE, Vec::new()),
        attr_bin(Attribute::AGGREGATOR, aggregator),
        attr_bin(Attribute::COMMUNITY, community),
        attr_val(Attribute::ORIGINATOR_ID, u32::from(v4("192.0.2.10"))),
        attr_bin(Attribute::CLUSTER_LIST, cluster_list),
        attr_bin(Attribute::EXTENDED_COMMUNITY, ext_community),
        attr_bin(Attribute::TUNNEL_ENCAP, tunnel_encap_bin),
        attr_bin(Attribute::AIGP, aigp),
        attr_bin(Attribute::LS, ls_attr),
        attr_bin(Attribute::LARGE_COMMUNITY, large_community),
        attr_bin(Attribute::PREFIX_SID, prefix_sid_bin),
        // unknown optional transitive attribute, code 200
        Attribute::new_opaque(200, 0xc0, vec![0xde, 0xad, 0xbe, 0xef, 0x01]),
    ]
}

/// Minimal attribute set of a valid announcement: ORIGIN, AS_PATH (`65001`), LOCAL_PREF.
/// (NEXT_HOP / MP_REACH come from the `Update::Reach` fields.)
pub fn base_attrs() -> Vec<Attribute> {
    vec![
        attr_val(Attribute::ORIGIN, 0),
        attr_bin(Attribute::AS_PATH, as_path_segment(Attribute::AS_PATH_TYPE_SEQ, &[LOCAL_AS])),
        attr_val(Attribute::LOCAL_PREF, Attribute::DEFAULT_LOCAL_PREF),
    ]
}

// ---------------------------------------------------------------------------------------------
// negotiated codecs
// ---------------------------------------------------------------------------------------------

/// Capability lists `(sender side, receiver side)` that `codec_pair` negotiates from.
///
/// * `MultiProtocol` for every family, both sides;
/// * `FourOctetAsNumber` on the sender always, on the receiver only when `as4` (so `!as4` yields a
///   two-octet-AS session on both codecs);
/// * `AddPath` send+receive (mode 3) for every family on both sides when `addpath`;
/// * `ExtendedMessage` on both sides when `extended_message`;
/// * `ExtendedNexthop` (next-hop AFI 2) for every AFI-1 family on both sides when
///   `extended_nexthop`.  Note that the codec then sends IPv4 unicast via MP_REACH, so the caller
///   should pair it with `nexthop_v6()`.
pub fn capability_lists(
    families: &[Family],
    as4: bool,
    addpath: bool,
    extended_message: bool,
    extended_nexthop: bool,
) -> (Vec<Capability>, Vec<Capability>) {
    let mut common: Vec<Capability> =
        families.iter().map(|f| Capability::MultiProtocol(*f)).collect();
    if extended_nexthop {
        let v: Vec<(Family, u16)> = families
            .iter()
            .filter(|f| f.afi() == Family::AFI_IP)
            .map(|f| (*f, Family::AFI_IP6))
            .collect();
        common.push(Capability::ExtendedNexthop(v));
    }
    if extended_message {
        common.push(Capability::ExtendedMessage);
    }
    if addpath {
        common.push(Capability::AddPath(families.iter().map(|f| (*f, 3u8)).collect()));
    }
    let mut local = common.clone();
    let mut remote = common;
    local.push(Capability::FourOctetAsNumber(LOCAL_AS));
    if as4 {
        remote.push(Capability::FourOctetAsNumber(REMOTE_AS));
    }
    (local, remote)
}

/// `(sender-side codec, receiver-side codec)` of one session, see `capability_lists`.
pub fn codec_pair(
    families: &[Family],
    as4: bool,
    addpath: bool,
    extended_message: bool,
    extended_nexthop: bool,
) -> (PeerCodec, PeerCodec) {
    let (local, remote) =
        capability_lists(families, as4, addpath, extended_message, extended_nexthop);
    (PeerCodec::negotiate(&local, &remote), PeerCodec::negotiate(&remote, &local))
}
