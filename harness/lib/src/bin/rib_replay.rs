//! Replays operation sequences of the TLA+ model `Rib` on the real `rustybgp_table::Table`
//! and prints, per operation, the projection of the real table, the result and the change
//! notifications.  Used by the C02 / C06 / C15 / C11 checks (spec -> impl replay) and, with
//! `--random`, as the seeded driver whose recorded trace is validated by RibTrace.tla.
//!
//! usage: rib_replay <in> <out>
//!   <in>: line 1 = config JSON; then `INIT` (fresh table) or one operation JSON per line.

use std::collections::{BTreeMap, HashMap};
use std::io::{BufRead, BufWriter, Write};
use std::net::{IpAddr, Ipv4Addr};
use std::panic::{AssertUnwindSafe, catch_unwind};
use std::sync::Arc;
use std::sync::atomic::{AtomicU64, Ordering};

use rustybgp_packet as packet;
use rustybgp_packet::bgp::{self, Attribute, Family};
use rustybgp_table as table;
use serde_json::{Value, json};

struct SessCfg {
    name: String,
    peer: String,
    addr: IpAddr,
    ebgp: bool,
    role: String,
    rtr: u32,
    max: Option<u32>,
}

struct World {
    family: Family,
    table: table::Table,
    sources: HashMap<String, Arc<table::Source>>,
    src_name: HashMap<usize, String>,
    counters: HashMap<String, Arc<AtomicU64>>,
    nhbad: Vec<IpAddr>,
}

struct Cfg {
    sessions: Vec<SessCfg>,
    peers: BTreeMap<String, IpAddr>,
    prefixes: BTreeMap<String, packet::Nlri>,
    nexthops: BTreeMap<String, IpAddr>,
    classes: BTreeMap<String, Arc<Vec<Attribute>>>,
    family: Family,
}

fn build_attrs(c: &Value) -> Arc<Vec<Attribute>> {
    let mut v = Vec::new();
    v.push(Attribute::new_with_value(Attribute::ORIGIN, c["origin"].as_u64().unwrap() as u32).unwrap());
    let mut bin = Vec::new();
    for seg in c["aspath"].as_array().unwrap() {
        let t = seg[0].as_u64().unwrap() as u8;
        let asns = seg[1].as_array().unwrap();
        bin.push(t);
        bin.push(asns.len() as u8);
        for a in asns {
            bin.extend_from_slice(&(a.as_u64().unwrap() as u32).to_be_bytes());
        }
    }
    v.push(Attribute::new_with_bin(Attribute::AS_PATH, bin).unwrap());
    if !c["lp_absent"].as_bool().unwrap_or(false) {
        v.push(Attribute::new_with_value(Attribute::LOCAL_PREF, c["lp"].as_u64().unwrap() as u32).unwrap());
    }
    let comm = c["comm"].as_array().unwrap();
    if !comm.is_empty() {
        let mut b = Vec::new();
        for x in comm {
            b.extend_from_slice(&(x.as_u64().unwrap() as u32).to_be_bytes());
        }
        v.push(Attribute::new_with_bin(Attribute::COMMUNITY, b).unwrap());
    }
    let oid = c["oid"].as_u64().unwrap() as u32;
    if oid != 0 {
        v.push(Attribute::new_with_value(Attribute::ORIGINATOR_ID, oid).unwrap());
    }
    let clen = c["clen"].as_u64().unwrap();
    if clen > 0 {
        let mut b = Vec::new();
        for i in 0..clen {
            b.extend_from_slice(&(0x0a0a0a00u32 + i as u32).to_be_bytes());
        }
        v.push(Attribute::new_with_bin(Attribute::CLUSTER_LIST, b).unwrap());
    }
    // other extended communities (8 octets each, hex) come first, the MAC Mobility community (type 0x06, sub-type 0x00) last
    let mut ec: Vec<u8> = Vec::new();
    if let Some(xs) = c["xc"].as_array() {
        for x in xs {
            let h = x.as_str().unwrap();
            for i in (0..h.len()).step_by(2) {
                ec.push(u8::from_str_radix(&h[i..i + 2], 16).unwrap());
            }
        }
    }
    let mm = c["mm"].as_u64().unwrap();
    if mm > 0 {
        ec.extend_from_slice(&[0x06u8, 0x00, 0x00, 0x00]);
        ec.extend_from_slice(&((mm - 1) as u32).to_be_bytes());
    }
    if !ec.is_empty() {
        v.push(Attribute::new_with_bin(Attribute::EXTENDED_COMMUNITY, ec).unwrap());
    }
    Arc::new(v)
}

fn parse_prefix(s: &str) -> (packet::Nlri, Family) {
    if let Some(rest) = s.strip_prefix("evpn2:") {
        use packet::evpn::{Esi, EvpnNlri, MacIpAdvertisement};
        use packet::rd::RouteDistinguisher;
        let etag: u32 = rest.parse().unwrap();
        (
            packet::Nlri::Evpn(EvpnNlri::MacIpAdvertisement(MacIpAdvertisement {
                rd: RouteDistinguisher::TwoOctetAs { admin: 1, assigned: 1 },
                esi: Esi::ZERO,
                etag,
                mac: [0xaa, 0xbb, 0xcc, 0xdd, 0xee, 0xff],
                ip: None,
                label1: 100,
                label2: None,
            })),
            Family::L2VPN_EVPN,
        )
    } else {
        let n: packet::Nlri = s.parse().expect("prefix");
        let f = match n {
            packet::Nlri::V4(_) => Family::IPV4,
            _ => Family::IPV6,
        };
        (n, f)
    }
}

fn parse_cfg(v: &Value) -> Cfg {
    let mut sessions = Vec::new();
    let mut peers = BTreeMap::new();
    for s in v["sessions"].as_array().unwrap() {
        let addr: IpAddr = s["addr"].as_str().unwrap().parse().unwrap();
        peers.insert(s["peer"].as_str().unwrap().to_string(), addr);
        sessions.push(SessCfg {
            name: s["name"].as_str().unwrap().to_string(),
            peer: s["peer"].as_str().unwrap().to_string(),
            addr,
            ebgp: s["ebgp"].as_bool().unwrap(),
            role: s["role"].as_str().unwrap_or("").to_string(),
            rtr: s["rtr"].as_u64().unwrap() as u32,
            max: s["max"].as_u64().map(|m| m as u32),
        });
    }
    let mut prefixes = BTreeMap::new();
    let mut family = Family::IPV4;
    for (k, p) in v["prefixes"].as_object().unwrap() {
        let (n, f) = parse_prefix(p.as_str().unwrap());
        family = f;
        prefixes.insert(k.clone(), n);
    }
    let mut nexthops = BTreeMap::new();
    for (k, p) in v["nexthops"].as_object().unwrap() {
        nexthops.insert(k.clone(), p.as_str().unwrap().parse().unwrap());
    }
    let mut classes = BTreeMap::new();
    for (k, c) in v["classes"].as_object().unwrap() {
        classes.insert(k.clone(), build_attrs(c));
    }
    Cfg { sessions, peers, prefixes, nexthops, classes, family }
}

fn new_world(cfg: &Cfg) -> World {
    let mut sources = HashMap::new();
    let mut src_name = HashMap::new();
    let mut counters = HashMap::new();
    for s in &cfg.sessions {
        // the model's `ebgp` is "preferred over iBGP at the eBGP step": external and route-server-client sessions;
        // internal, route-reflector-client and confederation-external ones are not
        let (role, rasn) = match s.role.as_str() {
            "RsClient" => (table::PeerRole::RsClient, 65003),
            "IbgpRrClient" => (table::PeerRole::IbgpRrClient, 65000),
            "ConfedEbgp" => (table::PeerRole::ConfedEbgp, 65002),
            _ if s.ebgp => (table::PeerRole::Ebgp, 65001),
            _ => (table::PeerRole::Ibgp, 65000),
        };
        let src = Arc::new(table::Source::new(
            s.addr,
            IpAddr::V4(Ipv4Addr::new(10, 0, 0, 254)),
            rasn,
            65000,
            Ipv4Addr::from(s.rtr),
            role,
        ));
        src_name.insert(Arc::as_ptr(&src) as usize, s.name.clone());
        sources.insert(s.name.clone(), src);
        if s.max.is_some() {
            counters.insert(s.name.clone(), Arc::new(AtomicU64::new(0)));
        }
    }
    World { family: cfg.family, table: table::Table::new(0), sources, src_name, counters, nhbad: Vec::new() }
}

fn nh_of(a: IpAddr) -> bgp::Nexthop {
    match a {
        IpAddr::V4(v) => bgp::Nexthop::V4(v),
        IpAddr::V6(v) => bgp::Nexthop::V6(v),
    }
}

struct Names<'a> {
    cfg: &'a Cfg,
    w: &'a World,
}

impl Names<'_> {
    fn sess(&self, s: &Arc<table::Source>) -> String {
        self.w.src_name.get(&(Arc::as_ptr(s) as usize)).cloned().unwrap_or_else(|| "?".into())
    }
    fn cls(&self, a: &Arc<Vec<Attribute>>) -> String {
        for (k, v) in &self.cfg.classes {
            if Arc::ptr_eq(v, a) {
                return k.clone();
            }
        }
        "?".into()
    }
    fn nh(&self, n: Option<bgp::Nexthop>) -> String {
        match n {
            None => "-".into(),
            Some(n) => {
                for (k, v) in &self.cfg.nexthops {
                    if *v == n.addr() {
                        return k.clone();
                    }
                }
                "?".into()
            }
        }
    }
    fn prefix(&self, n: &packet::Nlri) -> String {
        for (k, v) in &self.cfg.prefixes {
            if v == n {
                return k.clone();
            }
        }
        "?".into()
    }
    fn path(&self, p: &table::Path) -> Value {
        json!({"sess": self.sess(&p.source), "cls": self.cls(&p.attr), "nh": self.nh(p.nexthop), "lid": p.local_path_id})
    }
    fn change(&self, c: &table::NlriChange) -> Value {
        json!({
            "p": self.prefix(&c.net), "id": c.dest_id, "bc": c.best_changed, "ac": c.any_changed,
            "replaced": c.replaced_path_id,
            "paths": c.current_paths.iter().map(|p| self.path(p)).collect::<Vec<_>>(),
            "ecmp": c.ecmp_paths().iter().map(|p| p.local_path_id).collect::<Vec<_>>(),
        })
    }
}

fn project(cfg: &Cfg, w: &World) -> Value {
    let nm = Names { cfg, w };
    let fam = w.family;
    // nexthops per (prefix, peer addr, rid)
    let mut nhs: HashMap<(String, IpAddr, u32), Option<bgp::Nexthop>> = HashMap::new();
    for r in w.table.iter_reach(fam) {
        nhs.insert((nm.prefix(&r.net.nlri), r.source.remote_addr, r.net.path_id), r.nexthop);
    }
    let mut ent = serde_json::Map::new();
    let mut stale = serde_json::Map::new();
    let mut llgr = serde_json::Map::new();
    for (k, _) in &cfg.prefixes {
        ent.insert(k.clone(), json!([]));
    }
    for (name, s) in &w.sources {
        stale.insert(name.clone(), json!(s.is_stale()));
        llgr.insert(name.clone(), json!(s.is_llgr_stale()));
    }
    for d in w.table.destinations(table::TableQuery::Global, fam, vec![], true) {
        let p = nm.prefix(&d.net);
        let list: Vec<Value> = d
            .paths
            .iter()
            .map(|e| {
                let nh = nhs.get(&(p.clone(), e.source.remote_addr, e.remote_path_id)).copied().flatten();
                json!({"sess": nm.sess(&e.source), "rid": e.remote_path_id, "cls": nm.cls(&e.attr),
                       "nh": nm.nh(nh), "filt": e.filtered, "stale": e.stale})
            })
            .collect();
        ent.insert(p, Value::Array(list));
    }
    let mut elig = serde_json::Map::new();
    for (k, _) in &cfg.prefixes {
        elig.insert(k.clone(), Value::Null);
    }
    for c in w.table.collect_loc_rib_paths(&fam) {
        elig.insert(nm.prefix(&c.net), nm.change(&c));
    }
    let mut stats = serde_json::Map::new();
    for (peer, addr) in &cfg.peers {
        let mut r = 0u64;
        let mut a = 0u64;
        let mut present = false;
        if let Some(it) = w.table.peer_stats(addr) {
            for (f, s) in it {
                if f == fam {
                    r = s.received;
                    a = s.accepted;
                    present = true;
                }
            }
        }
        stats.insert(peer.clone(), json!({"received": r, "accepted": a, "present": present}));
    }
    let mut cnt = serde_json::Map::new();
    for (name, c) in &w.counters {
        cnt.insert(name.clone(), json!(c.load(Ordering::Relaxed)));
    }
    // what the API shows a route-server client as the route server's choice for it (TableQuery::RsLocal): per client peer and
    // prefix the (session, class) of the path listed, or null
    let mut rsview = serde_json::Map::new();
    for sc in &cfg.sessions {
        if sc.role != "RsClient" || rsview.contains_key(&sc.peer) {
            continue;
        }
        let mut per = serde_json::Map::new();
        for (k, _) in &cfg.prefixes {
            per.insert(k.clone(), Value::Null);
        }
        for d in w.table.destinations(table::TableQuery::RsLocal(sc.addr), fam, vec![], false) {
            if let Some(e) = d.paths.first() {
                per.insert(nm.prefix(&d.net), json!({"sess": nm.sess(&e.source), "cls": nm.cls(&e.attr), "n": d.paths.len()}));
            }
        }
        rsview.insert(sc.peer.clone(), Value::Object(per));
    }
    let st = w.table.state(fam);
    json!({"ent": ent, "elig": elig, "stale": stale, "llgr": llgr, "stats": stats, "cnt": cnt, "rsview": rsview,
           "totals": {"dest": st.num_destination, "path": st.num_path, "accepted": st.num_accepted}})
}

fn apply(cfg: &Cfg, w: &mut World, op: &Value) -> Value {
    let fam = w.family;
    let k = op["k"].as_str().unwrap();
    let mut changes: Vec<table::NlriChange> = Vec::new();
    let mut res = "ok";
    match k {
        "insert" => {
            let sname = op["sess"].as_str().unwrap();
            let src = w.sources[sname].clone();
            let net = cfg.prefixes[op["p"].as_str().unwrap()].clone();
            let rid = op["rid"].as_u64().unwrap() as u32;
            let attr = cfg.classes[op["cls"].as_str().unwrap()].clone();
            let nha = cfg.nexthops[op["nh"].as_str().unwrap()];
            let filt = op["filt"].as_bool().unwrap();
            let inv = w.nhbad.contains(&nha);
            let max = cfg.sessions.iter().find(|s| s.name == sname).unwrap().max;
            let counter = w.counters.get(sname).cloned();
            let pl = match (max, counter.as_ref()) {
                (Some(m), Some(c)) => Some((m, c)),
                _ => None,
            };
            match w.table.insert(src, fam, net, rid, Some(nh_of(nha)), attr, None, filt, inv, pl, 0) {
                table::InsertResult::NoChange => {}
                table::InsertResult::PrefixLimitExceeded => res = "limit",
                table::InsertResult::Changed(c) => changes.push(c),
            }
        }
        "remove" => {
            let sname = op["sess"].as_str().unwrap();
            let src = w.sources[sname].clone();
            let net = cfg.prefixes[op["p"].as_str().unwrap()].clone();
            let rid = op["rid"].as_u64().unwrap() as u32;
            let counter = w.counters.get(sname).cloned();
            let present = w.table.lookup_nexthop(src.remote_addr, fam, &net, rid).is_some();
            let (c, _nh) = w.table.remove(src, fam, net, rid, counter.as_ref());
            if !present {
                res = "none";
            }
            if let Some(c) = c {
                changes.push(c);
            }
        }
        "drop" | "markstale" | "dropstale" | "markllgr" | "dropllgr" => {
            let addr = cfg.peers[op["peer"].as_str().unwrap()];
            match k {
                "drop" => changes.extend(w.table.drop(addr, fam).0),
                "markstale" => changes.extend(w.table.restale(addr, fam)),
                "dropstale" => changes.extend(w.table.drop_stale(addr, fam, None).0),
                "markllgr" => {
                    changes.extend(w.table.restale_llgr(addr, fam));
                    changes.extend(w.table.drop_no_llgr(addr, fam, None).0);
                }
                _ => changes.extend(w.table.drop_llgr_stale(addr, fam, None).0),
            }
        }
        "nhflip" => {
            let nha = cfg.nexthops[op["nh"].as_str().unwrap()];
            let up = op["up"].as_bool().unwrap();
            if up {
                w.nhbad.retain(|x| *x != nha);
            } else if !w.nhbad.contains(&nha) {
                w.nhbad.push(nha);
            }
            changes.extend(w.table.update_nexthop_validity(nha, up));
        }
        "startdef" => w.table.start_deferral(fam),
        "enddef" => changes.extend(w.table.end_deferral(fam)),
        x => panic!("harness: unknown op {x}"),
    }
    let nm = Names { cfg, w };
    json!({"res": res, "notifs": changes.iter().map(|c| nm.change(c)).collect::<Vec<_>>()})
}

fn main() {
    let args: Vec<String> = std::env::args().collect();
    let inp = std::io::BufReader::new(std::fs::File::open(&args[1]).expect("open input"));
    let mut out = BufWriter::new(std::fs::File::create(&args[2]).expect("create output"));
    std::panic::set_hook(Box::new(|_| {}));
    let mut lines = inp.lines();
    let cfgv: Value = serde_json::from_str(&lines.next().unwrap().unwrap()).unwrap();
    let cfg = parse_cfg(&cfgv);
    // the hop count the comparator uses, per attribute class (C02: AS_SET counts one, confed segments zero)
    {
        let mut m = serde_json::Map::new();
        for (k, attrs) in &cfg.classes {
            let n = catch_unwind(AssertUnwindSafe(|| {
                attrs.iter().find(|a| a.code() == Attribute::AS_PATH).map(|a| a.as_path_length() as i64).unwrap_or(0)
            }))
            .unwrap_or(-1);
            m.insert(k.clone(), json!(n));
        }
        writeln!(out, "CLASSES {}", Value::Object(m)).unwrap();
    }
    let mut w = new_world(&cfg);
    let mut dead = false;
    for line in lines {
        let line = line.unwrap();
        if line.is_empty() {
            continue;
        }
        if line == "INIT" {
            w = new_world(&cfg);
            dead = false;
            writeln!(out, "INIT").unwrap();
            continue;
        }
        if dead {
            writeln!(out, "{{\"skipped\":true}}").unwrap();
            continue;
        }
        let op: Value = serde_json::from_str(&line).unwrap();
        let r = catch_unwind(AssertUnwindSafe(|| {
            let o = apply(&cfg, &mut w, &op);
            let st = project(&cfg, &w);
            (o, st)
        }));
        match r {
            Ok((o, st)) => {
                writeln!(out, "{}", json!({"out": o, "state": st})).unwrap();
            }
            Err(e) => {
                let msg = e
                    .downcast_ref::<String>()
                    .cloned()
                    .or_else(|| e.downcast_ref::<&str>().map(|s| s.to_string()))
                    .unwrap_or_default();
                writeln!(out, "{}", json!({"panic": msg})).unwrap();
                dead = true;
            }
        }
    }
    out.flush().unwrap();
}
