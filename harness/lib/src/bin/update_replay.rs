//! C05: materialises the cases of spec/Rfc7606/Rfc7606MC.tla as UPDATE bytes (a valid UPDATE with one
//! attribute corrupted in one RFC 7606 way), runs the real `try_parse` -> `validate_message` and
//! classifies what happens to the announced prefix, the withdrawn prefix and the faulty attribute.
//!
//! usage: update_replay <in> <out>   (<in>: one {"case":{...},...} JSON per line)

use std::io::{BufRead, BufWriter, Write};
use std::panic::{AssertUnwindSafe, catch_unwind};

use bytes::BytesMut;
use rustybgp_packet as packet;
use rustybgp_packet::bgp::{self, Capability, Family};
use serde_json::{Value, json};

#[derive(Clone)]
struct A {
    flags: u8,
    code: u8,
    data: Vec<u8>,
    declared: Option<usize>, // declared length if it differs from data.len()
}

fn a(flags: u8, code: u8, data: Vec<u8>) -> A {
    A { flags, code, data, declared: None }
}

fn enc(v: &[A]) -> Vec<u8> {
    let mut out = Vec::new();
    for x in v {
        let len = x.declared.unwrap_or(x.data.len());
        if len > 255 {
            out.push(x.flags | 0x10);
            out.push(x.code);
            out.extend_from_slice(&(len as u16).to_be_bytes());
        } else {
            out.push(x.flags & !0x10);
            out.push(x.code);
            out.push(len as u8);
        }
        out.extend_from_slice(&x.data);
    }
    out
}

fn code_of(name: &str) -> u8 {
    match name {
        "ORIGIN" => 1,
        "AS_PATH" => 2,
        "NEXT_HOP" => 3,
        "MED" => 4,
        "LOCAL_PREF" => 5,
        "ATOMIC_AGGREGATE" => 6,
        "AGGREGATOR" => 7,
        "COMMUNITY" => 8,
        "ORIGINATOR_ID" => 9,
        "CLUSTER_LIST" => 10,
        "EXT_COMMUNITY" => 16,
        "AS4_PATH" => 17,
        "AS4_AGGREGATOR" => 18,
        "LARGE_COMMUNITY" => 32,
        "UNKNOWN_WELLKNOWN" => 99,
        "UNKNOWN_OPT_TRANS" => 200,
        "UNKNOWN_OPT_NONTRANS" => 201,
        x => panic!("harness: attr {x}"),
    }
}

fn aspath(as4: bool, seg_type: u8, count: u8, asns: &[u32]) -> Vec<u8> {
    let mut v = vec![seg_type, count];
    for x in asns {
        if as4 {
            v.extend_from_slice(&x.to_be_bytes());
        } else {
            v.extend_from_slice(&(*x as u16).to_be_bytes());
        }
    }
    v
}

fn valid(name: &str, as4: bool) -> A {
    match name {
        "ORIGIN" => a(0x40, 1, vec![0]),
        "AS_PATH" => a(0x40, 2, aspath(as4, 2, 2, &[65010, 65020])),
        "NEXT_HOP" => a(0x40, 3, vec![192, 0, 2, 1]),
        "MED" => a(0x80, 4, vec![0, 0, 0, 50]),
        "LOCAL_PREF" => a(0x40, 5, vec![0, 0, 0, 100]),
        "ATOMIC_AGGREGATE" => a(0x40, 6, vec![]),
        "AGGREGATOR" => {
            if as4 {
                a(0xC0, 7, vec![0, 0, 0xfd, 0xe8, 10, 0, 0, 1])
            } else {
                a(0xC0, 7, vec![0xfd, 0xe8, 10, 0, 0, 1])
            }
        }
        "COMMUNITY" => a(0xC0, 8, vec![0xfd, 0xe8, 0, 1]),
        "ORIGINATOR_ID" => a(0x80, 9, vec![9, 9, 9, 9]),
        "CLUSTER_LIST" => a(0x80, 10, vec![8, 8, 8, 8]),
        "EXT_COMMUNITY" => a(0xC0, 16, vec![0, 2, 0xfd, 0xe8, 0, 0, 0, 1]),
        "AS4_PATH" => a(0xC0, 17, aspath(true, 2, 2, &[65010, 65020])),
        "AS4_AGGREGATOR" => a(0xC0, 18, vec![0, 0, 0xfd, 0xe8, 10, 0, 0, 1]),
        "LARGE_COMMUNITY" => a(0xC0, 32, vec![0, 0, 0xfd, 0xe8, 0, 0, 0, 1, 0, 0, 0, 2]),
        "UNKNOWN_WELLKNOWN" => a(0x40, 99, vec![1, 2]),
        "UNKNOWN_OPT_TRANS" => a(0xC0, 200, vec![1, 2, 3]),
        "UNKNOWN_OPT_NONTRANS" => a(0x80, 201, vec![1, 2, 3]),
        x => panic!("harness: attr {x}"),
    }
}

fn corrupt_len(name: &str, as4: bool) -> A {
    let mut x = valid(name, as4);
    match name {
        "ORIGIN" => x.data = vec![0, 0],
        "AS_PATH" | "AS4_PATH" => x.data = aspath(as4 || name == "AS4_PATH", 2, 3, &[65010, 65020]), // count 3, two ASNs
        "ATOMIC_AGGREGATE" => x.data = vec![0],
        _ => {
            x.data.pop();
        }
    }
    x
}

fn mp_reach() -> A {
    let mut d = vec![0, 2, 1, 16];
    d.extend_from_slice(&"2001:db8::1".parse::<std::net::Ipv6Addr>().unwrap().octets());
    d.push(0);
    d.push(48);
    d.extend_from_slice(&[0x20, 0x01, 0x0d, 0xb8, 0x00, 0x01]);
    a(0x80, 14, d)
}

fn corrupt_inplace(attrs: &mut Vec<A>, attr: &str, corrupt: &str, as4: bool) {
    let code = match attr {
        "MP_REACH" => 14,
        "MP_UNREACH" => 15,
        _ => code_of(attr),
    };
    let idx = attrs.iter().position(|x| x.code == code).unwrap();
    match corrupt {
        "none" | "block_overrun" => {}
        "len" => {
            if attr.starts_with("MP_") {
                attrs[idx].data.pop(); // the announced prefix is cut short
            } else {
                attrs[idx] = corrupt_len(attr, as4)
            }
        }
        "len_plus1" => attrs[idx].data.push(2),
        "len16" => attrs[idx].data = "2001:db8::1".parse::<std::net::Ipv6Addr>().unwrap().octets().to_vec(),
        "len32" => {
            let mut d = "2001:db8::1".parse::<std::net::Ipv6Addr>().unwrap().octets().to_vec();
            d.extend_from_slice(&"fe80::1".parse::<std::net::Ipv6Addr>().unwrap().octets());
            attrs[idx].data = d;
        }
        "flags_opt" => attrs[idx].flags ^= 0x80,
        "flags_trans" => attrs[idx].flags ^= 0x40,
        "value" => {
            if attr == "ORIGIN" {
                attrs[idx].data = vec![7];
            } else {
                attrs[idx].data = aspath(as4, 9, 2, &[65010, 65020]);
            }
        }
        "dup" => {
            let mut d = attrs[idx].clone();
            if let Some(l) = d.data.last_mut() {
                *l ^= 1;
            }
            attrs.push(d);
        }
        "omit" => {
            attrs.remove(idx);
        }
        "attr_overrun" => {
            // move the attribute to the end of the block and let its declared length run past the block
            let mut x = attrs.remove(idx);
            x.declared = Some(x.data.len() + 40);
            attrs.push(x);
        }
        "hdr_trunc" => {
            let x = attrs.remove(idx);
            attrs.push(x);
        }
        x => panic!("harness: corruption {x}"),
    }
}

fn build(case: &Value) -> (Vec<u8>, bgp::PeerCodec) {
    let base = case["base"].as_str().unwrap();
    let as4 = case["as4"].as_bool().unwrap();
    let attr = case["attr"].as_str().unwrap();
    let corrupt = case["corrupt"].as_str().unwrap();
    let attr2 = case["attr2"].as_str().unwrap();
    let corrupt2 = case["corrupt2"].as_str().unwrap();
    let ibgp = case["peer"] == "ibgp";
    let mix = base == "mix";
    let only = base.starts_with("only");
    let v6 = base.starts_with("v6") || base == "only6_wd";
    let wd = base.ends_with("_wd");
    let mut attrs: Vec<A> = Vec::new();
    if v6 || mix {
        if !only {
            attrs.push(mp_reach());
        }
        if wd {
            attrs.push(a(0x80, 15, vec![0, 2, 1, 48, 0x20, 0x01, 0x0d, 0xb8, 0x00, 0x09]));
        }
    }
    attrs.push(valid("ORIGIN", as4));
    attrs.push(valid("AS_PATH", as4));
    if !v6 && !only {
        attrs.push(valid("NEXT_HOP", as4));
    }
    if ibgp {
        attrs.push(valid("LOCAL_PREF", as4));
    }
    for at in [attr, attr2] {
        if at != "none" && !at.starts_with("MP_") && !attrs.iter().any(|x| x.code == code_of(at)) {
            attrs.push(valid(at, as4));
        }
    }
    if attr2 != "none" {
        corrupt_inplace(&mut attrs, attr2, corrupt2, as4);
    }
    corrupt_inplace(&mut attrs, attr, corrupt, as4);
    let mut ab = enc(&attrs);
    if corrupt == "hdr_trunc" {
        // the faulty attribute is last: keep only its flags and type octets
        let l = enc(&attrs[attrs.len() - 1..]).len();
        ab.truncate(ab.len() - l + 2);
    }
    let mut body = Vec::new();
    let withdrawn: Vec<u8> = if wd && !v6 { vec![24, 10, 9, 9] } else { vec![] };
    body.extend_from_slice(&(withdrawn.len() as u16).to_be_bytes());
    body.extend_from_slice(&withdrawn);
    let declared_attr_len = if corrupt == "block_overrun" { ab.len() + 100 } else { ab.len() };
    body.extend_from_slice(&(declared_attr_len as u16).to_be_bytes());
    body.extend_from_slice(&ab);
    if !v6 && !only {
        body.extend_from_slice(&[24, 10, 1, 1]);
    }
    let mut msg = vec![0xffu8; 16];
    msg.extend_from_slice(&((19 + body.len()) as u16).to_be_bytes());
    msg.push(2);
    msg.extend_from_slice(&body);
    let mut local = vec![Capability::MultiProtocol(Family::IPV4), Capability::MultiProtocol(Family::IPV6), Capability::FourOctetAsNumber(65001)];
    let mut remote = vec![Capability::MultiProtocol(Family::IPV4), Capability::MultiProtocol(Family::IPV6)];
    if as4 {
        remote.push(Capability::FourOctetAsNumber(65010));
    }
    local.push(Capability::ExtendedMessage);
    (msg, bgp::PeerCodec::negotiate(&local, &remote))
}

fn main() {
    let args: Vec<String> = std::env::args().collect();
    let inp = std::io::BufReader::new(std::fs::File::open(&args[1]).expect("open input"));
    let mut out = BufWriter::new(std::fs::File::create(&args[2]).expect("create output"));
    std::panic::set_hook(Box::new(|_| {}));
    let ann4: packet::Nlri = "10.1.1.0/24".parse().unwrap();
    let ann6: packet::Nlri = "2001:db8:1::/48".parse().unwrap();
    let wd4: packet::Nlri = "10.9.9.0/24".parse().unwrap();
    let wd6: packet::Nlri = "2001:db8:9::/48".parse().unwrap();
    for (idx, line) in inp.lines().enumerate() {
        let line = line.unwrap();
        if line.is_empty() {
            continue;
        }
        let j: Value = serde_json::from_str(&line).unwrap();
        let case = &j["case"];
        let v6 = case["base"].as_str().unwrap().starts_with("v6") || case["base"] == "only6_wd";
        let mix = case["base"] == "mix";
        let codes: Vec<u8> = ["attr", "attr2"]
            .iter()
            .map(|k| match case[*k].as_str().unwrap() {
                "none" => 0,
                "MP_REACH" => 14,
                "MP_UNREACH" => 14,
                x => code_of(x),
            })
            .collect();
        let is_ebgp = case["peer"] == "ebgp";
        let r = catch_unwind(AssertUnwindSafe(|| {
            let (bytes, mut codec) = build(case);
            let mut buf = BytesMut::from(&bytes[..]);
            let parsed = match codec.try_parse(&mut buf) {
                Err(n) => return json!({"outcome": "reset", "code": n.notification_code(), "subcode": n.notification_subcode()}),
                Ok(None) => return json!({"outcome": "needmore"}),
                Ok(Some(p)) => p,
            };
            let msgs: Vec<bgp::Message> = match bgp::validate_message(parsed, is_ebgp) {
                Err(n) => return json!({"outcome": "reset", "code": n.notification_code(), "subcode": n.notification_subcode()}),
                Ok(it) => it.collect(),
            };
            let ann = if v6 { &ann6 } else { &ann4 };
            let wdn = if v6 { &wd6 } else { &wd4 };
            // the second announced prefix of a mixed UPDATE (IPv6, through MP_REACH)
            let mut installed_b = false;
            let mut withdrawn_b = false;
            let mut installed = false;
            let mut withdrawn_ann = false;
            let mut withdrawn_wd = false;
            let mut present = [false, false];
            let mut ibgp_only = Vec::new();
            for m in &msgs {
                match m {
                    bgp::Message::Update(bgp::Update::Reach { entries, attr, nexthop, .. }) => {
                        if mix && entries.iter().any(|e| e.nlri == ann6) {
                            installed_b = true;
                        }
                        if entries.iter().any(|e| &e.nlri == ann) {
                            installed = true;
                            for (i, code) in codes.iter().enumerate() {
                                present[i] = match *code {
                                    0 => false,
                                    3 => nexthop.is_some(),
                                    14 => true,
                                    c => attr.iter().any(|a| a.code() == c),
                                };
                            }
                            for a in attr.iter() {
                                if matches!(a.code(), 5 | 9 | 10) {
                                    ibgp_only.push(a.code());
                                }
                            }
                        }
                    }
                    bgp::Message::Update(bgp::Update::Unreach { entries, .. }) => {
                        if mix && entries.iter().any(|e| e.nlri == ann6) {
                            withdrawn_b = true;
                        }
                        if entries.iter().any(|e| &e.nlri == ann) {
                            withdrawn_ann = true;
                        }
                        if entries.iter().any(|e| &e.nlri == wdn) {
                            withdrawn_wd = true;
                        }
                    }
                    _ => {}
                }
            }
            let outcome = if mix && (installed != installed_b || withdrawn_ann != withdrawn_b) {
                // one of the two announced prefixes was installed / withdrawn and the other was not
                "partial"
            } else if installed {
                "installed"
            } else if withdrawn_ann {
                "withdraw"
            } else {
                "ignored"
            };
            json!({"outcome": outcome, "present1": present[0], "present2": present[1], "withdrawals_applied": withdrawn_wd, "ibgp_only_kept": ibgp_only})
        }));
        let v = match r {
            Ok(v) => v,
            Err(_) => json!({"outcome": "panic"}),
        };
        writeln!(out, "{}", json!({"i": idx, "res": v})).unwrap();
    }
    out.flush().unwrap();
}
