//! C12: replays every VRP set emitted by spec/Rov/RovMC.tla on the real `RpkiTable`,
//! embedded at several bit offsets of IPv4 / IPv6, and compares `validate()` for every route
//! with the state the specification computed; also exercises remove / drop_source / duplicate
//! insert against the specification's value for the resulting set.
//!
//! usage: rpki_replay <in> <out>
//!   <in>: line 1 {"w":W,"local_as":3,"embeddings":[{"fam":"v4","off":6},...]}
//!         line 2 {"routes":[{"p":{"len":..,"val":..},"o":..},...]}
//!         then   {"vrps":[{"c":..,"p":{..},"m":..,"a":..}],"exp":["N","V",...]}   one per VRP set

use std::collections::HashMap;
use std::io::{BufRead, BufWriter, Write};
use std::net::{IpAddr, Ipv4Addr, Ipv6Addr};
use std::sync::Arc;

use rustybgp_packet as packet;
use rustybgp_packet::bgp::{Attribute, Family};
use rustybgp_table as table;
use serde_json::{Value, json};

#[derive(Clone, PartialEq, Eq, Hash, PartialOrd, Ord, Debug)]
struct Vrp {
    c: String,
    len: u32,
    val: u32,
    m: u32,
    a: u32,
}

struct Emb {
    v6: bool,
    off: u32,
}

fn real_asn(a: u32) -> u32 {
    if a == 0 { 0 } else { 64500 + a }
}

fn embed(e: &Emb, len: u32, val: u32) -> (IpAddr, u8) {
    // base bits: a fixed pattern in the first `off` bits
    if e.v6 {
        let base: u128 = 0x2001_0db8_5a5a_a5a5_3c3c_c3c3_0f0f_f0f0;
        let total = 128u32;
        let keep = if e.off == 0 { 0 } else { base & (u128::MAX << (total - e.off)) };
        let v = if len == 0 { 0 } else { (val as u128) << (total - e.off - len) };
        (IpAddr::V6(Ipv6Addr::from(keep | v)), (e.off + len) as u8)
    } else {
        let base: u32 = 0xAC5A_A53C;
        let total = 32u32;
        let keep = if e.off == 0 { 0 } else { base & (u32::MAX << (total - e.off)) };
        let v = if len == 0 { 0 } else { val << (total - e.off - len) };
        (IpAddr::V4(Ipv4Addr::from(keep | v)), (e.off + len) as u8)
    }
}

fn route_attr(o: u32) -> Arc<Vec<Attribute>> {
    let mut bin = Vec::new();
    match o {
        99 => {
            // AS_SEQUENCE [65000] then AS_SET {64501, 64502} as the final segment: origin NONE
            bin.extend_from_slice(&[2, 1]);
            bin.extend_from_slice(&65000u32.to_be_bytes());
            bin.extend_from_slice(&[1, 2]);
            bin.extend_from_slice(&64501u32.to_be_bytes());
            bin.extend_from_slice(&64502u32.to_be_bytes());
        }
        98 => {
            // AS_SEQUENCE [65000, AS 1] then an AS_SET as the final segment: origin NONE all the same
            bin.extend_from_slice(&[2, 2]);
            bin.extend_from_slice(&65000u32.to_be_bytes());
            bin.extend_from_slice(&real_asn(1).to_be_bytes());
            bin.extend_from_slice(&[1, 2]);
            bin.extend_from_slice(&64502u32.to_be_bytes());
            bin.extend_from_slice(&64503u32.to_be_bytes());
        }
        5 => {
            // an AS_SET in front, AS_SEQUENCE [AS 1] as the final segment: the origin is AS 1
            bin.extend_from_slice(&[1, 1]);
            bin.extend_from_slice(&64502u32.to_be_bytes());
            bin.extend_from_slice(&[2, 1]);
            bin.extend_from_slice(&real_asn(1).to_be_bytes());
        }
        3 => {} // empty AS_PATH: locally originated, origin = local AS
        a => {
            bin.extend_from_slice(&[2, 2]);
            bin.extend_from_slice(&65000u32.to_be_bytes());
            bin.extend_from_slice(&real_asn(a).to_be_bytes());
        }
    }
    Arc::new(vec![
        Attribute::new_with_value(Attribute::ORIGIN, 0).unwrap(),
        Attribute::new_with_bin(Attribute::AS_PATH, bin).unwrap(),
    ])
}

struct Ctx {
    caches: HashMap<String, Arc<IpAddr>>,
    source: Arc<table::Source>,
}

fn mk_roa(cx: &Ctx, e: &Emb, v: &Vrp) -> (packet::IpNet, Arc<table::Roa>) {
    let (addr, mask) = embed(e, v.len, v.val);
    (
        packet::IpNet::new(addr, mask),
        Arc::new(table::Roa::new((e.off + v.m) as u8, real_asn(v.a), cx.caches[&v.c].clone())),
    )
}

fn nlri(e: &Emb, len: u32, val: u32) -> packet::Nlri {
    let (addr, mask) = embed(e, len, val);
    match addr {
        IpAddr::V4(a) => packet::Nlri::V4(packet::bgp::Ipv4Net { addr: a, mask }),
        IpAddr::V6(a) => packet::Nlri::V6(packet::bgp::Ipv6Net { addr: a, mask }),
    }
}

fn code(t: &table::RpkiTable, cx: &Ctx, n: &packet::Nlri, attr: &Arc<Vec<Attribute>>) -> char {
    match t.validate(&cx.source, n, attr) {
        None => 'N',
        Some(v) => match v.state {
            table::RpkiValidationState::NotFound => 'N',
            table::RpkiValidationState::Valid => 'V',
            table::RpkiValidationState::Invalid => 'I',
        },
    }
}

fn contents(t: &table::RpkiTable, e: &Emb, cx: &Ctx) -> Vec<(String, u8, u8, u32, String)> {
    let fam = if e.v6 { Family::IPV6 } else { Family::IPV4 };
    let mut v: Vec<_> = t
        .iter(fam)
        .map(|(net, r)| {
            let (a, m) = match net {
                packet::IpNet::V4(n) => (n.addr.to_string(), n.mask),
                packet::IpNet::V6(n) => (n.addr.to_string(), n.mask),
            };
            let c = cx.caches.iter().find(|(_, x)| Arc::ptr_eq(x, &r.source)).map(|(k, _)| k.clone()).unwrap_or_default();
            (a, m, r.max_length, r.as_number, c)
        })
        .collect();
    v.sort();
    v
}

fn want_contents(set: &[Vrp], e: &Emb) -> Vec<(String, u8, u8, u32, String)> {
    let mut v: Vec<_> = set
        .iter()
        .map(|x| {
            let (a, m) = embed(e, x.len, x.val);
            (a.to_string(), m, (e.off + x.m) as u8, real_asn(x.a), x.c.clone())
        })
        .collect();
    v.sort();
    v.dedup();
    v
}

fn main() {
    let args: Vec<String> = std::env::args().collect();
    let inp = std::io::BufReader::new(std::fs::File::open(&args[1]).expect("open input"));
    let mut out = BufWriter::new(std::fs::File::create(&args[2]).expect("create output"));
    std::panic::set_hook(Box::new(|_| {}));
    let mut lines = inp.lines();
    let cfg: Value = serde_json::from_str(&lines.next().unwrap().unwrap()).unwrap();
    let embs: Vec<Emb> = cfg["embeddings"]
        .as_array()
        .unwrap()
        .iter()
        .map(|e| Emb { v6: e["fam"] == "v6", off: e["off"].as_u64().unwrap() as u32 })
        .collect();
    let rl: Value = serde_json::from_str(&lines.next().unwrap().unwrap()).unwrap();
    let routes: Vec<(u32, u32, u32)> = rl["routes"]
        .as_array()
        .unwrap()
        .iter()
        .map(|r| {
            (
                r["p"]["len"].as_u64().unwrap() as u32,
                r["p"]["val"].as_u64().unwrap() as u32,
                r["o"].as_u64().unwrap() as u32,
            )
        })
        .collect();
    let attrs: HashMap<u32, Arc<Vec<Attribute>>> = routes.iter().map(|r| (r.2, route_attr(r.2))).collect();
    let mut caches = HashMap::new();
    for (i, c) in ["k1", "k2", "k3"].iter().enumerate() {
        caches.insert(c.to_string(), Arc::new(IpAddr::V4(Ipv4Addr::new(192, 0, 2, i as u8 + 1))));
    }
    let cx = Ctx {
        caches,
        source: Arc::new(table::Source::new(
            IpAddr::V4(Ipv4Addr::new(10, 0, 0, 1)),
            IpAddr::V4(Ipv4Addr::new(10, 0, 0, 254)),
            65000,
            real_asn(cfg["local_as"].as_u64().unwrap() as u32),
            Ipv4Addr::new(1, 1, 1, 1),
            table::PeerRole::Ebgp,
        )),
    };
    // load all states
    let mut states: Vec<(Vec<Vrp>, Vec<char>)> = Vec::new();
    for line in lines {
        let line = line.unwrap();
        if line.is_empty() {
            continue;
        }
        let j: Value = serde_json::from_str(&line).unwrap();
        let mut set: Vec<Vrp> = j["vrps"]
            .as_array()
            .unwrap()
            .iter()
            .map(|v| Vrp {
                c: v["c"].as_str().unwrap().to_string(),
                len: v["p"]["len"].as_u64().unwrap() as u32,
                val: v["p"]["val"].as_u64().unwrap() as u32,
                m: v["m"].as_u64().unwrap() as u32,
                a: v["a"].as_u64().unwrap() as u32,
            })
            .collect();
        set.sort();
        let exp: Vec<char> = j["exp"].as_array().unwrap().iter().map(|x| x.as_str().unwrap().chars().next().unwrap()).collect();
        states.push((set, exp));
    }
    let index: HashMap<Vec<Vrp>, usize> = states.iter().enumerate().map(|(i, (s, _))| (s.clone(), i)).collect();
    let mut evals: u64 = 0;
    let mut mism: u64 = 0;
    let mut nontrivial: u64 = 0;
    let mut report = |out: &mut BufWriter<std::fs::File>, kind: &str, e: &Emb, set: &[Vrp], detail: Value| {
        mism += 1;
        if mism <= 40 {
            writeln!(
                out,
                "{}",
                json!({"mismatch": kind, "emb": {"v6": e.v6, "off": e.off},
                       "vrps": set.iter().map(|v| json!({"c": v.c, "len": v.len, "val": v.val, "m": v.m, "a": v.a})).collect::<Vec<_>>(),
                       "detail": detail})
            )
            .unwrap();
        }
    };
    for (set, exp) in &states {
        for e in &embs {
            let r = std::panic::catch_unwind(std::panic::AssertUnwindSafe(|| {
                let mut t = table::RpkiTable::new();
                for v in set.iter() {
                    let (net, roa) = mk_roa(&cx, e, v);
                    t.insert(net, roa);
                }
                let check = |t: &table::RpkiTable, want: &Vec<char>| -> Option<Value> {
                    for (i, (len, val, o)) in routes.iter().enumerate() {
                        let got = code(t, &cx, &nlri(e, *len, *val), &attrs[o]);
                        if got != want[i] {
                            return Some(json!({"route": {"len": len, "val": val, "o": o}, "expected": want[i].to_string(), "actual": got.to_string()}));
                        }
                    }
                    None
                };
                let mut bad: Vec<(String, Value)> = Vec::new();
                if let Some(d) = check(&t, exp) {
                    bad.push(("validate".into(), d));
                }
                if contents(&t, e, &cx) != want_contents(set, e) {
                    bad.push(("contents".into(), json!({"after": "insert"})));
                }
                // duplicate insert keeps the set
                for v in set.iter() {
                    let (net, roa) = mk_roa(&cx, e, v);
                    t.insert(net, roa);
                }
                if contents(&t, e, &cx) != want_contents(set, e) {
                    bad.push(("contents".into(), json!({"after": "duplicate insert"})));
                }
                // remove each VRP in turn and compare with the specification's value for the smaller set
                for (k, v) in set.iter().enumerate() {
                    let (net, roa) = mk_roa(&cx, e, v);
                    t.remove(net.clone(), &roa);
                    let mut smaller = set.to_vec();
                    smaller.remove(k);
                    if let Some(ix) = index.get(&smaller) {
                        if let Some(d) = check(&t, &states[*ix].1) {
                            bad.push(("validate-after-remove".into(), d));
                        }
                    }
                    if contents(&t, e, &cx) != want_contents(&smaller, e) {
                        bad.push(("contents".into(), json!({"after": "remove"})));
                    }
                    t.insert(net, roa);
                }
                // removing an absent VRP changes nothing
                let absent = Vrp { c: "k3".into(), len: 0, val: 0, m: 0, a: 1 };
                let (net, roa) = mk_roa(&cx, e, &absent);
                t.remove(net, &roa);
                if contents(&t, e, &cx) != want_contents(set, e) {
                    bad.push(("contents".into(), json!({"after": "remove absent"})));
                }
                // drop each cache
                for c in ["k1", "k2"] {
                    let mut t2 = t.clone();
                    t2.drop_source(cx.caches[c].clone());
                    let rest: Vec<Vrp> = set.iter().filter(|v| v.c != c).cloned().collect();
                    if let Some(ix) = index.get(&rest) {
                        if let Some(d) = check(&t2, &states[*ix].1) {
                            bad.push(("validate-after-dropsource".into(), d));
                        }
                    }
                    if contents(&t2, e, &cx) != want_contents(&rest, e) {
                        bad.push(("contents".into(), json!({"after": "drop_source"})));
                    }
                }
                bad
            }));
            evals += routes.len() as u64 * (2 + set.len() as u64 + 2);
            if exp.iter().any(|c| *c != 'N') {
                nontrivial += 1;
            }
            match r {
                Ok(bad) => {
                    for (k, d) in bad {
                        report(&mut out, &k, e, set, d);
                    }
                }
                Err(_) => report(&mut out, "panic", e, set, json!({})),
            }
        }
    }
    writeln!(out, "{}", json!({"summary": {"states": states.len(), "embeddings": embs.len(), "evaluations": evals,
                                          "nontrivial": nontrivial, "mismatches": mism}})).unwrap();
    out.flush().unwrap();
}
