//! C14 (store half): replays PolicyStore.tla behaviours on a real `PolicyTable`.
//!
//! usage: store_replay <in> <out>
//! <in>: lines `{"reset":true,"kinds":[..]}` (fresh table) or an operation as printed by PolicyStoreMC!OJ.
//! <out>: per operation `{"res": "ok"|"err", "why": .., "state": {sets, stmts, pols, asg, eval, div}}`;
//! `div` lists every held copy (set in a statement, statement in a policy, policy in the assignment) that is no
//! longer the object of that name in the store.

use std::io::{BufRead, BufWriter, Write};
use std::net::{IpAddr, Ipv4Addr};
use std::panic::{AssertUnwindSafe, catch_unwind};
use std::str::FromStr;
use std::sync::Arc;

use rustybgp_packet as packet;
use rustybgp_packet::bgp::Attribute;
use rustybgp_table as table;
use serde_json::{Value, json};
use table::{
    Actions, Condition, ConditionConfig, DefinedSetConfig, DefinedSetRef, Disposition, MatchOption, PolicyDirection,
    PolicyTable, PrefixConfig, SingleAsPathMatch, TableError,
};

fn elem_str(kind: &str, e: u64) -> String {
    match (kind, e) {
        ("neighbor", e) => format!("192.0.2.{}/32", e),
        ("aspath", e) => format!("_6500{}_", e),
        ("community", e) => format!("65000:{}", e),
        ("ext", e) => format!("^rt:65000:{}$", e),
        ("large", e) => format!("^65000:{}:{}$", e, e),
        _ => panic!("harness: elem"),
    }
}

fn set_cfg(kind: &str, name: &str, el: &[u64]) -> DefinedSetConfig {
    let name = format!("{}-{}", kind, name);
    let pats: Vec<String> = if kind == "prefix" { vec![] } else { el.iter().map(|e| elem_str(kind, *e)).collect() };
    match kind {
        "prefix" => DefinedSetConfig::Prefix {
            name,
            prefixes: el
                .iter()
                .map(|e| match e {
                    1 => PrefixConfig { ip_prefix: "10.0.0.0/8".to_string(), mask_length_min: 24, mask_length_max: 24 },
                    _ => PrefixConfig { ip_prefix: "10.1.0.0/16".to_string(), mask_length_min: 16, mask_length_max: 32 },
                })
                .collect(),
        },
        "neighbor" => DefinedSetConfig::Neighbor { name, neighbors: pats },
        "aspath" => DefinedSetConfig::AsPath { name, patterns: pats },
        "community" => DefinedSetConfig::Community { name, patterns: pats },
        "ext" => DefinedSetConfig::ExtCommunity { name, patterns: pats },
        "large" => DefinedSetConfig::LargeCommunity { name, patterns: pats },
        x => panic!("harness: kind {x}"),
    }
}

fn cond_cfg(kind: &str, name: &str) -> ConditionConfig {
    let n = format!("{}-{}", kind, name);
    match kind {
        "prefix" => ConditionConfig::PrefixSet(n, MatchOption::Any),
        "neighbor" => ConditionConfig::NeighborSet(n, MatchOption::Any),
        "aspath" => ConditionConfig::AsPathSet(n, MatchOption::Any),
        "community" => ConditionConfig::CommunitySet(n, MatchOption::Any),
        "ext" => ConditionConfig::ExtCommunitySet(n, MatchOption::Any),
        "large" => ConditionConfig::LargeCommunitySet(n, MatchOption::Any),
        x => panic!("harness: kind {x}"),
    }
}

fn u64s(v: &Value) -> Vec<u64> {
    v.as_array().unwrap().iter().map(|x| x.as_u64().unwrap()).collect()
}
fn strs(v: &Value) -> Vec<String> {
    v.as_array().unwrap().iter().map(|x| x.as_str().unwrap().to_string()).collect()
}
fn disp(s: &str) -> Option<Disposition> {
    match s {
        "accept" => Some(Disposition::Accept),
        "reject" => Some(Disposition::Reject),
        _ => None,
    }
}

fn exec(t: &mut PolicyTable, o: &Value) -> Result<(), TableError> {
    match o["op"].as_str().unwrap() {
        "addset" => t.add_defined_set(set_cfg(o["k"].as_str().unwrap(), o["n"].as_str().unwrap(), &u64s(&o["el"]))),
        "replset" => t.replace_defined_set(set_cfg(o["k"].as_str().unwrap(), o["n"].as_str().unwrap(), &u64s(&o["el"]))),
        "delset" => t.delete_defined_set(
            set_cfg(o["k"].as_str().unwrap(), o["n"].as_str().unwrap(), &u64s(&o["el"])),
            o["all"].as_bool().unwrap(),
        ),
        "addstmt" => {
            let conds = o["conds"].as_array().unwrap().iter().map(|c| cond_cfg(c["k"].as_str().unwrap(), c["n"].as_str().unwrap())).collect();
            t.add_statement(o["n"].as_str().unwrap(), conds, disp(o["disp"].as_str().unwrap()), Actions::default())
        }
        "delstmt" => {
            let conds = strs(&o["kinds"]).iter().map(|k| cond_cfg(k, "x")).collect();
            let d = if o["disp"].as_bool().unwrap() { Some(Disposition::Accept) } else { None };
            t.delete_statement(o["n"].as_str().unwrap(), o["all"].as_bool().unwrap(), conds, d, Actions::default())
        }
        "addpol" => t.add_policy(o["n"].as_str().unwrap(), strs(&o["st"])),
        "delpol" => t
            .delete_policy(o["n"].as_str().unwrap(), o["preserve"].as_bool().unwrap(), o["all"].as_bool().unwrap(), strs(&o["st"]))
            .map(|_| ()),
        "addasg" => t
            .add_assignment("global", PolicyDirection::Import, disp(o["def"].as_str().unwrap()).unwrap(), strs(&o["pl"]))
            .map(|_| ()),
        "setasg" => t
            .set_policy_assignment("global", PolicyDirection::Import, disp(o["def"].as_str().unwrap()).unwrap(), strs(&o["pl"]))
            .map(|_| ()),
        "delasg" => t.delete_policy_assignment(PolicyDirection::Import, &strs(&o["pl"]), o["all"].as_bool().unwrap()).map(|_| ()),
        x => panic!("harness: op {x}"),
    }
}

fn split(name: &str) -> (String, String) {
    let (k, n) = name.split_once('-').unwrap();
    (k.to_string(), n.to_string())
}

fn regex_elems(kind: &str, sets: &[regex::Regex]) -> Vec<u64> {
    let probe = |e: u64| match kind {
        "community" => format!("65000:{}", e),
        "ext" => format!("rt:65000:{}", e),
        _ => format!("65000:{}:{}", e, e),
    };
    (1..=2).filter(|e| sets.iter().any(|r| r.is_match(&probe(*e)))).collect()
}

fn cond_ref(c: &Condition) -> Option<(String, *const ())> {
    Some(match c {
        Condition::Prefix(n, _, a) => (n.clone(), Arc::as_ptr(a) as *const ()),
        Condition::Neighbor(n, _, a) => (n.clone(), Arc::as_ptr(a) as *const ()),
        Condition::AsPath(n, _, a) => (n.clone(), Arc::as_ptr(a) as *const ()),
        Condition::Community(n, _, a) => (n.clone(), Arc::as_ptr(a) as *const ()),
        Condition::ExtCommunity(n, _, a) => (n.clone(), Arc::as_ptr(a) as *const ()),
        Condition::LargeCommunity(n, _, a) => (n.clone(), Arc::as_ptr(a) as *const ()),
        _ => return None,
    })
}

fn project(t: &PolicyTable, kinds: &[String]) -> Value {
    let mut div: Vec<String> = Vec::new();
    let mut sets = Vec::new();
    let mut set_ptr: std::collections::HashMap<String, *const ()> = Default::default();
    for s in t.iter_defined_sets() {
        let (name, el, p): (&str, Vec<u64>, *const ()) = match s {
            DefinedSetRef::Prefix(n, s) => {
                let mut el = Vec::new();
                for (a, m, _) in s.v4.iter() {
                    if a == Ipv4Addr::new(10, 0, 0, 0) && m == 8 {
                        el.push(1)
                    } else if a == Ipv4Addr::new(10, 1, 0, 0) && m == 16 {
                        el.push(2)
                    } else {
                        el.push(99)
                    }
                }
                (n, el, s as *const _ as *const ())
            }
            DefinedSetRef::Neighbor(n, s) => (
                n,
                (1..=2u64).filter(|e| s.sets.iter().any(|x| x == &packet::IpNet::from_str(&elem_str("neighbor", *e)).unwrap())).collect(),
                s as *const _ as *const (),
            ),
            DefinedSetRef::AsPath(n, s) => (
                n,
                (1..=2u64).filter(|e| s.single_sets.iter().any(|x| x == &SingleAsPathMatch::Include(65000 + *e as u32))).collect(),
                s as *const _ as *const (),
            ),
            DefinedSetRef::Community(n, s) => (n, regex_elems("community", &s.sets), s as *const _ as *const ()),
            DefinedSetRef::ExtCommunity(n, s) => (n, regex_elems("ext", &s.sets), s as *const _ as *const ()),
            DefinedSetRef::LargeCommunity(n, s) => (n, regex_elems("large", &s.sets), s as *const _ as *const ()),
        };
        let (k, n) = split(name);
        let mut el = el;
        el.sort();
        el.dedup();
        set_ptr.insert(name.to_string(), p);
        sets.push(json!({"k": k, "n": n, "el": el}));
    }
    let mut stmts = Vec::new();
    let mut stmt_ptr: std::collections::HashMap<String, *const table::Statement> = Default::default();
    for s in t.iter_statements(String::new()) {
        stmt_ptr.insert(s.name.to_string(), s as *const _);
        let mut conds = Vec::new();
        for c in &s.conditions {
            if let Some((name, p)) = cond_ref(c) {
                let (k, n) = split(&name);
                conds.push(json!({"k": k, "n": n}));
                if set_ptr.get(&name) != Some(&p) {
                    div.push(format!("statement {} holds a copy of set {} that is not the stored one", s.name, name));
                }
            }
        }
        let d = match s.disposition {
            Some(Disposition::Accept) => "accept",
            Some(Disposition::Reject) => "reject",
            _ => "none",
        };
        stmts.push(json!({"n": s.name.to_string(), "conds": conds, "disp": d}));
    }
    let mut pols = Vec::new();
    let mut pol_ptr: std::collections::HashMap<String, *const table::Policy> = Default::default();
    for p in t.iter_policies(String::new()) {
        pol_ptr.insert(p.name.to_string(), p as *const _);
        let mut st = Vec::new();
        for s in &p.statements {
            st.push(s.name.to_string());
            if stmt_ptr.get(s.name.as_ref()) != Some(&Arc::as_ptr(s)) {
                div.push(format!("policy {} holds a copy of statement {} that is not the stored one", p.name, s.name));
            }
        }
        pols.push(json!({"n": p.name.to_string(), "st": st}));
    }
    let mut asg = json!({"ex": false, "def": "accept", "pl": []});
    let mut live = None;
    for (_, a) in t.iter_assignments(1) {
        let mut pl = Vec::new();
        for p in &a.policies {
            pl.push(p.name.to_string());
            if pol_ptr.get(p.name.as_ref()) != Some(&Arc::as_ptr(p)) {
                div.push(format!("assignment holds a copy of policy {} that is not the stored one", p.name));
            }
        }
        let d = if a.disposition == Disposition::Reject { "reject" } else { "accept" };
        asg = json!({"ex": true, "def": d, "pl": pl});
        live = Some(a);
    }
    // evaluation of the live assignment for the probe routes
    let mut eval = Vec::new();
    let probes: Vec<Vec<u64>> = if kinds.iter().any(|k| k == "neighbor") {
        vec![vec![], vec![1], vec![2]]
    } else {
        vec![vec![], vec![1], vec![2], vec![1, 2]]
    };
    for f in probes {
        let d = match live {
            None => "none".to_string(),
            Some(a) => {
                let has = |e: u64| f.contains(&e);
                let peer = if has(1) { 1 } else if has(2) { 2 } else { 3 };
                let source = Arc::new(table::Source::new(
                    IpAddr::V4(Ipv4Addr::new(192, 0, 2, peer)),
                    IpAddr::V4(Ipv4Addr::new(192, 0, 2, 254)),
                    65009,
                    65000,
                    Ipv4Addr::new(1, 1, 1, 1),
                    table::PeerRole::Ebgp,
                ));
                let net = match (has(1), has(2)) {
                    (true, true) => packet::Nlri::V4(packet::bgp::Ipv4Net { addr: Ipv4Addr::new(10, 1, 1, 0), mask: 24 }),
                    (true, false) => packet::Nlri::V4(packet::bgp::Ipv4Net { addr: Ipv4Addr::new(10, 2, 3, 0), mask: 24 }),
                    (false, true) => packet::Nlri::V4(packet::bgp::Ipv4Net { addr: Ipv4Addr::new(10, 1, 1, 0), mask: 25 }),
                    _ => packet::Nlri::V4(packet::bgp::Ipv4Net { addr: Ipv4Addr::new(11, 0, 0, 0), mask: 24 }),
                };
                let mut asns: Vec<u32> = vec![65009];
                let mut comm = Vec::new();
                let mut ext = Vec::new();
                let mut large = Vec::new();
                for e in &f {
                    asns.push(65000 + *e as u32);
                    comm.extend_from_slice(&((65000u32 << 16) | *e as u32).to_be_bytes());
                    ext.extend_from_slice(&[0, 2, 0xfd, 0xe8, 0, 0, 0, *e as u8]);
                    large.extend_from_slice(&65000u32.to_be_bytes());
                    large.extend_from_slice(&(*e as u32).to_be_bytes());
                    large.extend_from_slice(&(*e as u32).to_be_bytes());
                }
                let mut ap = vec![2u8, asns.len() as u8];
                for x in &asns {
                    ap.extend_from_slice(&x.to_be_bytes());
                }
                let mut attrs = vec![
                    Attribute::new_with_value(Attribute::ORIGIN, 0).unwrap(),
                    Attribute::new_with_bin(Attribute::AS_PATH, ap).unwrap(),
                ];
                if !f.is_empty() {
                    attrs.push(Attribute::new_with_bin(Attribute::COMMUNITY, comm).unwrap());
                    attrs.push(Attribute::new_with_bin(Attribute::EXTENDED_COMMUNITY, ext).unwrap());
                    attrs.push(Attribute::new_with_bin(Attribute::LARGE_COMMUNITY, large).unwrap());
                }
                let attrs = Arc::new(attrs);
                let r = catch_unwind(AssertUnwindSafe(|| {
                    let mut nh = Some(packet::bgp::Nexthop::V4(Ipv4Addr::new(192, 0, 2, 1)));
                    table::apply_import(a, None, &source, &net, &attrs, &mut nh).0
                }));
                match r {
                    Ok(true) => "reject".to_string(),
                    Ok(false) => "accept".to_string(),
                    Err(_) => "panic".to_string(),
                }
            }
        };
        eval.push(json!({"f": f, "d": d}));
    }
    json!({"sets": sets, "stmts": stmts, "pols": pols, "asg": asg, "eval": eval, "div": div})
}

fn main() {
    let args: Vec<String> = std::env::args().collect();
    let inp = std::io::BufReader::new(std::fs::File::open(&args[1]).expect("open input"));
    let mut out = BufWriter::new(std::fs::File::create(&args[2]).expect("create output"));
    std::panic::set_hook(Box::new(|_| {}));
    let mut t = PolicyTable::new();
    let mut kinds: Vec<String> = Vec::new();
    for line in inp.lines() {
        let line = line.unwrap();
        if line.is_empty() {
            continue;
        }
        let o: Value = serde_json::from_str(&line).unwrap();
        if o.get("reset").is_some() {
            t = PolicyTable::new();
            kinds = strs(&o["kinds"]);
            writeln!(out, "{}", json!({"reset": true})).unwrap();
            continue;
        }
        let r = catch_unwind(AssertUnwindSafe(|| exec(&mut t, &o)));
        let (res, why) = match r {
            Ok(Ok(())) => ("ok", "".to_string()),
            Ok(Err(TableError::StillInUse(_))) => ("err", "inuse".to_string()),
            Ok(Err(TableError::NotFound)) => ("err", "notfound".to_string()),
            Ok(Err(TableError::InvalidArgument(m))) => ("err", format!("invalid: {m}")),
            Ok(Err(TableError::AlreadyExists(m))) => ("err", format!("exists: {m}")),
            Err(_) => ("panic", "".to_string()),
        };
        let st = project(&t, &kinds);
        writeln!(out, "{}", json!({"res": res, "why": why, "state": st})).unwrap();
    }
    out.flush().unwrap();
}
