//! C03: wire decoders under fragmentation and structured corruption.
//!
//! usage: frame_replay stream <proto: bgp|bgpx|rtr> <in> <out>
//!            <in>: one transition of spec/Framing/FramingMC.tla per line {fs, fed, k, out0, out1, dead1, pos1}
//!        frame_replay sweep <seed> <budget> <out>
//!            structured corruption of valid messages under every codec variant (see `sweep`)
//!
//! Every decoder call runs under catch_unwind; the contract checked on EVERY call, whatever the input:
//!   Some(msg)  => bytes were consumed (the declared frame length), never zero
//!   None       => the buffer is untouched AND it does not hold a complete frame
//!   Err        => fine (maps to a NOTIFICATION / drop)

use std::io::{BufRead, BufWriter, Write};
use std::panic::{AssertUnwindSafe, catch_unwind};
use std::sync::Arc;

use bytes::BytesMut;
use rustybgp_packet as packet;
use rustybgp_packet::bgp::{self, Family, PathNlri};
use serde_json::{Value, json};
use tokio_util::codec::Decoder;
use verif_lib_harness::samples;

static PROGRESS: std::sync::atomic::AtomicU64 = std::sync::atomic::AtomicU64::new(0);
static CURRENT: std::sync::Mutex<Vec<u8>> = std::sync::Mutex::new(Vec::new());

thread_local! {
    static LAST_PANIC: std::cell::RefCell<String> = const { std::cell::RefCell::new(String::new()) };
}

#[derive(Debug, Clone, PartialEq)]
enum R {
    Msg(String),
    More,
    Err,
    Panic,
    Contract(String),
}

trait Dec {
    fn hdr(&self) -> usize;
    /// declared length of the first frame in buf (buf.len() >= hdr)
    fn declared(&self, buf: &[u8]) -> usize;
    fn min(&self) -> usize;
    fn max(&self) -> usize;
    fn call(&mut self, buf: &mut BytesMut) -> Result<Option<String>, ()>;
    /// frames of unknown type are passed over inside one call (RTR)
    fn skips(&self) -> bool {
        false
    }
}

struct BgpDec {
    codec: bgp::PeerCodec,
}
impl Dec for BgpDec {
    fn hdr(&self) -> usize {
        19
    }
    fn declared(&self, buf: &[u8]) -> usize {
        u16::from_be_bytes([buf[16], buf[17]]) as usize
    }
    fn min(&self) -> usize {
        19
    }
    fn max(&self) -> usize {
        self.codec.max_message_length()
    }
    fn call(&mut self, buf: &mut BytesMut) -> Result<Option<String>, ()> {
        match self.codec.try_parse(buf) {
            Ok(None) => Ok(None),
            Ok(Some(m)) => {
                let name = match &m {
                    bgp::ParsedMessage::Keepalive => "hdronly",
                    bgp::ParsedMessage::Update(_) => "good",
                    bgp::ParsedMessage::Open(_) => "open",
                    bgp::ParsedMessage::Notification(_) => "notification",
                    bgp::ParsedMessage::RouteRefresh { .. } => "refresh",
                };
                // the second stage must not panic either
                match bgp::validate_message(m, true) {
                    Ok(it) => {
                        let _ = it.count();
                    }
                    Err(_) => {}
                }
                Ok(Some(name.to_string()))
            }
            Err(_) => Err(()),
        }
    }
}

struct RtrDec {
    codec: packet::rpki::RtrCodec,
}
impl Dec for RtrDec {
    fn hdr(&self) -> usize {
        8
    }
    fn declared(&self, buf: &[u8]) -> usize {
        u32::from_be_bytes([buf[4], buf[5], buf[6], buf[7]]) as usize
    }
    fn min(&self) -> usize {
        8
    }
    fn max(&self) -> usize {
        1 << 16
    }
    fn skips(&self) -> bool {
        true
    }
    fn call(&mut self, buf: &mut BytesMut) -> Result<Option<String>, ()> {
        match self.codec.decode(buf) {
            Ok(None) => Ok(None),
            Ok(Some(m)) => Ok(Some(
                match m {
                    packet::rpki::Message::ResetQuery => "hdronly",
                    packet::rpki::Message::IpPrefix(_) => "good",
                    _ => "other",
                }
                .to_string(),
            )),
            Err(_) => Err(()),
        }
    }
}

/// One decoder call with the contract checked.
fn call(d: &mut dyn Dec, buf: &mut BytesMut) -> R {
    let before = buf.to_vec();
    PROGRESS.fetch_add(1, std::sync::atomic::Ordering::Relaxed);
    if let Ok(mut c) = CURRENT.try_lock() {
        c.clear();
        c.extend_from_slice(&before[..before.len().min(400)]);
    }
    let r = catch_unwind(AssertUnwindSafe(|| d.call(buf)));
    match r {
        Err(_) => R::Panic,
        Ok(Err(())) => R::Err,
        Ok(Ok(Some(m))) => {
            let consumed = before.len() - buf.len();
            if consumed == 0 {
                return R::Contract("message returned without consuming input".into());
            }
            if !d.skips() && (before.len() < d.hdr() || consumed != d.declared(&before)) {
                return R::Contract(format!("consumed {} bytes, frame declares {}", consumed, if before.len() >= d.hdr() { d.declared(&before) } else { 0 }));
            }
            if buf[..] != before[consumed..] {
                return R::Contract("remaining buffer is not the suffix of the input".into());
            }
            R::Msg(m)
        }
        Ok(Ok(None)) => {
            // frames of unknown type may have been skipped (RTR): look at what is left
            let rest = buf.to_vec();
            if !d.skips() && rest != before {
                return R::Contract("need-more after modifying the buffer".into());
            }
            if d.skips() && !before.ends_with(&rest) {
                return R::Contract("remaining buffer is not a suffix of the input".into());
            }
            if rest.len() >= d.hdr() {
                let l = d.declared(&rest);
                if l < d.min() || l > d.max() {
                    return R::Contract(format!("need-more for a length that cannot be a frame ({l})"));
                }
                if l <= rest.len() {
                    return R::Contract(format!("need-more although a complete frame of {l} bytes is buffered"));
                }
            }
            R::More
        }
    }
}

/// The driver loop: decode until the decoder asks for more or fails.
fn drain(d: &mut dyn Dec, buf: &mut BytesMut, out: &mut Vec<String>) -> Result<bool, String> {
    for _ in 0..64 {
        match call(d, buf) {
            R::Msg(m) => out.push(m),
            R::More => return Ok(false),
            R::Err => {
                out.push("err".into());
                return Ok(true);
            }
            R::Panic => return Err(format!("panic at {}", LAST_PANIC.with(|p| p.borrow().clone()))),
            R::Contract(m) => return Err(m),
        }
    }
    Err("decode loop does not terminate".into())
}

// ---- concrete frames ------------------------------------------------------------------------------

fn bgp_hdr(len: u16, typ: u8) -> Vec<u8> {
    let mut v = vec![0xffu8; 16];
    v.extend_from_slice(&len.to_be_bytes());
    v.push(typ);
    v
}

fn bgp_update() -> Vec<u8> {
    let (mut tx, _) = samples::codec_pair(&[Family::IPV4], true, false, false, false);
    let msg = bgp::Message::Update(bgp::Update::Reach {
        family: Family::IPV4,
        entries: samples::nlri_samples(Family::IPV4).into_iter().map(|n| PathNlri { path_id: 0, nlri: n }).collect(),
        nexthop: samples::nexthop_for(Family::IPV4),
        attr: Arc::new(samples::base_attrs()),
    });
    let mut b = BytesMut::new();
    tx.encode_to(&msg, &mut b).expect("encode");
    b.to_vec()
}

/// (bytes, unit end offsets) for a frame of class `cl`
fn frame(proto: &str, cl: &str) -> (Vec<u8>, Vec<usize>) {
    let rtr = proto == "rtr";
    let bytes: Vec<u8> = if !rtr {
        match cl {
            "hdronly" => bgp_hdr(19, 4),
            "good" | "trunc" => bgp_update(),
            "badbody" => {
                let mut v = bgp_hdr(19 + 6, 2);
                v.extend_from_slice(&[0xff, 0x00, 0, 0, 0, 0]); // withdrawn length far beyond the message
                v
            }
            "short" => {
                let mut v = bgp_hdr(18, 4);
                v.extend_from_slice(&[0u8; 10]);
                v
            }
            "long" => {
                let mut v = bgp_hdr(4097, 2);
                v.extend_from_slice(&[0u8; 10]);
                v
            }
            x => panic!("harness: class {x}"),
        }
    } else {
        let pdu = |typ: u8, len: u32, body: &[u8]| {
            let mut v = vec![1u8, typ, 0, 0];
            v.extend_from_slice(&len.to_be_bytes());
            v.extend_from_slice(body);
            v
        };
        match cl {
            "hdronly" => pdu(2, 8, &[]),
            "good" | "trunc" => pdu(4, 20, &[1, 24, 24, 0, 10, 0, 0, 0, 0, 0, 0xfd, 0xe8]),
            "badbody" => pdu(4, 12, &[1, 24, 24, 0]),
            "short" => pdu(4, 7, &[0u8; 10]),
            "long" => pdu(4, 65537, &[0u8; 10]),
            "skip" => pdu(9, 12, &[1, 2, 3, 4]),
            x => panic!("harness: class {x}"),
        }
    };
    let h = if rtr { 8 } else { 19 };
    let c1 = if rtr { 5 } else { 17 };
    let l = bytes.len();
    let units = if cl == "hdronly" { vec![c1, l] } else { vec![c1, h, h + (l - h) / 2, l] };
    (bytes, units)
}

fn stream(proto: &str, inp: &str, outp: &str) {
    let inp = std::io::BufReader::new(std::fs::File::open(inp).expect("open input"));
    let mut out = BufWriter::new(std::fs::File::create(outp).expect("create output"));
    let mut n = 0u64;
    for (idx, line) in inp.lines().enumerate() {
        let line = line.unwrap();
        if line.is_empty() {
            continue;
        }
        let j: Value = serde_json::from_str(&line).unwrap();
        let fs: Vec<String> = j["fs"].as_array().unwrap().iter().map(|x| x.as_str().unwrap().to_string()).collect();
        if proto == "bgpx" && fs.iter().any(|c| c == "long") {
            continue; // no 16-bit length exceeds the extended maximum
        }
        let mut wire = Vec::new();
        let mut offs = vec![0usize]; // byte offset after u units
        for cl in &fs {
            let (b, units) = frame(proto, cl);
            let base = wire.len();
            for u in &units {
                offs.push(base + u);
            }
            wire.extend_from_slice(&b);
        }
        let fed = j["fed"].as_u64().unwrap() as usize;
        let k = j["k"].as_u64().unwrap() as usize;
        let mut d: Box<dyn Dec> = match proto {
            "rtr" => Box::new(RtrDec { codec: packet::rpki::RtrCodec::new() }),
            "bgpx" => Box::new(BgpDec { codec: samples::codec_pair(&[Family::IPV4], true, false, true, false).1 }),
            _ => Box::new(BgpDec { codec: samples::codec_pair(&[Family::IPV4], true, false, false, false).1 }),
        };
        let mut buf = BytesMut::new();
        let mut got: Vec<String> = Vec::new();
        let mut bad: Option<String> = None;
        let mut dead = false;
        n += 1;
        for (a, b, exp) in [(0usize, fed, &j["out0"]), (fed, fed + k, &j["out1"])] {
            if b > a && !dead {
                buf.extend_from_slice(&wire[offs[a]..offs[b]]);
                match drain(d.as_mut(), &mut buf, &mut got) {
                    Ok(x) => dead = x,
                    Err(m) => {
                        bad = Some(m);
                        break;
                    }
                }
            }
            let e: Vec<String> = exp.as_array().unwrap().iter().map(|x| x.as_str().unwrap().to_string()).collect();
            if got != e {
                bad = Some(format!("delivered {:?}, the stream so far requires {:?}", got, e));
                break;
            }
        }
        if bad.is_none() && !dead {
            let consumed = offs[fed + k] - buf.len();
            if consumed != offs[j["pos1"].as_u64().unwrap() as usize] {
                bad = Some(format!("consumed {} bytes, expected {}", consumed, offs[j["pos1"].as_u64().unwrap() as usize]));
            }
        }
        if bad.is_none() && dead != j["dead1"].as_bool().unwrap() {
            bad = Some(format!("session error={}, expected {}", dead, j["dead1"]));
        }
        if let Some(m) = bad {
            writeln!(out, "{}", json!({"i": idx, "proto": proto, "fs": fs, "fed": fed, "k": k, "what": m})).unwrap();
        }
    }
    writeln!(out, "{}", json!({"summary": {"transitions": n}})).unwrap();
    out.flush().unwrap();
}

// ---- structured corruption sweep ---------------------------------------------------------------------
//
// For every family x codec variant (2/4-octet AS, add-path, extended message, extended next hop) a valid UPDATE
// (announcement with all attribute samples, and a withdrawal), an OPEN with every capability kind, a NOTIFICATION and a
// ROUTE-REFRESH are encoded by the real encoder; then EVERY byte is replaced in turn by each of the boundary values
// {0, 1, 0x7f, 0x80, 0xff, b+1, b-1}, every 16-bit aligned pair by {0xffff, 0xfffe, 0x7fff, 0x8000, len-ish}, and the
// message is truncated at every length (with and without fixing the header length).  Each variant is fed whole and byte
// by byte.  RTR PDUs and BFD packets get the same treatment.

struct Finding {
    kind: String,
    what: String,
    proto: String,
    hex: String,
}

fn hex(b: &[u8]) -> String {
    b.iter().map(|x| format!("{:02x}", x)).collect()
}

fn check_stream(d: &mut dyn Dec, proto: &str, bytes: &[u8], bytewise: bool, findings: &mut Vec<Finding>, seen: &mut std::collections::HashSet<String>) -> Vec<String> {
    let mut buf = BytesMut::new();
    let mut out = Vec::new();
    let chunks: Vec<&[u8]> = if bytewise { bytes.chunks(1).collect() } else { vec![bytes] };
    for c in chunks {
        buf.extend_from_slice(c);
        match drain(d, &mut buf, &mut out) {
            Ok(true) => break,
            Ok(false) => {}
            Err(m) => {
                // one report per distinct failure (panic site / contract clause), not per codec variant
                let class = if proto.starts_with("bgp") { "bgp" } else { proto };
                let key = format!("{class}:{}", m.split(" (").next().unwrap_or(&m));
                if seen.insert(key) {
                    findings.push(Finding { kind: if m.starts_with("panic") { "panic".into() } else { "contract".into() }, what: m, proto: proto.into(), hex: hex(bytes) });
                }
                out.push("!".into());
                break;
            }
        }
    }
    out
}

fn mutations(base: &[u8], rng: &mut u64, budget: usize) -> Vec<Vec<u8>> {
    let mut v: Vec<Vec<u8>> = Vec::new();
    let n = base.len();
    for i in 0..n {
        let b = base[i];
        for x in [0u8, 1, 0x7f, 0x80, 0xff, b.wrapping_add(1), b.wrapping_sub(1)] {
            if x != b {
                let mut m = base.to_vec();
                m[i] = x;
                v.push(m);
            }
        }
    }
    for i in 0..n.saturating_sub(1) {
        for x in [0xffffu16, 0xfffe, 0x7fff, 0x8000, (n - i) as u16, (n - i - 2) as u16] {
            let mut m = base.to_vec();
            m[i..i + 2].copy_from_slice(&x.to_be_bytes());
            v.push(m);
        }
    }
    for l in 0..n {
        v.push(base[..l].to_vec());
    }
    // two sites at once (nested length fields disagreeing): a seeded sample
    for _ in 0..(n * 4).min(budget) {
        let mut m = base.to_vec();
        for _ in 0..2 {
            *rng = rng.wrapping_mul(6364136223846793005).wrapping_add(1442695040888963407);
            let i = ((*rng >> 33) as usize) % n;
            let vals = [0u8, 1, 0x7f, 0x80, 0xff, m[i].wrapping_add(1), m[i].wrapping_sub(1), (n - i) as u8];
            m[i] = vals[((*rng >> 20) as usize) % vals.len()];
        }
        v.push(m);
    }
    // down-sample deterministically to the budget
    if v.len() > budget {
        let mut keep = Vec::with_capacity(budget);
        let total = v.len();
        for (i, m) in v.into_iter().enumerate() {
            *rng = rng.wrapping_mul(6364136223846793005).wrapping_add(1442695040888963407);
            if ((*rng >> 33) as usize) % total < budget || i % (total / budget.max(1)).max(1) == 0 {
                keep.push(m);
            }
        }
        keep
    } else {
        v
    }
}

/// Structure-aware truncation of an UPDATE: one attribute's value is cut to k octets and EVERY enclosing length field (the
/// attribute's own, the Total Path Attribute Length, the header) is made consistent again, so that the decoder gets as
/// far as the cut value itself.  MP_REACH_NLRI / MP_UNREACH_NLRI are cut at every offset of their first 72 octets (family,
/// next-hop length, next hop, reserved octet, first NLRI), the other attributes at 0, 1 and len-1.
fn structured(base: &[u8]) -> Vec<Vec<u8>> {
    let mut v = Vec::new();
    if base.len() < 23 || base[18] != 2 {
        return v;
    }
    let wlen = u16::from_be_bytes([base[19], base[20]]) as usize;
    let tal_at = 21 + wlen;
    if tal_at + 2 > base.len() {
        return v;
    }
    let alen = u16::from_be_bytes([base[tal_at], base[tal_at + 1]]) as usize;
    let (a0, end) = (tal_at + 2, tal_at + 2 + alen);
    if end > base.len() {
        return v;
    }
    let mut i = a0;
    while i + 3 <= end {
        let (flags, code) = (base[i], base[i + 1]);
        let ext = flags & 0x10 != 0;
        let (vlen, vs) = if ext {
            if i + 4 > end {
                break;
            }
            (u16::from_be_bytes([base[i + 2], base[i + 3]]) as usize, i + 4)
        } else {
            (base[i + 2] as usize, i + 3)
        };
        if vs + vlen > end {
            break;
        }
        let cuts: Vec<usize> = if code == 14 || code == 15 {
            (0..vlen.min(72)).collect()
        } else {
            let mut c = vec![0usize, 1, vlen.saturating_sub(1)];
            c.retain(|k| *k < vlen);
            c.dedup();
            c
        };
        for k in cuts {
            let mut m = base[..vs + k].to_vec();
            m.extend_from_slice(&base[vs + vlen..]);
            if ext {
                m[i + 2..i + 4].copy_from_slice(&(k as u16).to_be_bytes());
            } else {
                m[i + 2] = k as u8;
            }
            let nal = (alen - (vlen - k)) as u16;
            m[tal_at..tal_at + 2].copy_from_slice(&nal.to_be_bytes());
            let l = m.len() as u16;
            m[16..18].copy_from_slice(&l.to_be_bytes());
            v.push(m);
        }
        i = vs + vlen;
    }
    v
}

/// Label stacks deeper than the NLRI length octet can describe.  The first label of the message's first labeled / VPN NLRI
/// (the samples start with label 100, bottom-of-stack: 00 06 41) gets n copies of itself in front of it, without the
/// bottom-of-stack bit; the enclosing attribute length, the Total Path Attribute Length and the header are repaired, the NLRI's
/// own length octet is left as it was or set to 255.  Eight labels are 192 bits - with a route distinguisher more than an
/// octet holds; eleven are 264.
fn deep_stacks(base: &[u8]) -> Vec<Vec<u8>> {
    let mut v = Vec::new();
    if base.len() < 23 || base[18] != 2 {
        return v;
    }
    let wlen = u16::from_be_bytes([base[19], base[20]]) as usize;
    let tal_at = 21 + wlen;
    if tal_at + 2 > base.len() {
        return v;
    }
    let alen = u16::from_be_bytes([base[tal_at], base[tal_at + 1]]) as usize;
    let (a0, end) = (tal_at + 2, tal_at + 2 + alen);
    if end > base.len() {
        return v;
    }
    let mut i = a0;
    while i + 3 <= end {
        let (flags, code) = (base[i], base[i + 1]);
        let ext = flags & 0x10 != 0;
        let (vlen, vs) = if ext { (u16::from_be_bytes([base[i + 2], base[i + 3]]) as usize, i + 4) } else { (base[i + 2] as usize, i + 3) };
        if vs + vlen > end {
            break;
        }
        if code == 14 {
            if let Some(rel) = base[vs..vs + vlen].windows(3).position(|w| w == [0, 6, 0x41]) {
                let at = vs + rel;
                for n in [6usize, 7, 8, 10, 11, 31, 32, 84] {
                    let grow = 3 * n;
                    if !ext && vlen + grow > 255 {
                        continue;
                    }
                    if vlen + grow > 65000 || base.len() + grow > 65535 {
                        continue;
                    }
                    for full in [false, true] {
                        let mut m = base[..at].to_vec();
                        for _ in 0..n {
                            m.extend_from_slice(&[0, 6, 0x40]);
                        }
                        m.extend_from_slice(&base[at..]);
                        if full {
                            m[at - 1] = 0xff;
                        }
                        if ext {
                            m[i + 2..i + 4].copy_from_slice(&((vlen + grow) as u16).to_be_bytes());
                        } else {
                            m[i + 2] = (vlen + grow) as u8;
                        }
                        m[tal_at..tal_at + 2].copy_from_slice(&((alen + grow) as u16).to_be_bytes());
                        let l = m.len() as u16;
                        m[16..18].copy_from_slice(&l.to_be_bytes());
                        v.push(m);
                    }
                }
            }
            break;
        }
        i = vs + vlen;
    }
    v
}

fn fix_bgp_len(m: &mut Vec<u8>) {
    if m.len() >= 19 {
        let l = m.len() as u16;
        m[16..18].copy_from_slice(&l.to_be_bytes());
    }
}

fn sweep(seed: u64, budget: usize, outp: &str) {
    let mut out = BufWriter::new(std::fs::File::create(outp).expect("create output"));
    let mut rng = seed.wrapping_mul(0x9E3779B97F4A7C15) | 1;
    let mut findings: Vec<Finding> = Vec::new();
    let mut seen = std::collections::HashSet::new();
    let mut calls = 0u64;
    let mut variants = 0u64;
    let mut frag_mismatch = 0u64;
    for family in samples::families() {
        for as4 in [true, false] {
            for addpath in [false, true] {
                for ext in [false, true] {
                    let enh = ext && addpath; // one combination with the extended next hop
                    let fams = vec![family, Family::IPV4];
                    let (mut tx, _) = samples::codec_pair(&fams, as4, addpath, ext, enh);
                    let entries: Vec<PathNlri> = samples::nlri_samples(family).into_iter().enumerate().map(|(i, n)| PathNlri { path_id: if addpath { i as u32 + 1 } else { 0 }, nlri: n }).collect();
                    let mut attrs = samples::attr_samples();
                    if attrs.is_empty() {
                        attrs = samples::base_attrs();
                    }
                    let nh = if enh && family == Family::IPV4 { Some(samples::nexthop_v6()) } else { samples::nexthop_for(family) };
                    let msgs = vec![
                        bgp::Message::Update(bgp::Update::Reach { family, entries: entries.clone(), nexthop: nh, attr: Arc::new(attrs) }),
                        bgp::Message::Update(bgp::Update::Unreach { family, entries }),
                    ];
                    for msg in msgs {
                        let mut b = BytesMut::new();
                        if tx.encode_to(&msg, &mut b).is_err() {
                            continue;
                        }
                        let base = b.to_vec();
                        let proto = format!("bgp/{}/as4={}/addpath={}/ext={}/enh={}", samples::family_name(family), as4, addpath, ext, enh);
                        let mut muts = mutations(&base, &mut rng, budget);
                        muts.extend(structured(&base));
                        muts.extend(deep_stacks(&base));
                        for mut m in muts {
                            for fix in [false, true] {
                                if fix {
                                    fix_bgp_len(&mut m);
                                }
                                variants += 1;
                                let mut outs = Vec::new();
                                for bytewise in [false, true] {
                                    let mut d = BgpDec { codec: samples::codec_pair(&fams, as4, addpath, ext, enh).1 };
                                    outs.push(check_stream(&mut d, &proto, &m, bytewise, &mut findings, &mut seen));
                                    calls += 1;
                                }
                                if outs[0] != outs[1] && !outs[0].contains(&"!".to_string()) && !outs[1].contains(&"!".to_string()) {
                                    frag_mismatch += 1;
                                    if seen.insert("bgp:frag".to_string()) {
                                        findings.push(Finding { kind: "fragmentation".into(), what: format!("whole {:?} / byte-wise {:?}", outs[0], outs[1]), proto: proto.clone(), hex: hex(&m) });
                                    }
                                }
                            }
                        }
                    }
                }
            }
        }
    }
    // OPEN / NOTIFICATION / ROUTE-REFRESH
    {
        // (a capability list that fits the one-octet optional-parameter length; larger lists are C04's subject)
        let (local, _remote) = samples::capability_lists(&samples::families()[..6], true, true, true, true);
        let mut caps = local;
        caps.push(bgp::Capability::GracefulRestart { flags: 0x4, restart_time: 120, families: vec![(Family::IPV4, 0x80), (Family::IPV6, 0)] });
        caps.push(bgp::Capability::LongLivedGracefulRestart(vec![(Family::IPV4, 0x80, 300)]));
        caps.push(bgp::Capability::RouteRefresh);
        caps.push(bgp::Capability::EnhancedRouteRefresh);
        caps.push(bgp::Capability::Fqdn { hostname: "host".into(), domain: "example.org".into() });
        caps.push(bgp::Capability::Unknown { code: 200, bin: vec![1, 2, 3] });
        let msgs = vec![
            bgp::Message::Open(bgp::Open { as_number: 4200000001, holdtime: bgp::HoldTime::new(90).unwrap(), router_id: 0x01020304, capability: caps }),
            bgp::Message::Notification(packet::Notification::CeaseAdministrativeReset),
            bgp::Message::RouteRefresh { family: Family::IPV6 },
            bgp::Message::Keepalive,
        ];
        for msg in msgs {
            let mut tx = bgp::PeerCodec::new();
            let mut b = BytesMut::new();
            if !matches!(catch_unwind(AssertUnwindSafe(|| tx.encode_to(&msg, &mut b).is_ok())), Ok(true)) {
                eprintln!("harness: control message does not encode");
                continue;
            }
            let base = b.to_vec();
            for mut m in mutations(&base, &mut rng, budget * 4) {
                for fix in [false, true] {
                    if fix {
                        fix_bgp_len(&mut m);
                    }
                    variants += 1;
                    for bytewise in [false, true] {
                        let mut d = BgpDec { codec: bgp::PeerCodec::new() };
                        check_stream(&mut d, "bgp/control", &m, bytewise, &mut findings, &mut seen);
                        calls += 1;
                    }
                }
            }
        }
    }
    // RTR
    {
        let pdu = |typ: u8, sess: u16, body: &[u8]| {
            let mut v = vec![1u8, typ];
            v.extend_from_slice(&sess.to_be_bytes());
            v.extend_from_slice(&((8 + body.len()) as u32).to_be_bytes());
            v.extend_from_slice(body);
            v
        };
        let mut v6 = vec![1u8, 48, 64, 0];
        v6.extend_from_slice(&[0x20, 1, 0xd, 0xb8, 0, 0, 0, 0, 0, 0, 0, 0, 0, 0, 0, 0]);
        v6.extend_from_slice(&64502u32.to_be_bytes());
        let mut err = 2u32.to_be_bytes().to_vec();
        err.extend_from_slice(&[1, 2]);
        err.extend_from_slice(&3u32.to_be_bytes());
        err.extend_from_slice(b"bad");
        let bases = vec![
            pdu(0, 7, &1u32.to_be_bytes()),
            pdu(1, 7, &1u32.to_be_bytes()),
            pdu(2, 0, &[]),
            pdu(3, 7, &[]),
            pdu(4, 0, &[1, 24, 24, 0, 10, 0, 0, 0, 0, 0, 0xfd, 0xe8]),
            pdu(6, 0, &v6),
            pdu(7, 7, &[0, 0, 0, 9, 0, 0, 14, 16, 0, 0, 2, 88, 0, 0, 28, 32]),
            pdu(8, 0, &[]),
            pdu(9, 0, &[1, 2, 3, 4]),
            pdu(10, 2, &err),
        ];
        for base in bases {
            // followed by a second PDU so that framing errors show as a lost / duplicated PDU
            let mut two = base.clone();
            two.extend_from_slice(&pdu(2, 0, &[]));
            for m in mutations(&two, &mut rng, budget * 4) {
                variants += 1;
                let mut outs = Vec::new();
                for bytewise in [false, true] {
                    let mut d = RtrDec { codec: packet::rpki::RtrCodec::new() };
                    outs.push(check_stream(&mut d, "rtr", &m, bytewise, &mut findings, &mut seen));
                    calls += 1;
                }
                if outs[0] != outs[1] && !outs[0].contains(&"!".to_string()) && !outs[1].contains(&"!".to_string()) {
                    frag_mismatch += 1;
                    if seen.insert("rtr:frag".to_string()) {
                        findings.push(Finding { kind: "fragmentation".into(), what: format!("whole {:?} / byte-wise {:?}", outs[0], outs[1]), proto: "rtr".into(), hex: hex(&m) });
                    }
                }
            }
        }
    }
    // BFD (datagrams)
    {
        let base: Vec<u8> = vec![0x20, 0xc0, 3, 24, 0, 0, 0, 1, 0, 0, 0, 2, 0, 0xf, 0x42, 0x40, 0, 0xf, 0x42, 0x40, 0, 0, 0, 0];
        let mut cases = mutations(&base, &mut rng, usize::MAX);
        for extra in 1..=8 {
            let mut m = base.clone();
            m.extend(std::iter::repeat(0u8).take(extra));
            cases.push(m.clone());
            m[3] = (24 + extra) as u8;
            cases.push(m);
        }
        for m in cases {
            variants += 1;
            calls += 1;
            if catch_unwind(AssertUnwindSafe(|| packet::bfd::Message::decode(&m).is_ok())).is_err() {
                let w = format!("panic at {}", LAST_PANIC.with(|p| p.borrow().clone()));
                if seen.insert(format!("bfd:{w}")) {
                    findings.push(Finding { kind: "panic".into(), what: w, proto: "bfd".into(), hex: hex(&m) });
                }
            }
        }
    }
    for f in &findings {
        writeln!(out, "{}", json!({"kind": f.kind, "what": f.what, "proto": f.proto, "hex": f.hex})).unwrap();
    }
    writeln!(out, "{}", json!({"summary": {"variants": variants, "decoder_runs": calls, "fragmentation_mismatches": frag_mismatch}})).unwrap();
    out.flush().unwrap();
}

fn main() {
    let args: Vec<String> = std::env::args().collect();
    // panics inside the decoders are data; panics of the harness itself must be visible
    std::panic::set_hook(Box::new(|info| {
        let loc = info.location().map(|l| l.file().to_string()).unwrap_or_default();
        LAST_PANIC.with(|p| *p.borrow_mut() = info.location().map(|l| format!("{}:{}", l.file(), l.line())).unwrap_or_default());
        if std::env::var("VERIF_PANICS").is_ok() || loc.contains("frame_replay") || loc.contains("samples") {
            eprintln!("harness panic: {info}");
        }
    }));
    // the decoders run on a worker thread; a call that never returns ("wedge") is reported instead of hanging the check
    let a2 = args.clone();
    let worker = std::thread::spawn(move || match a2[1].as_str() {
        "stream" => stream(&a2[2], &a2[3], &a2[4]),
        "sweep" => sweep(a2[2].parse().unwrap(), a2[3].parse().unwrap(), &a2[4]),
        x => panic!("mode {x}"),
    });
    let outp = if args[1] == "stream" { args[4].clone() } else { args[4].clone() };
    let mut last = 0u64;
    let mut stale = 0u32;
    loop {
        std::thread::sleep(std::time::Duration::from_millis(200));
        if worker.is_finished() {
            if worker.join().is_err() {
                std::process::exit(101);
            }
            return;
        }
        let p = PROGRESS.load(std::sync::atomic::Ordering::Relaxed);
        if p == last {
            stale += 1;
        } else {
            stale = 0;
            last = p;
        }
        if stale >= 50 {
            // 10 s inside one decoder call
            let cur = hex(&CURRENT.lock().map(|c| c.clone()).unwrap_or_default());
            let mut f = std::fs::OpenOptions::new().create(true).write(true).truncate(true).open(&outp).expect("open output");
            writeln!(f, "{}", json!({"kind": "wedge", "what": "a decoder call does not return (loops without consuming input)", "proto": args[2].clone(), "hex": cur, "fs": [], "fed": 0, "k": 0})).unwrap();
            writeln!(f, "{}", json!({"summary": {"wedged": true}})).unwrap();
            std::process::exit(0);
        }
    }
}
