//! C14: replays the (policy, route) cases of spec/Policy/PolicyMC.tla on the real PolicyTable /
//! apply_import, with the W-bit prefix space embedded at an IPv4 and an IPv6 bit offset.
//!
//! usage: policy_replay <in> <out>     (<in>: one case JSON per line, as emitted by TLC)

use std::collections::HashMap;
use std::io::{BufRead, BufWriter, Write};
use std::net::{IpAddr, Ipv4Addr, Ipv6Addr};
use std::panic::{AssertUnwindSafe, catch_unwind};
use std::sync::Arc;

use rustybgp_packet as packet;
use rustybgp_packet::bgp::Attribute;
use rustybgp_table as table;
use serde_json::{Value, json};
use table::{Actions, ConditionConfig, DefinedSetConfig, Disposition, MatchOption, PolicyDirection, PolicyTable, PrefixConfig};

#[derive(Clone, Copy)]
struct Emb {
    v6: bool,
    off: u32,
}

fn embed(e: Emb, len: u32, val: u32) -> (IpAddr, u8) {
    if e.v6 {
        let base: u128 = 0x2001_0db8_5a5a_a5a5_3c3c_c3c3_0f0f_f0f0;
        let keep = if e.off == 0 { 0 } else { base & (u128::MAX << (128 - e.off)) };
        let v = if len == 0 { 0 } else { (val as u128) << (128 - e.off - len) };
        (IpAddr::V6(Ipv6Addr::from(keep | v)), (e.off + len) as u8)
    } else {
        let base: u32 = 0xAC5A_A53C;
        let keep = if e.off == 0 { 0 } else { base & (u32::MAX << (32 - e.off)) };
        let v = if len == 0 { 0 } else { val << (32 - e.off - len) };
        (IpAddr::V4(Ipv4Addr::from(keep | v)), (e.off + len) as u8)
    }
}

/// the catalogue of spec/Policy/Policy.tla: name -> entries (len, val, min, max)
fn prefix_sets() -> Vec<(&'static str, Vec<(u32, u32, u32, u32)>)> {
    vec![
        ("ps1", vec![(1, 0, 1, 3), (2, 1, 3, 3)]),
        ("ps2", vec![(2, 2, 2, 2)]),
        ("ps3", vec![(0, 0, 1, 2)]),
        ("ps4", vec![(2, 0, 1, 3)]),
        ("ps5", vec![(1, 1, 1, 1), (2, 2, 2, 3), (3, 7, 3, 3)]),
        ("ps6", vec![(0, 0, 0, 0), (1, 1, 2, 3)]),
        ("ps7", vec![(0, 0, 3, 3), (2, 1, 2, 2)]),
    ]
}

fn aspath_sets() -> Vec<(&'static str, Vec<&'static str>)> {
    vec![
        ("as1", vec!["_65001$"]),
        ("as2", vec!["^65002_"]),
        ("as3", vec!["_65003_", "_65001$"]),
        ("as4", vec!["^65001$"]),
    ]
}

fn comm_sets() -> Vec<(&'static str, Vec<&'static str>)> {
    vec![("cs1", vec!["65000:1"]), ("cs2", vec!["65000:1", "65000:2"]), ("cs3", vec!["65000:1."]), ("cs4", vec!["65000:12[0-9]", "65000:2"])]
}

fn new_table(e: Emb) -> PolicyTable {
    let mut t = PolicyTable::new();
    for (name, entries) in prefix_sets() {
        let prefixes = entries
            .iter()
            .map(|(l, v, mn, mx)| {
                let (a, m) = embed(e, *l, *v);
                PrefixConfig { ip_prefix: format!("{}/{}", a, m), mask_length_min: (e.off + mn) as u8, mask_length_max: (e.off + mx) as u8 }
            })
            .collect();
        t.add_defined_set(DefinedSetConfig::Prefix { name: name.to_string(), prefixes }).map_err(|_| ()).expect("prefix set");
    }
    for (name, pats) in aspath_sets() {
        t.add_defined_set(DefinedSetConfig::AsPath { name: name.to_string(), patterns: pats.iter().map(|s| s.to_string()).collect() })
            .map_err(|_| ())
            .expect("aspath set");
    }
    for (name, pats) in comm_sets() {
        t.add_defined_set(DefinedSetConfig::Community { name: name.to_string(), patterns: pats.iter().map(|s| s.to_string()).collect() })
            .map_err(|_| ())
            .expect("community set");
    }
    t
}

fn opt(s: &str) -> MatchOption {
    match s {
        "any" => MatchOption::Any,
        "all" => MatchOption::All,
        _ => MatchOption::Invert,
    }
}

fn cond(c: &Value) -> ConditionConfig {
    match c["k"].as_str().unwrap() {
        "prefix" => ConditionConfig::PrefixSet(c["set"].as_str().unwrap().into(), opt(c["opt"].as_str().unwrap())),
        "aspath" => ConditionConfig::AsPathSet(c["set"].as_str().unwrap().into(), opt(c["opt"].as_str().unwrap())),
        "community" => ConditionConfig::CommunitySet(c["set"].as_str().unwrap().into(), opt(c["opt"].as_str().unwrap())),
        "aslen" => ConditionConfig::AsPathLength(
            match c["cmp"].as_str().unwrap() {
                "eq" => table::Comparison::Eq,
                "ge" => table::Comparison::Ge,
                _ => table::Comparison::Le,
            },
            c["n"].as_u64().unwrap() as u32,
        ),
        x => panic!("harness: cond {x}"),
    }
}

fn build(e: Emb, pol: &Value) -> Result<Arc<table::PolicyAssignment>, String> {
    let mut t = new_table(e);
    let mut names = Vec::new();
    for (i, st) in pol["stmts"].as_array().unwrap().iter().enumerate() {
        let name = format!("st{}", i);
        let conds: Vec<ConditionConfig> = st["conds"].as_array().unwrap().iter().map(cond).collect();
        let disp = match st["disp"].as_str().unwrap() {
            "accept" => Some(Disposition::Accept),
            "reject" => Some(Disposition::Reject),
            _ => None,
        };
        let mut actions = Actions::default();
        match st["act"].as_str().unwrap() {
            "lp200" => actions.local_pref = Some(table::LocalPrefAction { value: 200 }),
            "addc3" => {
                actions.community = Some(table::CommunityAction {
                    action_type: table::CommunityActionType::Add,
                    communities: vec![(65000u32 << 16) | 3],
                })
            }
            "commset" => {
                actions.community = Some(table::CommunityAction { action_type: table::CommunityActionType::Replace, communities: vec![(65000u32 << 16) | 4] })
            }
            "commrm" => {
                actions.community = Some(table::CommunityAction { action_type: table::CommunityActionType::Remove, communities: vec![(65000u32 << 16) | 1] })
            }
            "medadd" => actions.med = Some(table::MedAction { action_type: table::MedActionType::Mod, value: 50 }),
            "medsub" => actions.med = Some(table::MedAction { action_type: table::MedActionType::Mod, value: -10 }),
            "medset" => actions.med = Some(table::MedAction { action_type: table::MedActionType::Replace, value: 7 }),
            "prep2" => actions.as_prepend = Some(table::AsPrependAction { asn: 65009, repeat: 2, use_left_most: false }),
            "nhset" => actions.nexthop = Some(table::NexthopAction::Address(IpAddr::V4(Ipv4Addr::new(198, 51, 100, 9)))),
            _ => {}
        }
        t.add_statement(&name, conds, disp, actions).map_err(|_| "add_statement rejected".to_string())?;
        names.push(name);
    }
    t.add_policy("pol", names).map_err(|_| "add_policy rejected".to_string())?;
    let default = if pol["default"] == "accept" { Disposition::Accept } else { Disposition::Reject };
    let (_, a) = t
        .add_assignment("global", PolicyDirection::Import, default, vec!["pol".to_string()])
        .map_err(|_| "add_assignment rejected".to_string())?;
    Ok(a)
}

fn aspath(name: &str) -> Vec<u8> {
    let seg = |t: u8, asns: &[u32]| -> Vec<u8> {
        let mut v = vec![t, asns.len() as u8];
        for a in asns {
            v.extend_from_slice(&a.to_be_bytes());
        }
        v
    };
    match name {
        "empty" => vec![],
        "a1" => seg(2, &[65001]),
        "a21" => seg(2, &[65002, 65001]),
        "a32" => seg(2, &[65003, 65002]),
        "a13" => seg(2, &[65001, 65003]),
        "s1" => seg(1, &[65001]),
        "a2e" => {
            let mut v = seg(2, &[65002]);
            v.extend(seg(2, &[]));
            v
        }
        x => panic!("harness: aspath {x}"),
    }
}

fn main() {
    let args: Vec<String> = std::env::args().collect();
    let inp = std::io::BufReader::new(std::fs::File::open(&args[1]).expect("open input"));
    let mut out = BufWriter::new(std::fs::File::create(&args[2]).expect("create output"));
    std::panic::set_hook(Box::new(|_| {}));
    // offset 0: the model's whole-space entries are the default routes 0.0.0.0/0 and ::/0
    let embs = [Emb { v6: false, off: 21 }, Emb { v6: false, off: 8 }, Emb { v6: true, off: 61 }, Emb { v6: false, off: 0 }, Emb { v6: true, off: 0 }];
    let source = Arc::new(table::Source::new(
        IpAddr::V4(Ipv4Addr::new(10, 0, 0, 1)),
        IpAddr::V4(Ipv4Addr::new(10, 0, 0, 254)),
        65002,
        65000,
        Ipv4Addr::new(1, 1, 1, 1),
        table::PeerRole::Ebgp,
    ));
    let mut cache: HashMap<(String, usize), Result<Arc<table::PolicyAssignment>, String>> = HashMap::new();
    let mut n = 0u64;
    let mut mism = 0u64;
    // at most two reports per (policy, kind): the cases are grouped by policy
    let mut per: HashMap<(String, String), u32> = HashMap::new();
    let mut quota = |per: &mut HashMap<(String, String), u32>, pol: &str, kind: &str| -> bool {
        let c = per.entry((pol.to_string(), kind.to_string())).or_insert(0);
        *c += 1;
        *c <= 2
    };
    for (idx, line) in inp.lines().enumerate() {
        let line = line.unwrap();
        if line.is_empty() {
            continue;
        }
        let j: Value = serde_json::from_str(&line).unwrap();
        let polkey = j["pol"].to_string();
        for (ei, e) in embs.iter().enumerate() {
            n += 1;
            let asg = cache.entry((polkey.clone(), ei)).or_insert_with(|| build(*e, &j["pol"])).clone();
            let asg = match asg {
                Ok(a) => a,
                Err(msg) => {
                    mism += 1;
                    if mism <= 60 {
                        writeln!(out, "{}", json!({"i": idx, "emb": ei, "kind": "build", "detail": msg})).unwrap();
                    }
                    continue;
                }
            };
            let r = &j["r"];
            let (addr, mask) = embed(*e, r["p"]["len"].as_u64().unwrap() as u32, r["p"]["val"].as_u64().unwrap() as u32);
            let net = match addr {
                IpAddr::V4(a) => packet::Nlri::V4(packet::bgp::Ipv4Net { addr: a, mask }),
                IpAddr::V6(a) => packet::Nlri::V6(packet::bgp::Ipv6Net { addr: a, mask }),
            };
            let mut attrs = vec![Attribute::new_with_value(Attribute::ORIGIN, 0).unwrap()];
            if r["ap"].as_str().unwrap() != "none" {
                attrs.push(Attribute::new_with_bin(Attribute::AS_PATH, aspath(r["ap"].as_str().unwrap())).unwrap());
            }
            // MED on the model's scale: 2000 = absent, values above 500 stand for 2^32 - 1 - (1000 - m)
            let med_real = |m: u64| -> u32 { if m > 500 { u32::MAX - (1000 - m) as u32 } else { m as u32 } };
            let rmed = r["med"].as_u64().unwrap_or(2000);
            if rmed != 2000 {
                attrs.push(Attribute::new_with_value(Attribute::MULTI_EXIT_DESC, med_real(rmed)).unwrap());
            }
            let cm: Vec<u64> = r["cm"].as_array().unwrap().iter().map(|x| x.as_u64().unwrap()).collect();
            if !cm.is_empty() {
                let mut b = Vec::new();
                for c in &cm {
                    b.extend_from_slice(&(((65000u32) << 16) | *c as u32).to_be_bytes());
                }
                attrs.push(Attribute::new_with_bin(Attribute::COMMUNITY, b).unwrap());
            }
            let attrs = Arc::new(attrs);
            let res = catch_unwind(AssertUnwindSafe(|| {
                let mut nh = Some(packet::bgp::Nexthop::V4(Ipv4Addr::new(192, 0, 2, 1)));
                let (filtered, post) = table::apply_import(&asg, None, &source, &net, &attrs, &mut nh);
                let lp = post.iter().find(|a| a.code() == Attribute::LOCAL_PREF).and_then(|a| a.value()).unwrap_or(0);
                let mut comm: Vec<u32> = post
                    .iter()
                    .find(|a| a.code() == Attribute::COMMUNITY)
                    .and_then(|a| a.binary())
                    .map(|b| b.chunks(4).map(|c| u32::from_be_bytes([c[0], c[1], c[2], c[3]]) & 0xffff).collect())
                    .unwrap_or_default();
                comm.sort();
                comm.dedup();
                let med: i64 = post.iter().find(|a| a.code() == Attribute::MULTI_EXIT_DESC).and_then(|a| a.value()).map(|v| v as i64).unwrap_or(-1);
                let ap = post.iter().find(|a| a.code() == Attribute::AS_PATH);
                let hops = ap.map(|a| a.as_path_length() as u64).unwrap_or(0);
                let first = ap.and_then(|a| packet::bgp::AsPathIter::new(a).flatten().next()).unwrap_or(0);
                let nhp = nh.map(|n| n.addr() == IpAddr::V4(Ipv4Addr::new(198, 51, 100, 9))).unwrap_or(false);
                (filtered, lp, comm, med, hops, first, nhp)
            }));
            let exp = &j["exp"];
            match res {
                Err(_) => {
                    mism += 1;
                    if quota(&mut per, &polkey, "panic") {
                        writeln!(out, "{}", json!({"i": idx, "emb": ei, "kind": "panic", "pol": j["pol"], "r": j["r"]})).unwrap();
                    }
                }
                Ok((filtered, lp, comm, med, hops, first, nhp)) => {
                    let want_rej = exp["d"] == "reject";
                    let want_med: i64 = match exp["med"].as_u64().unwrap_or(2000) {
                        2000 => -1,
                        m if m > 500 => (u32::MAX - (1000 - m) as u32) as i64,
                        m => m as i64,
                    };
                    let mut ecm: Vec<u32> = exp["cm"].as_array().unwrap().iter().map(|x| x.as_u64().unwrap() as u32).collect();
                    ecm.sort();
                    let bad = if filtered != want_rej {
                        Some("disposition")
                    } else if !want_rej && lp as u64 != exp["lp"].as_u64().unwrap() {
                        Some("local_pref")
                    } else if !want_rej && comm != ecm {
                        Some("community")
                    } else if !want_rej && med != want_med {
                        Some("med")
                    } else if !want_rej && (hops != exp["hops"].as_u64().unwrap() || first as u64 != exp["first"].as_u64().unwrap()) {
                        Some("as_path")
                    } else if !want_rej && nhp != (exp["nh"] == "policy") {
                        Some("next_hop")
                    } else {
                        None
                    };
                    if let Some(k) = bad {
                        mism += 1;
                        if quota(&mut per, &polkey, k) {
                            writeln!(
                                out,
                                "{}",
                                json!({"i": idx, "emb": ei, "kind": k, "pol": j["pol"], "r": j["r"], "expected": exp,
                                       "actual": {"rejected": filtered, "lp": lp, "cm": comm, "med": med, "hops": hops, "first": first, "nh_policy": nhp}})
                            )
                            .unwrap();
                        }
                    }
                }
            }
        }
    }
    // "for any attribute contents the wire decoder or the API can produce": candidate octet strings - well-formed and not - go
    // through the real decoder of an attribute value; whatever it ACCEPTS becomes a route attribute and every kind of
    // condition and action is evaluated on it.  Nothing may panic (the outcome itself is not compared: the reference has no
    // opinion on values it cannot express).
    if args.get(3).map(|s| s.as_str()) == Some("wire") {
        let as4 = |a: u32| a.to_be_bytes().to_vec();
        let cat = |parts: &[Vec<u8>]| parts.concat();
        let mut cands: Vec<(u8, Vec<u8>)> = Vec::new();
        let a1 = as4(65001);
        for v in [
            vec![],
            vec![2],
            vec![2, 0],
            cat(&[vec![2, 1], a1.clone()]),
            cat(&[vec![2, 1], a1.clone(), vec![2]]),
            cat(&[vec![2, 1], a1.clone(), vec![2, 1]]),
            cat(&[vec![2, 1], a1.clone(), vec![2, 0]]),
            cat(&[vec![2, 0], vec![2, 1], a1.clone()]),
            cat(&[vec![2, 2], a1.clone()]),
            cat(&[vec![2, 255], a1.clone()]),
            cat(&[vec![1, 1], a1.clone()]),
            cat(&[vec![0, 1], a1.clone()]),
            cat(&[vec![9, 1], a1.clone()]),
            cat(&[vec![3, 1], a1.clone(), vec![4, 1], a1.clone()]),
            cat(&[vec![2, 1], a1[..3].to_vec()]),
        ] {
            cands.push((Attribute::AS_PATH, v));
        }
        for v in [vec![], vec![0xfd], vec![0xfd, 0xe8, 0], vec![0xfd, 0xe8, 0, 1], vec![0xfd, 0xe8, 0, 1, 0xfd], vec![0xfd, 0xe8, 0, 1, 0xfd, 0xe8, 0, 2]] {
            cands.push((Attribute::COMMUNITY, v.clone()));
            cands.push((Attribute::MULTI_EXIT_DESC, v.clone()));
            cands.push((Attribute::LOCAL_PREF, v));
        }
        let mut pols: Vec<Value> = Vec::new();
        for set in ["as1", "as2", "as3", "as4"] {
            for o in ["any", "all", "invert"] {
                pols.push(json!({"stmts": [{"conds": [{"k": "aspath", "set": set, "opt": o}], "disp": "reject", "act": "prep2"}], "default": "accept"}));
            }
        }
        for cmp in ["eq", "ge", "le"] {
            for k in [0, 1, 2] {
                pols.push(json!({"stmts": [{"conds": [{"k": "aslen", "cmp": cmp, "n": k}], "disp": "reject", "act": "none"}], "default": "accept"}));
            }
        }
        for set in ["cs1", "cs2", "cs3", "cs4"] {
            for o in ["any", "all", "invert"] {
                pols.push(json!({"stmts": [{"conds": [{"k": "community", "set": set, "opt": o}], "disp": "none", "act": "commrm"}], "default": "accept"}));
            }
        }
        for act in ["lp200", "addc3", "commset", "medadd", "medsub", "medset", "prep2"] {
            pols.push(json!({"stmts": [{"conds": [], "disp": "none", "act": act}], "default": "accept"}));
        }
        let e = embs[1];
        let (addr, mask) = embed(e, 2, 1);
        let net = match addr {
            IpAddr::V4(a) => packet::Nlri::V4(packet::bgp::Ipv4Net { addr: a, mask }),
            IpAddr::V6(a) => packet::Nlri::V6(packet::bgp::Ipv6Net { addr: a, mask }),
        };
        let (mut accepted, mut wire_evals) = (0u64, 0u64);
        for (code, bytes) in &cands {
            let Ok(Some(attr)) = catch_unwind(AssertUnwindSafe(|| Attribute::from_wire_value(*code, bytes))) else {
                continue;
            };
            accepted += 1;
            let mut attrs = vec![Attribute::new_with_value(Attribute::ORIGIN, 0).unwrap()];
            if *code != Attribute::AS_PATH {
                attrs.push(Attribute::new_with_bin(Attribute::AS_PATH, aspath("a1")).unwrap());
            }
            attrs.push(attr);
            attrs.sort_by_key(|a| a.code());
            let attrs = Arc::new(attrs);
            for pol in &pols {
                let Ok(asg) = build(e, pol) else { continue };
                wire_evals += 1;
                let r = catch_unwind(AssertUnwindSafe(|| {
                    let mut nh = Some(packet::bgp::Nexthop::V4(Ipv4Addr::new(192, 0, 2, 1)));
                    let (_, post) = table::apply_import(&asg, None, &source, &net, &attrs, &mut nh);
                    // what the rest of the daemon does with the result: compare / measure the path
                    post.iter().find(|a| a.code() == Attribute::AS_PATH).map(|a| a.as_path_length())
                }));
                if r.is_err() {
                    mism += 1;
                    let hex: String = bytes.iter().map(|b| format!("{:02x}", b)).collect();
                    if quota(&mut per, &pol.to_string(), "panic_on_decoded") {
                        writeln!(out, "{}", json!({"i": 0, "emb": 1, "kind": "panic_on_decoded", "pol": pol, "r": {"attr_code": code, "value_hex": hex}})).unwrap();
                    }
                }
            }
        }
        writeln!(out, "{}", json!({"wire": {"candidates": cands.len(), "accepted_by_the_decoder": accepted, "evaluations": wire_evals}})).unwrap();
    }
    writeln!(out, "{}", json!({"summary": {"evaluations": n, "mismatches": mism}})).unwrap();
    out.flush().unwrap();
}
