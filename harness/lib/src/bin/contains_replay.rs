//! C16: cases of spec/Admission/Contains.tla on the real `IpNet::contains`, each embedded at several bit offsets.
//! usage: contains_replay <in> <out>    (<in>: {"len","net","addr","inside"} per line, W = 4)
use std::io::{BufRead, BufWriter, Write};
use std::net::{IpAddr, Ipv4Addr, Ipv6Addr};

use rustybgp_packet::IpNet;
use serde_json::{Value, json};

const W: u32 = 4;

fn embed(v6: bool, off: u32, val: u128, fill: u128) -> IpAddr {
    let total = if v6 { 128 } else { 32 };
    // bits before `off` are a fixed pattern, the W model bits follow, the rest is `fill` (host bits / noise)
    let hi: u128 = 0xA5A5_A5A5_A5A5_A5A5_A5A5_A5A5_A5A5_A5A5u128 >> (128 - total);
    let shift = total - off - W;
    let mask_hi = if off == 0 { 0 } else { (!0u128 >> (128 - total)) << (total - off) & (!0u128 >> (128 - total)) };
    let low_mask = if shift == 0 { 0 } else { (1u128 << shift) - 1 };
    let x = (hi & mask_hi) | (val << shift) | (fill & low_mask);
    if v6 { IpAddr::V6(Ipv6Addr::from(x)) } else { IpAddr::V4(Ipv4Addr::from(x as u32)) }
}

fn main() {
    let args: Vec<String> = std::env::args().collect();
    let inp = std::io::BufReader::new(std::fs::File::open(&args[1]).expect("open input"));
    let mut out = BufWriter::new(std::fs::File::create(&args[2]).expect("create output"));
    let embs: [(bool, u32); 8] = [(false, 0), (false, 5), (false, 13), (false, 22), (false, 28), (true, 0), (true, 61), (true, 124)];
    let mut n = 0u64;
    for (idx, line) in inp.lines().enumerate() {
        let line = line.unwrap();
        if line.is_empty() {
            continue;
        }
        let j: Value = serde_json::from_str(&line).unwrap();
        let (len, net, addr, inside) = (j["len"].as_u64().unwrap() as u32, j["net"].as_u64().unwrap() as u128, j["addr"].as_u64().unwrap() as u128, j["inside"].as_bool().unwrap());
        for (v6, off) in embs {
            // the configured prefix as written (model host bits kept, zero below), the address with noise below
            let p = embed(v6, off, net, 0);
            let a = embed(v6, off, addr, 0x0123_4567_89ab_cdef_0123_4567_89ab_cdefu128);
            let mask = (off + len) as u8;
            let got = IpNet::new(p, mask).contains(&a);
            n += 1;
            if got != inside {
                writeln!(out, "{}", json!({"i": idx, "v6": v6, "off": off, "prefix": format!("{}/{}", p, mask), "addr": a.to_string(), "expected": inside, "actual": got})).unwrap();
            }
        }
    }
    writeln!(out, "{}", json!({"summary": {"evaluations": n}})).unwrap();
    out.flush().unwrap();
}
