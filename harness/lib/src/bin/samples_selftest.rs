//! Self-test of `verif_lib_harness::samples`: every NLRI sample of every family must survive
//! `PeerCodec::encode_to` -> `PeerCodec::try_parse` -> `validate_message(_, true)` unchanged, for
//! {as4} x {addpath}; then all `attr_samples()` on one IPv4 unicast UPDATE; then two informational
//! probes (IPv4 next hop on AFI-1 MP families, extended-nexthop + extended-message session).
//!
//! Prints one line per case (`OK` / `MISMATCH` / `ENCODE-ERR` / `DECODE-ERR`) and always exits 0.
//!
//! usage: samples_selftest

use std::panic::{AssertUnwindSafe, catch_unwind};
use std::sync::Arc;

use bytes::BytesMut;
use rustybgp_packet::bgp::{
    Attribute, Family, Message, Nexthop, PathNlri, Update, validate_message,
};
use verif_lib_harness::samples;

/// What came back from the receiver for one encoded `Update::Reach`.
struct Decoded {
    wire_messages: usize,
    wire_bytes: usize,
    entries: Vec<PathNlri>,
    nexthops: Vec<Option<Nexthop>>,
    attrs: Vec<Arc<Vec<Attribute>>>,
    /// anything that was not a Reach of the expected family
    other: Vec<String>,
}

enum Outcome {
    Done(Decoded),
    EncodeErr(String),
    DecodeErr(String),
}

fn panic_text(e: Box<dyn std::any::Any + Send>) -> String {
    if let Some(s) = e.downcast_ref::<&str>() {
        format!("panic: {s}")
    } else if let Some(s) = e.downcast_ref::<String>() {
        format!("panic: {s}")
    } else {
        "panic".to_string()
    }
}

fn describe(m: &Message) -> String {
    match m {
        Message::Open(_) => "Open".to_string(),
        Message::Update(Update::Reach { family, entries, .. }) => {
            format!("Reach({}, {} entries)", samples::family_name(*family), entries.len())
        }
        Message::Update(Update::Unreach { family, entries }) => {
            format!("Unreach({}, {} entries)", samples::family_name(*family), entries.len())
        }
        Message::Update(Update::EndOfRib(f)) => format!("EndOfRib({})", samples::family_name(*f)),
        Message::Notification(n) => format!("Notification({n:?})"),
        Message::Keepalive => "Keepalive".to_string(),
        Message::RouteRefresh { family } => {
            format!("RouteRefresh({})", samples::family_name(*family))
        }
    }
}

#[allow(clippy::too_many_arguments)]
fn round_trip(
    family: Family,
    session_families: &[Family],
    as4: bool,
    addpath: bool,
    extended_message: bool,
    extended_nexthop: bool,
    entries: Vec<PathNlri>,
    nexthop: Option<Nexthop>,
    attr: Vec<Attribute>,
    is_ebgp: bool,
) -> Outcome {
    let (mut tx, mut rx) =
        samples::codec_pair(session_families, as4, addpath, extended_message, extended_nexthop);
    let msg = Message::Update(Update::Reach { family, entries, nexthop, attr: Arc::new(attr) });

    let mut buf = BytesMut::new();
    let wire_messages = match catch_unwind(AssertUnwindSafe(|| tx.encode_to(&msg, &mut buf))) {
        Ok(Ok(n)) => n,
        Ok(Err(e)) => return Outcome::EncodeErr(format!("{e:?}")),
        Err(e) => return Outcome::EncodeErr(panic_text(e)),
    };
    let wire_bytes = buf.len();

    let mut d = Decoded {
        wire_messages,
        wire_bytes,
        entries: Vec::new(),
        nexthops: Vec::new(),
        attrs: Vec::new(),
        other: Vec::new(),
    };
    loop {
        let parsed = match catch_unwind(AssertUnwindSafe(|| rx.try_parse(&mut buf))) {
            Ok(Ok(Some(p))) => p,
            Ok(Ok(None)) => break,
            Ok(Err(n)) => return Outcome::DecodeErr(format!("try_parse: {n:?}")),
            Err(e) => return Outcome::DecodeErr(format!("try_parse: {}", panic_text(e))),
        };
        let validated = catch_unwind(AssertUnwindSafe(|| {
            validate_message(parsed, is_ebgp).map(|it| it.collect::<Vec<Message>>())
        }));
        let msgs = match validated {
            Ok(Ok(v)) => v,
            Ok(Err(n)) => return Outcome::DecodeErr(format!("validate_message: {n:?}")),
            Err(e) => return Outcome::DecodeErr(format!("validate_message: {}", panic_text(e))),
        };
        for m in msgs {
            match m {
                Message::Update(Update::Reach { family: f, entries, nexthop, attr })
                    if f == family =>
                {
                    d.entries.extend(entries);
                    d.nexthops.push(nexthop);
                    d.attrs.push(attr);
                }
                other => d.other.push(describe(&other)),
            }
        }
    }
    if !buf.is_empty() {
        d.other.push(format!("{} undecoded trailing bytes", buf.len()));
    }
    Outcome::Done(d)
}

fn first_diff(sent: &[PathNlri], got: &[PathNlri]) -> String {
    if sent.len() != got.len() {
        let mut s = format!("sent {} entries, got {}", sent.len(), got.len());
        if let Some(i) = (0..sent.len().min(got.len())).find(|i| sent[*i] != got[*i]) {
            s.push_str(&format!("; first difference at #{i}: sent {:?} got {:?}", sent[i], got[i]));
        }
        return s;
    }
    match (0..sent.len()).find(|i| sent[*i] != got[*i]) {
        Some(i) => format!("entry #{i}: sent {:?} got {:?}", sent[i], got[i]),
        None => String::new(),
    }
}

fn path_nlris(family: Family, addpath: bool) -> Vec<PathNlri> {
    samples::nlri_samples(family)
        .into_iter()
        .enumerate()
        .map(|(i, nlri)| PathNlri { path_id: if addpath { i as u32 + 1 } else { 0 }, nlri })
        .collect()
}

/// Part 1: NLRI samples of every family, base attributes.
fn nlri_cases(tally: &mut Tally) {
    println!("== NLRI samples: family x as4 x addpath (base_attrs, nexthop_for, is_ebgp=true)");
    let all = samples::families();
    for family in &all {
        let name = samples::family_name(*family);
        let n = samples::nlri_samples(*family).len();
        let distinct = {
            let v = samples::nlri_samples(*family);
            (0..v.len()).all(|i| (0..i).all(|j| v[i] != v[j]))
        };
        if n < 3 || !distinct {
            println!("{name}: SAMPLE-SET-PROBLEM n={n} distinct={distinct}");
            tally.bad += 1;
        }
        for as4 in [true, false] {
            for addpath in [false, true] {
                let cfg = format!("as4={as4} addpath={addpath}");
                let sent = path_nlris(*family, addpath);
                let nh = samples::nexthop_for(*family);
                // LOCAL_PREF is dropped by validate_message(_, true)
                let expect_attrs: Vec<Attribute> = samples::base_attrs()
                    .into_iter()
                    .filter(|a| a.code() != Attribute::LOCAL_PREF)
                    .collect();
                let out = round_trip(
                    *family,
                    &all,
                    as4,
                    addpath,
                    false,
                    false,
                    sent.clone(),
                    nh,
                    samples::base_attrs(),
                    true,
                );
                match out {
                    Outcome::EncodeErr(e) => {
                        println!("{name} [{cfg}]: ENCODE-ERR {e}");
                        tally.bad += 1;
                    }
                    Outcome::DecodeErr(e) => {
                        println!("{name} [{cfg}]: DECODE-ERR {e}");
                        tally.bad += 1;
                    }
                    Outcome::Done(d) => {
                        let mut notes = Vec::new();
                        let nlri_ok = d.entries == sent && d.other.is_empty();
                        if !nlri_ok {
                            notes.push(first_diff(&sent, &d.entries));
                            if !d.other.is_empty() {
                                notes.push(format!("unexpected: {}", d.other.join(", ")));
                            }
                        }
                        if d.nexthops.iter().any(|x| *x != nh) {
                            notes.push(format!("nexthop sent {:?} got {:?}", nh, d.nexthops));
                        }
                        if d.attrs.iter().any(|a| **a != expect_attrs) {
                            notes.push("base attrs differ".to_string());
                        }
                        let verdict = if nlri_ok && notes.is_empty() {
                            tally.ok += 1;
                            "OK"
                        } else if nlri_ok {
                            tally.bad += 1;
                            "MISMATCH(non-NLRI)"
                        } else {
                            tally.bad += 1;
                            "MISMATCH"
                        };
                        println!(
                            "{name} [{cfg}]: {verdict} nlri={} wire_msgs={} bytes={} {}",
                            sent.len(),
                            d.wire_messages,
                            d.wire_bytes,
                            notes.join(" | ")
                        );
                    }
                }
            }
        }
    }
}

fn attr_names(v: &[Attribute]) -> String {
    v.iter().map(|a| a.code().to_string()).collect::<Vec<_>>().join(",")
}

/// Part 2: all attribute samples on one IPv4 unicast UPDATE.
fn attr_cases(tally: &mut Tally) {
    println!("== attr_samples on ipv4 unicast: as4 x is_ebgp");
    let all = samples::families();
    let sent_nlri = path_nlris(Family::IPV4, false);
    for as4 in [true, false] {
        for is_ebgp in [true, false] {
            let cfg = format!("as4={as4} is_ebgp={is_ebgp}");
            let sent = samples::attr_samples();
            let expect: Vec<Attribute> = sent
                .iter()
                .filter(|a| {
                    !is_ebgp
                        || !matches!(
                            a.code(),
                            Attribute::LOCAL_PREF
                                | Attribute::ORIGINATOR_ID
                                | Attribute::CLUSTER_LIST
                        )
                })
                .cloned()
                .collect();
            let out = round_trip(
                Family::IPV4,
                &all,
                as4,
                false,
                false,
                false,
                sent_nlri.clone(),
                samples::nexthop_for(Family::IPV4),
                sent.clone(),
                is_ebgp,
            );
            match out {
                Outcome::EncodeErr(e) => {
                    println!("attrs [{cfg}]: ENCODE-ERR {e}");
                    tally.bad += 1;
                }
                Outcome::DecodeErr(e) => {
                    println!("attrs [{cfg}]: DECODE-ERR {e}");
                    tally.bad += 1;
                }
                Outcome::Done(d) => {
                    let got: Vec<Attribute> =
                        d.attrs.first().map(|a| (**a).clone()).unwrap_or_default();
                    let mut notes = Vec::new();
                    if d.entries != sent_nlri || !d.other.is_empty() {
                        notes.push(format!(
                            "nlri: {} {}",
                            first_diff(&sent_nlri, &d.entries),
                            d.other.join(", ")
                        ));
                    }
                    if got != expect {
                        notes.push(format!(
                            "expected codes [{}] got [{}]",
                            attr_names(&expect),
                            attr_names(&got)
                        ));
                        for e in &expect {
                            match got.iter().find(|g| g.code() == e.code()) {
                                None => notes.push(format!("attr {} missing", e.code())),
                                Some(g) if g != e => notes.push(format!(
                                    "attr {}: sent {:?} got {:?}",
                                    e.code(),
                                    e,
                                    g
                                )),
                                _ => {}
                            }
                        }
                    }
                    let verdict = if notes.is_empty() {
                        tally.ok += 1;
                        "OK"
                    } else {
                        tally.bad += 1;
                        "MISMATCH"
                    };
                    println!(
                        "attrs [{cfg}]: {verdict} sent={} expected_back={} got={} bytes={} {}",
                        sent.len(),
                        expect.len(),
                        got.len(),
                        d.wire_bytes,
                        notes.join(" | ")
                    );
                }
            }
        }
    }
}

/// Part 3 (informational, not counted): what happens to an IPv4 next hop on AFI-1 MP families.
fn v4_nexthop_probe() {
    println!("== probe: IPv4 next hop on AFI-1 families (informational)");
    let all = samples::families();
    for family in all.iter().filter(|f| f.afi() == Family::AFI_IP || **f == Family::LS) {
        let nh = Some(samples::nexthop_v4());
        if samples::nexthop_for(*family).is_none() {
            continue;
        }
        let name = samples::family_name(*family);
        let sent = path_nlris(*family, false);
        match round_trip(
            *family,
            &all,
            true,
            false,
            false,
            false,
            sent.clone(),
            nh,
            samples::base_attrs(),
            true,
        ) {
            Outcome::Done(d) => {
                let same = d.nexthops.iter().all(|x| *x == nh) && !d.nexthops.is_empty();
                println!(
                    "{name}: nexthop {} (got {:?}) nlri_equal={}",
                    if same { "preserved" } else { "CHANGED" },
                    d.nexthops.first().copied().flatten(),
                    d.entries == sent
                );
            }
            Outcome::EncodeErr(e) => println!("{name}: ENCODE-ERR {e}"),
            Outcome::DecodeErr(e) => println!("{name}: DECODE-ERR {e}"),
        }
    }
}

/// Part 4: extended message + extended next hop session (IPv4 unicast over an IPv6 next hop).
fn extended_cases(tally: &mut Tally) {
    println!("== extended_message + extended_nexthop session");
    let all = samples::families();
    let (tx, rx) = samples::codec_pair(&all, true, true, true, true);
    println!(
        "codec_pair(ext): tx.max_len={} rx.max_len={} tx.two_byte_as={} rx.two_byte_as={}",
        tx.max_message_length(),
        rx.max_message_length(),
        tx.two_byte_as,
        rx.two_byte_as
    );
    for family in [Family::IPV4, Family::IPV4_MPLS, Family::IPV6] {
        let name = samples::family_name(family);
        let nh = Some(samples::nexthop_v6());
        let sent = path_nlris(family, true);
        match round_trip(
            family,
            &all,
            true,
            true,
            true,
            true,
            sent.clone(),
            nh,
            samples::base_attrs(),
            true,
        ) {
            Outcome::Done(d) => {
                let ok =
                    d.entries == sent && d.other.is_empty() && d.nexthops.iter().all(|x| *x == nh);
                if ok {
                    tally.ok += 1;
                } else {
                    tally.bad += 1;
                }
                println!(
                    "{name} [ext, v6 nexthop, addpath]: {} {} nexthops={:?} {}",
                    if ok { "OK" } else { "MISMATCH" },
                    first_diff(&sent, &d.entries),
                    d.nexthops,
                    d.other.join(", ")
                );
            }
            Outcome::EncodeErr(e) => {
                tally.bad += 1;
                println!("{name} [ext]: ENCODE-ERR {e}")
            }
            Outcome::DecodeErr(e) => {
                tally.bad += 1;
                println!("{name} [ext]: DECODE-ERR {e}")
            }
        }
    }
}

#[derive(Default)]
struct Tally {
    ok: usize,
    bad: usize,
}

fn main() {
    // keep panic messages of the library under test out of the report lines
    std::panic::set_hook(Box::new(|_| {}));
    let mut tally = Tally::default();
    let r = catch_unwind(AssertUnwindSafe(|| {
        nlri_cases(&mut tally);
        attr_cases(&mut tally);
        v4_nexthop_probe();
        extended_cases(&mut tally);
    }));
    if let Err(e) = r {
        println!("HARNESS-PANIC {}", panic_text(e));
    }
    println!("== summary: ok={} not_ok={}", tally.ok, tally.bad);
}
