//! C04: the frames written by the real `PeerCodec::encode_to` must be a behaviour of spec/Chunking/Chunking.tla
//! (every frame within the negotiated limit, consecutive non-empty slices of the entry list, success only if every entry
//! went out) and must decode, with the codec negotiated from the OPPOSITE side, to the same routes.
//!
//! usage: chunk_replay <seed> <out>

use std::io::{BufWriter, Write};
use std::panic::{AssertUnwindSafe, catch_unwind};
use std::sync::Arc;

use bytes::BytesMut;
use rustybgp_packet as packet;
use rustybgp_packet::bgp::{self, Attribute, Family, PathNlri};
use serde_json::json;
use verif_lib_harness::samples;

fn attr_key(a: &Attribute) -> (u8, Vec<u8>) {
    // canonicalisation: the extended-length flag is a wire detail; compare code + payload
    let payload = match a.binary() {
        Some(b) => b.clone(),
        None => a.value().map(|v| v.to_be_bytes().to_vec()).unwrap_or_default(),
    };
    (a.code(), payload)
}

struct Decoded {
    entries: Vec<(u32, packet::Nlri)>,
    nexthops: Vec<Option<bgp::Nexthop>>,
    attrs: Vec<Vec<(u8, Vec<u8>)>>,
    withdrawn: Vec<(u32, packet::Nlri)>,
    frames: Vec<usize>,
    msgs: Vec<bgp::Message>,
}

fn decode_all(rx: &mut bgp::PeerCodec, wire: &[u8], limit: usize) -> Result<Decoded, String> {
    let mut d = Decoded { entries: vec![], nexthops: vec![], attrs: vec![], withdrawn: vec![], frames: vec![], msgs: vec![] };
    let mut off = 0;
    while off < wire.len() {
        if wire.len() - off < 19 {
            return Err(format!("trailing {} bytes are not a frame", wire.len() - off));
        }
        if wire[off..off + 16].iter().any(|b| *b != 0xff) {
            return Err(format!("frame at {off}: marker is not all ones"));
        }
        let l = u16::from_be_bytes([wire[off + 16], wire[off + 17]]) as usize;
        if l < 19 || off + l > wire.len() {
            return Err(format!("frame at {off}: header length {l} inconsistent with {} bytes written", wire.len() - off));
        }
        if l > limit {
            return Err(format!("frame of {l} bytes exceeds the negotiated maximum {limit}"));
        }
        d.frames.push(l);
        let mut b = BytesMut::from(&wire[off..off + l]);
        let parsed = match catch_unwind(AssertUnwindSafe(|| rx.try_parse(&mut b))) {
            Err(_) => return Err("receiver panics on a frame the sender wrote".into()),
            Ok(Err(n)) => return Err(format!("receiver rejects a frame the sender wrote: NOTIFICATION {}/{}", n.notification_code(), n.notification_subcode())),
            Ok(Ok(None)) => return Err("receiver wants more bytes for a complete frame".into()),
            Ok(Ok(Some(p))) => p,
        };
        if !b.is_empty() {
            return Err("receiver left bytes of the frame unconsumed".into());
        }
        let msgs: Vec<bgp::Message> = match bgp::validate_message(parsed, false) {
            Err(n) => return Err(format!("receiver's validation rejects a frame the sender wrote: {}/{}", n.notification_code(), n.notification_subcode())),
            Ok(it) => it.collect(),
        };
        for m in msgs {
            match &m {
                bgp::Message::Update(bgp::Update::Reach { entries, nexthop, attr, .. }) => {
                    for e in entries {
                        d.entries.push((e.path_id, e.nlri.clone()));
                    }
                    d.nexthops.push(*nexthop);
                    let mut a: Vec<(u8, Vec<u8>)> = attr.iter().map(attr_key).collect();
                    a.sort();
                    d.attrs.push(a);
                }
                bgp::Message::Update(bgp::Update::Unreach { entries, .. }) => {
                    for e in entries {
                        d.withdrawn.push((e.path_id, e.nlri.clone()));
                    }
                }
                _ => {}
            }
            d.msgs.push(m);
        }
        off += l;
    }
    Ok(d)
}

fn filler(bytes: usize) -> Attribute {
    // a COMMUNITY attribute of about `bytes` bytes
    let n = (bytes / 4).max(1);
    let mut b = Vec::with_capacity(n * 4);
    for i in 0..n {
        b.extend_from_slice(&((65000u32 << 16) | (i as u32 & 0xffff)).to_be_bytes());
    }
    Attribute::new_with_bin(Attribute::COMMUNITY, b).unwrap()
}

fn main() {
    let args: Vec<String> = std::env::args().collect();
    let _seed: u64 = args[1].parse().unwrap();
    let mut out = BufWriter::new(std::fs::File::create(&args[2]).expect("create output"));
    std::panic::set_hook(Box::new(|_| {}));
    let mut seen = std::collections::HashSet::new();
    let mut cases = 0u64;
    let mut frames_total = 0u64;
    let mut errs = 0u64;
    let mut report = |out: &mut BufWriter<std::fs::File>, kind: &str, what: String, case: serde_json::Value| {
        let key = format!("{kind}:{}:{}", case["family"], what.split(|c: char| c.is_ascii_digit()).next().unwrap_or(""));
        if seen.insert(key) {
            writeln!(out, "{}", json!({"kind": kind, "what": what, "case": case})).unwrap();
        }
    };
    for family in samples::families() {
        for as4 in [true, false] {
            for addpath in [false, true] {
                for ext in [false, true] {
                    let enh = ext && addpath && family == Family::IPV4;
                    let fams = vec![family, Family::IPV4];
                    let limit = if ext { 65535usize } else { 4096 };
                    let base: Vec<packet::Nlri> = samples::nlri_samples(family);
                    let per_entry: usize = 12; // rough lower bound used only to size the entry counts
                    for fill in ["none", "mid", "near", "tight", "over"] {
                        for count in ["one", "few", "frame", "many"] {
                            if ext && (count == "many" || count == "frame") && fill == "none" && family != Family::IPV4 && family != Family::IPV6_VPN {
                                continue; // 65535-byte frames of every family: keep two representatives
                            }
                            let n = match count {
                                "one" => 1,
                                "few" => base.len(),
                                "frame" => limit / per_entry,
                                _ => 3 * limit / per_entry,
                            };
                            let entries: Vec<PathNlri> = (0..n).map(|i| PathNlri { path_id: if addpath { i as u32 + 1 } else { 0 }, nlri: base[i % base.len()].clone() }).collect();
                            let mut attrs = samples::base_attrs();
                            let fbytes = match fill {
                                "none" => 0,
                                "mid" => limit / 2,
                                "near" => limit - 160,
                                "tight" => limit - 70,
                                _ => limit + 40,
                            };
                            if fbytes > 0 {
                                if fbytes > 65000 {
                                    continue; // an attribute cannot be longer than its 16-bit length
                                }
                                attrs.push(filler(fbytes));
                            }
                            let nh0 = if enh { Some(samples::nexthop_v6()) } else { samples::nexthop_for(family) };
                            // every family that carries a next hop is also announced with the other address family's next hop
                            // where that is meaningful: IPv4 next hop for the IPv4-AFI families (and LS / RTC / EVPN)
                            let alt = fill == "none" && count == "few" && !enh && nh0.is_some() && family != Family::IPV6 && family.afi() != Family::AFI_IP6;
                            for (nhi, nh) in [Some(nh0), if alt { Some(Some(samples::nexthop_v4())) } else { None }].into_iter().flatten().enumerate() {
                            let case = json!({"family": samples::family_name(family), "as4": as4, "addpath": addpath, "ext": ext, "fill": fill, "count": count, "n": n, "nexthop": if nhi == 0 { "default" } else { "ipv4" }});
                            for withdraw in [false, true] {
                                if withdraw && fill != "none" {
                                    continue;
                                }
                                cases += 1;
                                if cases % 700 == 1 {
                                    writeln!(out, "{}", json!({"sample": {"case": case, "withdraw": withdraw}})).unwrap();
                                }
                                let msg = if withdraw {
                                    bgp::Message::Update(bgp::Update::Unreach { family, entries: entries.clone() })
                                } else {
                                    bgp::Message::Update(bgp::Update::Reach { family, entries: entries.clone(), nexthop: nh, attr: Arc::new(attrs.clone()) })
                                };
                                let (mut tx, mut rx) = samples::codec_pair(&fams, as4, addpath, ext, enh);
                                let mut buf = BytesMut::new();
                                let r = catch_unwind(AssertUnwindSafe(|| tx.encode_to(&msg, &mut buf)));
                                let res = match r {
                                    Err(_) => {
                                        report(&mut out, "encoder_panic", "the encoder panics".into(), case.clone());
                                        continue;
                                    }
                                    Ok(r) => r,
                                };
                                if res.is_err() {
                                    errs += 1;
                                    // failing is the required outcome only when not even one entry fits behind the attributes
                                    if !(fill == "over" || fill == "tight" || fill == "near") {
                                        report(&mut out, "encode_error", "encode_to fails although entries fit".into(), case.clone());
                                    }
                                    continue;
                                }
                                let d = match decode_all(&mut rx, &buf, limit) {
                                    Err(m) => {
                                        report(&mut out, "frame", m, case.clone());
                                        continue;
                                    }
                                    Ok(d) => d,
                                };
                                frames_total += d.frames.len() as u64;
                                // documented canonicalisation: a withdrawn labeled prefix does not carry its labels (RFC 8277 2.4)
                                let canon = |path_id: u32, n: &packet::Nlri| -> (u32, packet::Nlri) {
                                    let n = match (n, withdraw) {
                                        (packet::Nlri::LabeledV4(x), true) => packet::Nlri::LabeledV4(packet::labeled::LabeledV4Nlri { labels: packet::mpls::MplsLabelStack::new(vec![]), prefix: x.prefix.clone() }),
                                        (packet::Nlri::LabeledV6(x), true) => packet::Nlri::LabeledV6(packet::labeled::LabeledV6Nlri { labels: packet::mpls::MplsLabelStack::new(vec![]), prefix: x.prefix.clone() }),
                                        (n, _) => n.clone(),
                                    };
                                    (path_id, n)
                                };
                                let want: Vec<(u32, packet::Nlri)> = entries.iter().map(|e| canon(e.path_id, &e.nlri)).collect();
                                let got: Vec<(u32, packet::Nlri)> = (if withdraw { &d.withdrawn } else { &d.entries }).iter().map(|(p, n)| canon(*p, n)).collect();
                                let got = &got;
                                if *got != want {
                                    let what = if got.len() < want.len() {
                                        format!("success reported but only {} of {} entries were written (silently dropped)", got.len(), want.len())
                                    } else if got.len() > want.len() {
                                        format!("{} entries decoded for {} encoded (duplicated)", got.len(), want.len())
                                    } else {
                                        "the decoded entries differ from the encoded ones (value or order)".to_string()
                                    };
                                    report(&mut out, "entries", what, case.clone());
                                    continue;
                                }
                                if !withdraw {
                                    let mut wa: Vec<(u8, Vec<u8>)> = attrs.iter().map(attr_key).collect();
                                    wa.sort();
                                    for (i, a) in d.attrs.iter().enumerate() {
                                        if *a != wa {
                                            report(&mut out, "attrs", format!("frame {i}: attributes differ after decoding"), case.clone());
                                            break;
                                        }
                                    }
                                    for (i, x) in d.nexthops.iter().enumerate() {
                                        if *x != nh {
                                            report(&mut out, "nexthop", format!("frame {i}: next hop {:?} decoded for {:?}", x.map(|n| n.addr()), nh.map(|n| n.addr())), case.clone());
                                            break;
                                        }
                                    }
                                    // decode(encode(x)) is a fixed point for decoded values
                                    if count == "few" || count == "one" {
                                        let mut buf2 = BytesMut::new();
                                        let mut ok = true;
                                        for m in &d.msgs {
                                            if !matches!(catch_unwind(AssertUnwindSafe(|| tx.encode_to(m, &mut buf2).is_ok())), Ok(true)) {
                                                ok = false;
                                            }
                                        }
                                        let (_, mut rx2) = samples::codec_pair(&fams, as4, addpath, ext, enh);
                                        match decode_all(&mut rx2, &buf2, limit) {
                                            Ok(d2) if ok => {
                                                if d2.entries != d.entries || d2.attrs != d.attrs || d2.nexthops != d.nexthops {
                                                    report(&mut out, "fixed_point", "decode(encode(decoded)) differs from decoded".into(), case.clone());
                                                }
                                            }
                                            _ => report(&mut out, "fixed_point", "a decoded value does not re-encode / re-decode".into(), case.clone()),
                                        }
                                    }
                                }
                            }
                            }
                        }
                    }
                }
            }
        }
    }
    // attribute kinds: every sample attribute (and AS4-relevant variants) announced on IPv4 unicast, 2- and 4-octet AS sessions,
    // decoded by the opposite side; then the decoded value re-encoded and decoded again (fixed point)
    {
        let wide_path = samples::as_path_sample();
        let mut variants: Vec<(String, Vec<Attribute>)> = vec![("all-samples".into(), samples::attr_samples())];
        // a wide AS in the path together with an AGGREGATOR whose AS fits in two octets (no AS4_AGGREGATOR on the wire)
        let mut v = vec![Attribute::new_with_value(Attribute::ORIGIN, 0).unwrap(), wide_path.clone()];
        v.push(Attribute::new_with_bin(Attribute::AGGREGATOR, vec![0, 0, 0xfd, 0xe8, 192, 0, 2, 9]).unwrap());
        variants.push(("wide-path+narrow-aggregator".into(), v));
        // a narrow path with a wide aggregator
        let mut v = samples::base_attrs();
        v.push(Attribute::new_with_bin(Attribute::AGGREGATOR, vec![0xfa, 0x56, 0xea, 0x02, 192, 0, 2, 9]).unwrap());
        variants.push(("narrow-path+wide-aggregator".into(), v));
        for (name, attrs) in variants {
            for as4 in [true, false] {
                cases += 1;
                let case = json!({"family": "attrs", "variant": name, "as4": as4});
                let fams = vec![Family::IPV4];
                let (mut tx, mut rx) = samples::codec_pair(&fams, as4, false, false, false);
                let entries = vec![PathNlri { path_id: 0, nlri: samples::nlri_samples(Family::IPV4)[1].clone() }];
                let msg = bgp::Message::Update(bgp::Update::Reach { family: Family::IPV4, entries, nexthop: samples::nexthop_for(Family::IPV4), attr: Arc::new(attrs.clone()) });
                let mut buf = BytesMut::new();
                if !matches!(catch_unwind(AssertUnwindSafe(|| tx.encode_to(&msg, &mut buf).is_ok())), Ok(true)) {
                    report(&mut out, "encoder_panic", "attributes do not encode".into(), case);
                    continue;
                }
                match decode_all(&mut rx, &buf, 4096) {
                    Err(m) => report(&mut out, "frame", m, case),
                    Ok(d) => {
                        let mut wa: Vec<(u8, Vec<u8>)> = attrs.iter().map(attr_key).collect();
                        wa.sort();
                        if d.attrs.len() != 1 || d.attrs[0] != wa {
                            let got: Vec<u8> = d.attrs.first().map(|a| a.iter().map(|x| x.0).collect()).unwrap_or_default();
                            let diff: Vec<u8> = wa.iter().filter(|x| !d.attrs.first().is_some_and(|a| a.contains(x))).map(|x| x.0).collect();
                            report(&mut out, "attrs", format!("attributes differ after decoding (codes that changed or vanished: {:?}; decoded codes {:?})", diff, got), case);
                        }
                    }
                }
            }
        }
        // values only a peer can produce: the Extended Length bit on a short value.  decode -> encode -> decode must be stable
        for (name, flags) in [("community-extlen", 0xd0u8), ("med-extlen", 0x90u8)] {
            cases += 1;
            let case = json!({"family": "attrs", "variant": name});
            let (code, val): (u8, Vec<u8>) = if flags == 0xd0 { (8, vec![0xfd, 0xe8, 0, 1]) } else { (4, vec![0, 0, 0, 7]) };
            let mut a = vec![0x40, 1, 1, 0, 0x40, 2, 6, 2, 1, 0, 0, 0xfd, 0xe9, 0x40, 3, 4, 192, 0, 2, 1];
            a.extend_from_slice(&[flags, code, 0, val.len() as u8]);
            a.extend_from_slice(&val);
            let mut m = vec![0xffu8; 16];
            m.extend_from_slice(&((19 + 4 + a.len() + 4) as u16).to_be_bytes());
            m.push(2);
            m.extend_from_slice(&[0, 0]);
            m.extend_from_slice(&(a.len() as u16).to_be_bytes());
            m.extend_from_slice(&a);
            m.extend_from_slice(&[24, 10, 1, 1]);
            let (mut tx, mut rx) = samples::codec_pair(&[Family::IPV4], true, false, false, false);
            let d1 = match decode_all(&mut rx, &m, 4096) {
                Ok(d) => d,
                Err(e) => {
                    report(&mut out, "frame", format!("hand-written UPDATE rejected: {e}"), case);
                    continue;
                }
            };
            let mut buf2 = BytesMut::new();
            let mut ok = true;
            for x in &d1.msgs {
                if !matches!(catch_unwind(AssertUnwindSafe(|| tx.encode_to(x, &mut buf2).is_ok())), Ok(true)) {
                    ok = false;
                }
            }
            let (_, mut rx2) = samples::codec_pair(&[Family::IPV4], true, false, false, false);
            match decode_all(&mut rx2, &buf2, 4096) {
                Ok(d2) if ok => {
                    if d2.entries != d1.entries || d2.attrs != d1.attrs || d2.nexthops != d1.nexthops {
                        report(&mut out, "fixed_point", "decode(encode(decoded)) differs from decoded".into(), case);
                    }
                }
                Ok(_) => report(&mut out, "fixed_point", "a decoded value does not re-encode".into(), case),
                Err(e) => report(&mut out, "fixed_point", format!("a decoded value re-encodes to a frame the peer rejects: {e}"), case),
            }
        }
    }
    // entries of ONE size, so that a frame can fill up to the very last octet: every IPv4 / IPv6 prefix-length class (1 to 5
    // and 1 to 17 octets per entry, 4 more with a path id), announced and withdrawn, three frames' worth
    for (family, masks) in [(Family::IPV4, vec![0u8, 8, 16, 24, 32]), (Family::IPV6, vec![0u8, 8, 16, 32, 48, 64, 128])] {
        for mask in masks {
            for addpath in [false, true] {
                for withdraw in [true, false] {
                    cases += 1;
                    let fams = vec![family, Family::IPV4];
                    let per = 1 + (mask as usize).div_ceil(8) + if addpath { 4 } else { 0 };
                    let n = 3 * 4096 / per + 7;
                    let nlri = if family == Family::IPV4 {
                        packet::Nlri::V4(packet::bgp::Ipv4Net { addr: std::net::Ipv4Addr::new(if mask == 0 { 0 } else { 10 }, 0, 0, 0), mask })
                    } else {
                        packet::Nlri::V6(packet::bgp::Ipv6Net { addr: if mask == 0 { "::".parse().unwrap() } else if mask == 8 { "2000::".parse().unwrap() } else { "2001::".parse().unwrap() }, mask })
                    };
                    let entries: Vec<PathNlri> = (0..n).map(|i| PathNlri { path_id: if addpath { i as u32 + 1 } else { 0 }, nlri: nlri.clone() }).collect();
                    let case = json!({"family": samples::family_name(family), "uniform_mask": mask, "addpath": addpath, "withdraw": withdraw, "n": n});
                    let msg = if withdraw {
                        bgp::Message::Update(bgp::Update::Unreach { family, entries: entries.clone() })
                    } else {
                        bgp::Message::Update(bgp::Update::Reach { family, entries: entries.clone(), nexthop: samples::nexthop_for(family), attr: Arc::new(samples::base_attrs()) })
                    };
                    let (mut tx, mut rx) = samples::codec_pair(&fams, true, addpath, false, false);
                    let mut buf = BytesMut::new();
                    match catch_unwind(AssertUnwindSafe(|| tx.encode_to(&msg, &mut buf))) {
                        Err(_) => {
                            report(&mut out, "encoder_panic", "the encoder panics".into(), case.clone());
                            continue;
                        }
                        Ok(Err(_)) => {
                            report(&mut out, "encode_error", "encode_to fails although every entry fits a frame".into(), case.clone());
                            continue;
                        }
                        Ok(Ok(_)) => {}
                    }
                    match decode_all(&mut rx, &buf, 4096) {
                        Err(m) => report(&mut out, "frame", m, case.clone()),
                        Ok(d) => {
                            frames_total += d.frames.len() as u64;
                            let got = if withdraw { &d.withdrawn } else { &d.entries };
                            let want: Vec<(u32, packet::Nlri)> = entries.iter().map(|e| (e.path_id, e.nlri.clone())).collect();
                            if *got != want {
                                report(&mut out, "entries", format!("{} entries decoded for {} encoded, or other ones", got.len(), want.len()), case.clone());
                            }
                        }
                    }
                    // the splitting entry point of the monitoring encoders must produce the same frames
                    let (mut tx2, _) = samples::codec_pair(&fams, true, addpath, false, false);
                    match catch_unwind(AssertUnwindSafe(|| tx2.encode_each(&msg))) {
                        Ok(Ok(frames)) => {
                            let joined: Vec<u8> = frames.iter().flat_map(|f| f.to_vec()).collect();
                            if joined != buf.to_vec() {
                                report(&mut out, "frame", "encode_each writes other frames than encode_to".into(), case.clone());
                            }
                        }
                        Ok(Err(_)) => report(&mut out, "encode_error", "encode_each fails although every entry fits a frame".into(), case.clone()),
                        Err(_) => report(&mut out, "encoder_panic", "encode_each panics".into(), case.clone()),
                    }
                }
            }
        }
    }
    // a codec is negotiated once and lives as long as the session (or the BMP connection / MRT file): whatever it was asked to
    // encode before - including a message that cannot be encoded at all - the next message comes out as from a fresh codec
    {
        let fams = vec![Family::IPV4];
        let many: Vec<PathNlri> = (0..1500u32).map(|i| PathNlri { path_id: 0, nlri: packet::Nlri::V4(packet::bgp::Ipv4Net { addr: std::net::Ipv4Addr::from(0x0a00_0000 + (i << 8)), mask: 24 }) }).collect();
        let reference = bgp::Message::Update(bgp::Update::Reach { family: Family::IPV4, entries: many, nexthop: samples::nexthop_for(Family::IPV4), attr: Arc::new(samples::base_attrs()) });
        let (mut fresh, _) = samples::codec_pair(&fams, true, false, false, false);
        let want: Vec<Vec<u8>> = fresh.encode_each(&reference).map(|v| v.iter().map(|f| f.to_vec()).collect()).unwrap_or_default();
        let filler = |octets: usize| {
            let mut v = samples::base_attrs();
            let mut b = Vec::new();
            for i in 0..(octets / 4) as u32 {
                b.extend_from_slice(&((65001u32 << 16) | (i & 0xffff)).to_be_bytes());
            }
            v.push(Attribute::new_with_bin(Attribute::COMMUNITY, b).unwrap());
            v
        };
        let one = vec![PathNlri { path_id: 0, nlri: samples::nlri_samples(Family::IPV4)[1].clone() }];
        let mut caps_big = samples::capability_lists(&samples::families(), true, true, true, true).0;
        for i in 0..12u8 {
            caps_big.push(bgp::Capability::Unknown { code: 200 + i, bin: vec![i; 30] });
        }
        let before: Vec<(&str, bgp::Message)> = vec![
            ("attributes of 5000 octets (fit an extended message only)", bgp::Message::Update(bgp::Update::Reach { family: Family::IPV4, entries: one.clone(), nexthop: samples::nexthop_for(Family::IPV4), attr: Arc::new(filler(5000)) })),
            ("attributes of 70000 octets (fit nothing)", bgp::Message::Update(bgp::Update::Reach { family: Family::IPV4, entries: one.clone(), nexthop: samples::nexthop_for(Family::IPV4), attr: Arc::new(filler(70000)) })),
            ("an OPEN whose capabilities exceed the one-octet length", bgp::Message::Open(bgp::Open { as_number: 65001, holdtime: bgp::HoldTime::new(90).unwrap(), router_id: 1, capability: caps_big })),
        ];
        for (what, first) in before {
            for each in [true, false] {
                cases += 1;
                let case = json!({"family": "codec-state", "first": what, "entry_point": if each { "encode_each" } else { "encode_to" }});
                let (mut tx, _) = samples::codec_pair(&fams, true, false, false, false);
                let _ = catch_unwind(AssertUnwindSafe(|| {
                    if each {
                        let _ = tx.encode_each(&first);
                    } else {
                        let mut b = BytesMut::new();
                        let _ = tx.encode_to(&first, &mut b);
                    }
                }));
                match catch_unwind(AssertUnwindSafe(|| tx.encode_each(&reference))) {
                    Ok(Ok(frames)) => {
                        let got: Vec<Vec<u8>> = frames.iter().map(|f| f.to_vec()).collect();
                        if got != want {
                            report(&mut out, "codec_state", format!("after {what}, 1500 prefixes are written as {} frames (largest {} octets); a fresh codec writes {}", got.len(), got.iter().map(|f| f.len()).max().unwrap_or(0), want.len()), case);
                        }
                    }
                    _ => report(&mut out, "codec_state", format!("after {what} the codec no longer encodes 1500 prefixes"), case),
                }
            }
        }
    }
    // pairs of capability sets that are NOT mirror images: each side's ADD-PATH mode 0-3 (1 = can receive, 2 = can send), each
    // side's four-octet-AS and extended-message support.  Path ids travel only when the sender may send AND the receiver may
    // receive; whatever was negotiated, the peer's codec (negotiated from the opposite side) must decode the same routes.
    for family in [Family::IPV4, Family::IPV6, Family::IPV4_VPN, Family::L2VPN_EVPN] {
        let base: Vec<packet::Nlri> = samples::nlri_samples(family).into_iter().take(4).collect();
        for lmode in 0u8..4 {
            for rmode in 0u8..4 {
                for (las4, ras4) in [(true, true), (true, false), (false, true)] {
                    for (lext, rext) in [(false, false), (true, false), (true, true)] {
                        cases += 1;
                        let caps = |mode: u8, as4: bool, ext: bool, asn: u32| {
                            let mut v = vec![bgp::Capability::MultiProtocol(family), bgp::Capability::MultiProtocol(Family::IPV4)];
                            if mode > 0 {
                                v.push(bgp::Capability::AddPath(vec![(family, mode)]));
                            }
                            if ext {
                                v.push(bgp::Capability::ExtendedMessage);
                            }
                            if as4 {
                                v.push(bgp::Capability::FourOctetAsNumber(asn));
                            }
                            v
                        };
                        let local = caps(lmode, las4, lext, samples::LOCAL_AS);
                        let remote = caps(rmode, ras4, rext, samples::REMOTE_AS);
                        let mut tx = bgp::PeerCodec::negotiate(&local, &remote);
                        let mut rx = bgp::PeerCodec::negotiate(&remote, &local);
                        let ids = lmode & 2 != 0 && rmode & 1 != 0;
                        let case = json!({"family": samples::family_name(family), "pair": "asymmetric", "addpath_local": lmode, "addpath_remote": rmode,
                                          "as4": [las4, ras4], "ext": [lext, rext]});
                        for withdraw in [false, true] {
                            let entries: Vec<PathNlri> = base.iter().enumerate().map(|(i, n)| PathNlri { path_id: if ids { i as u32 + 7 } else { 0 }, nlri: n.clone() }).collect();
                            let msg = if withdraw {
                                bgp::Message::Update(bgp::Update::Unreach { family, entries: entries.clone() })
                            } else {
                                bgp::Message::Update(bgp::Update::Reach { family, entries: entries.clone(), nexthop: samples::nexthop_for(family), attr: Arc::new(samples::base_attrs()) })
                            };
                            let mut buf = BytesMut::new();
                            match catch_unwind(AssertUnwindSafe(|| tx.encode_to(&msg, &mut buf))) {
                                Err(_) => {
                                    report(&mut out, "encoder_panic", "the encoder panics".into(), case.clone());
                                    continue;
                                }
                                Ok(Err(_)) => {
                                    report(&mut out, "encode_error", "encode_to fails for four entries".into(), case.clone());
                                    continue;
                                }
                                Ok(Ok(_)) => {}
                            }
                            match decode_all(&mut rx, &buf, 4096) {
                                Err(m) => report(&mut out, "frame", m, case.clone()),
                                Ok(d) => {
                                    frames_total += d.frames.len() as u64;
                                    let want: Vec<(u32, packet::Nlri)> = entries.iter().map(|e| (e.path_id, e.nlri.clone())).collect();
                                    let got = if withdraw { &d.withdrawn } else { &d.entries };
                                    if *got != want {
                                        report(&mut out, "entries", format!("the peer decodes {} entries for {} encoded, or other ones (path ids in force: {})", got.len(), want.len(), ids), case.clone());
                                    }
                                }
                            }
                        }
                    }
                }
            }
        }
    }
    // OPEN: capability lists around and beyond the one-octet optional-parameter length
    for nfam in [1usize, 6, 12, 19] {
        for extra in [0usize, 3, 8] {
            cases += 1;
            let (mut caps, _) = samples::capability_lists(&samples::families()[..nfam], true, true, true, true);
            for i in 0..extra {
                caps.push(bgp::Capability::Unknown { code: 200 + i as u8, bin: vec![i as u8; 30] });
            }
            let msg = bgp::Message::Open(bgp::Open { as_number: 4200000001, holdtime: bgp::HoldTime::new(90).unwrap(), router_id: 0x01020304, capability: caps.clone() });
            let case = json!({"family": "open", "families": nfam, "extra": extra});
            let mut tx = bgp::PeerCodec::new();
            let mut buf = BytesMut::new();
            match catch_unwind(AssertUnwindSafe(|| tx.encode_to(&msg, &mut buf))) {
                Err(_) => report(&mut out, "encoder_panic", "the encoder panics on an OPEN".into(), case),
                Ok(Err(_)) => errs += 1,
                Ok(Ok(_)) => {
                    let mut rx = bgp::PeerCodec::new();
                    let mut b = BytesMut::from(&buf[..]);
                    match catch_unwind(AssertUnwindSafe(|| rx.try_parse(&mut b))) {
                        Ok(Ok(Some(bgp::ParsedMessage::Open(o)))) => {
                            let enc = |v: &Vec<bgp::Capability>| v.iter().map(|c| format!("{:?}", Into::<u8>::into(c))).collect::<Vec<String>>();
                            if o.capability.len() != caps.len() || enc(&o.capability) != enc(&caps) {
                                report(&mut out, "open", format!("OPEN decodes to {} capabilities for {} encoded", o.capability.len(), caps.len()), case);
                            }
                        }
                        Ok(Ok(_)) => report(&mut out, "open", "the encoded OPEN does not decode to an OPEN".into(), case),
                        Ok(Err(n)) => report(&mut out, "open", format!("the peer rejects the encoded OPEN: {}/{}", n.notification_code(), n.notification_subcode()), case),
                        Err(_) => report(&mut out, "open", "the decoder panics on the encoded OPEN".into(), case),
                    }
                }
            }
        }
    }
    writeln!(out, "{}", json!({"summary": {"cases": cases, "frames": frames_total, "encode_errors": errs}})).unwrap();
    out.flush().unwrap();
}
