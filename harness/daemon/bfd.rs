// Included into daemon/src/bfd.rs as `mod verif_harness` (guard: cfg osrg_rustybgp_verif).
#[allow(unused_imports)]
use super::*;
