// Included into daemon/src/bfd.rs as `mod verif_harness` (guard: cfg osrg_rustybgp_verif).
// Extra check X-bfd: the 16 cases of spec/Bfd/Bfd.tla on the real next_state.
//   VERIF_IN: "<current> <remote>" per line; VERIF_OUT: {"next": "..."} per line
#[allow(unused_imports)]
use super::*;
use std::io::{BufRead, Write as _};

fn st(s: &str) -> State {
    match s {
        "AdminDown" => State::AdminDown,
        "Down" => State::Down,
        "Init" => State::Init,
        "Up" => State::Up,
        x => panic!("harness: state {x}"),
    }
}

#[test]
fn bfd_replay() {
    let inp = std::env::var("VERIF_IN").expect("VERIF_IN");
    let outp = std::env::var("VERIF_OUT").expect("VERIF_OUT");
    let mut out = std::io::BufWriter::new(std::fs::File::create(outp).unwrap());
    for line in std::io::BufReader::new(std::fs::File::open(inp).unwrap()).lines() {
        let line = line.unwrap();
        let t: Vec<&str> = line.split_whitespace().collect();
        if t.len() < 2 {
            continue;
        }
        let n = next_state(st(t[0]), st(t[1]));
        writeln!(out, "{{\"next\":\"{:?}\",\"established\":{}}}", n, is_established(n)).unwrap();
    }
}
