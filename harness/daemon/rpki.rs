// Included into daemon/src/rpki.rs as `mod verif_harness` (guard: cfg osrg_rustybgp_verif).
// C13: replays behaviours of spec/RtrClient/RtrClient.tla on the real `RpkiClient::serve_inner`
// over `tokio::io::duplex`, writing each PDU's bytes in the fragments the model chose, and prints
// the VRPs installed per cache after every step.
//
// Input (env VERIF_IN): `seq <id>` then one op per line:
//   cacheresp <cut> | eod <cut> <serial> | notify <cut> <serial> | cachereset <cut> | error <cut> |
//   routerkey <cut> | announce <v> <cut> | withdraw <v> <cut> | end
// Output (env VERIF_OUT): one JSON object per op.

#[allow(unused_imports)]
use super::*;
use std::fmt::Write as _;
use std::io::Write as _;
use tokio::io::{AsyncReadExt, AsyncWriteExt};
use tokio_util::codec::Encoder;

const WAIT_MS: u64 = 3000;

fn vrp(v: &str) -> (packet::IpNet, u8, u32) {
    match v {
        "v1" => (packet::IpNet::new("10.0.0.0".parse().unwrap(), 8), 24, 64501),
        "v2" => (packet::IpNet::new("2001:db8::".parse().unwrap(), 32), 48, 64502),
        "v3" => (packet::IpNet::new("10.0.0.0".parse().unwrap(), 8), 16, 0), // same prefix as v1: one trie entry, two VRPs
        x => panic!("harness: vrp {x}"),
    }
}

fn vrp_name(net: &packet::IpNet, maxlen: u8, asn: u32) -> String {
    for n in ["v1", "v2", "v3"] {
        let (p, m, a) = vrp(n);
        if &p == net && m == maxlen && a == asn {
            return n.to_string();
        }
    }
    format!("?{}-{}-{}", net, maxlen, asn)
}

fn encode(msg: &rpki::Message) -> Vec<u8> {
    let mut codec = rpki::RtrCodec::new();
    let mut buf = bytes::BytesMut::new();
    codec.encode(msg, &mut buf).unwrap();
    buf.to_vec()
}

/// A third cache runs on the SAME address as the cache under test (another port): the same address value in another Arc.
/// Its one VRP is recognised by its AS number and must never be touched by the session under test.
const TWIN_AS: u32 = 64777;

fn twin_intact(tables: &TableHandle) -> bool {
    tables.collect_roa(packet::Family::IPV4).iter().any(|(_, roa)| roa.as_number == TWIN_AS)
}

fn installed(tables: &TableHandle, cache: &IpAddr) -> Vec<String> {
    let mut v = Vec::new();
    for fam in [packet::Family::IPV4, packet::Family::IPV6] {
        for (net, roa) in tables.collect_roa(fam) {
            if &*roa.source == cache && roa.as_number != TWIN_AS {
                v.push(vrp_name(&net, roa.max_length, roa.as_number));
            }
        }
    }
    v.sort();
    v
}

async fn wait_until<F: FnMut() -> bool>(mut f: F, ms: u64) -> bool {
    let deadline = std::time::Instant::now() + std::time::Duration::from_millis(ms);
    loop {
        if f() {
            return true;
        }
        if std::time::Instant::now() > deadline {
            return false;
        }
        tokio::time::sleep(std::time::Duration::from_millis(1)).await;
    }
}

struct World {
    tables: TableHandle,
    state: Arc<RpkiState>,
    server: Option<tokio::io::DuplexStream>,
    task: Option<tokio::task::JoinHandle<Result<(), Error>>>,
    cache: IpAddr,
    other: IpAddr,
    serial: u32,
}

async fn world() -> World {
    let tables: TableHandle = Arc::new(crate::table_manager::TableManager::new(1));
    let cache = IpAddr::V4(std::net::Ipv4Addr::new(192, 168, 0, 1));
    let other = IpAddr::V4(std::net::Ipv4Addr::new(192, 168, 0, 2));
    // the other cache's VRPs: same prefixes, must never be touched
    let osrc = Arc::new(other);
    let mut roas = Vec::new();
    for n in ["v1", "v2", "v3"] {
        let (p, m, a) = vrp(n);
        roas.push((p, Arc::new(table::Roa::new(m, a, osrc.clone()))));
    }
    tables.rpki_insert(roas);
    let twin = Arc::new(cache);
    tables.rpki_insert(vec![(packet::IpNet::new("172.16.0.0".parse().unwrap(), 12), Arc::new(table::Roa::new(24, TWIN_AS, twin)))]);
    let (client_io, server_io) = tokio::io::duplex(1 << 16);
    let state = Arc::new(RpkiState::default());
    let framed = Framed::new(client_io, rpki::RtrCodec::new());
    let t = tables.clone();
    let st = state.clone();
    let ra = Arc::new(cache);
    let task = tokio::spawn(async move {
        RpkiClient::serve_inner(framed, ra, CancellationToken::new(), Arc::new(Notify::new()), st, t).await
    });
    World { tables, state, server: Some(server_io), task: Some(task), cache, other, serial: 0 }
}

impl World {
    async fn write_cut(&mut self, bytes: &[u8], cut: usize) {
        let s = self.server.as_mut().unwrap();
        if cut == 0 || cut >= bytes.len() {
            let _ = s.write_all(bytes).await;
        } else {
            let _ = s.write_all(&bytes[..cut]).await;
            let _ = s.flush().await;
            for _ in 0..10 {
                tokio::task::yield_now().await;
            }
            tokio::time::sleep(std::time::Duration::from_millis(1)).await;
            let _ = s.write_all(&bytes[cut..]).await;
        }
        let _ = s.flush().await;
    }

    fn counter(&self, k: &str) -> i64 {
        let s = &self.state;
        match k {
            "cacheresp" => s.cache_response.load(Ordering::Relaxed),
            "eod" => s.end_of_data.load(Ordering::Relaxed),
            "notify" => s.serial_notify.load(Ordering::Relaxed),
            "cachereset" => s.cache_reset.load(Ordering::Relaxed),
            "error" => s.error.load(Ordering::Relaxed),
            "prefix" => s.received_ipv4.load(Ordering::Relaxed) + s.received_ipv6.load(Ordering::Relaxed),
            _ => 0,
        }
    }

    async fn apply(&mut self, tok: &[&str]) -> String {
        let mut note = String::new();
        let k = tok[0];
        if k == "end" {
            // session loss: on a PDU boundary, 5 octets into a PDU header, or 10 octets into a 20-octet IPv4 Prefix PDU
            let how = tok.get(1).copied().unwrap_or("clean");
            if how != "clean" {
                let pdu = encode(&rpki::Message::IpPrefix(rpki::Prefix {
                    net: packet::IpNet::new("198.51.100.0".parse().unwrap(), 24),
                    flags: 1,
                    max_length: 24,
                    as_number: 64999,
                }));
                let n = if how == "midhdr" { 5 } else { 10 };
                let s = self.server.as_mut().unwrap();
                let _ = s.write_all(&pdu[..n]).await;
                let _ = s.flush().await;
                tokio::time::sleep(std::time::Duration::from_millis(1)).await;
            }
            self.server = None;
            if let Some(t) = self.task.take() {
                if tokio::time::timeout(std::time::Duration::from_millis(WAIT_MS), t).await.is_err() {
                    note.push_str("client did not stop at end of stream;");
                }
            }
            return note;
        }
        let (bytes, cut, ctr): (Vec<u8>, usize, &str) = match k {
            "cacheresp" => (encode(&rpki::Message::CacheResponse { session_id: 7 }), tok[1].parse().unwrap(), "cacheresp"),
            "eod" => {
                self.serial += 1;
                (
                    encode(&rpki::Message::EndOfData {
                        session_id: 7,
                        serial_number: self.serial,
                        refresh_interval: 3600,
                        retry_interval: 600,
                        expire_interval: 7200,
                    }),
                    tok[1].parse().unwrap(),
                    "eod",
                )
            }
            "notify" => (
                encode(&rpki::Message::SerialNotify { session_id: 7, serial_number: self.serial + 1 }),
                tok[1].parse().unwrap(),
                "notify",
            ),
            "cachereset" | "cacheresetq" => (encode(&rpki::Message::CacheReset), tok[1].parse().unwrap(), "cachereset"),
            "error" => {
                // Error Report, code 2 (no data available), no encapsulated PDU, no text
                let b = vec![1u8, 10, 0, 2, 0, 0, 0, 16, 0, 0, 0, 0, 0, 0, 0, 0];
                (b, tok[1].parse().unwrap(), "error")
            }
            "routerkey" => {
                // Router Key PDU (type 9, RFC 8210 5.10): header + SKI(20) + ASN(4) + 4 bytes of key
                let mut b = vec![1u8, 9, 1, 0, 0, 0, 0, 36];
                b.extend_from_slice(&[0xAB; 20]);
                b.extend_from_slice(&64501u32.to_be_bytes());
                b.extend_from_slice(&[1, 2, 3, 4]);
                (b, tok[1].parse().unwrap(), "none")
            }
            "announce" | "withdraw" => {
                let (net, m, a) = vrp(tok[1]);
                let flags = if k == "announce" { 1 } else { 0 };
                (
                    encode(&rpki::Message::IpPrefix(rpki::Prefix { net, flags, max_length: m, as_number: a })),
                    tok[2].parse().unwrap(),
                    "prefix",
                )
            }
            x => panic!("harness: op {x}"),
        };
        let before = self.counter(ctr);
        if k.starts_with("cachereset") {
            // forget what the client has written so far: what counts is whether it answers the Cache Reset with a Reset Query
            let mut junk = [0u8; 4096];
            use futures::FutureExt;
            while let Some(Ok(n)) = self.server.as_mut().unwrap().read(&mut junk).now_or_never() {
                if n == 0 {
                    break;
                }
            }
        }
        self.write_cut(&bytes, cut).await;
        if ctr == "none" {
            // a PDU type the client does not use: progress is shown by a following Serial Notify being processed
            let b = self.counter("notify");
            let probe = encode(&rpki::Message::SerialNotify { session_id: 7, serial_number: self.serial });
            self.write_cut(&probe, 0).await;
            let st = self.state.clone();
            if !wait_until(|| st.serial_notify.load(Ordering::Relaxed) > b, WAIT_MS).await {
                note.push_str("no progress after a PDU type the client does not use;");
            }
        } else {
            let me = &*self;
            let ok = wait_until(|| me.counter(ctr) > before, WAIT_MS).await;
            if !ok {
                note.push_str("PDU was not processed;");
            }
        }
        for _ in 0..10 {
            tokio::task::yield_now().await;
        }
        if k.starts_with("cachereset") {
            // "cachereset": the client keeps what it has and asks nothing; "cacheresetq": it asks for a new snapshot (Reset
            // Query, PDU type 2).  Which of the two a client does is its choice - the harness reports when the behaviour is not
            // the one this step of the model stands for.
            let mut got = Vec::new();
            let mut buf = [0u8; 256];
            let deadline = std::time::Instant::now() + std::time::Duration::from_millis(15);
            while std::time::Instant::now() < deadline {
                match tokio::time::timeout(std::time::Duration::from_millis(5), self.server.as_mut().unwrap().read(&mut buf)).await {
                    Ok(Ok(n)) if n > 0 => got.extend_from_slice(&buf[..n]),
                    _ => {}
                }
            }
            let mut asked = false;
            let mut i = 0;
            while i + 8 <= got.len() {
                let l = u32::from_be_bytes([got[i + 4], got[i + 5], got[i + 6], got[i + 7]]) as usize;
                if got[i + 1] == 2 {
                    asked = true;
                }
                if l < 8 {
                    break;
                }
                i += l;
            }
            if asked != (k == "cacheresetq") {
                note.push_str("variant-not-taken;");
            }
        }
        note
    }

    fn project(&self) -> String {
        let inst = installed(&self.tables, &self.cache);
        let oth = installed(&self.tables, &self.other);
        format!(
            "{{\"inst\":[{}],\"other\":[{}],\"twin\":{},\"up\":{}}}",
            inst.iter().map(|x| format!("\"{}\"", x)).collect::<Vec<_>>().join(","),
            oth.iter().map(|x| format!("\"{}\"", x)).collect::<Vec<_>>().join(","),
            twin_intact(&self.tables),
            self.state.up.load(Ordering::Relaxed)
        )
    }
}

#[tokio::test]
async fn replay() {
    let Ok(inp) = std::env::var("VERIF_IN") else {
        return;
    };
    let outp = std::env::var("VERIF_OUT").expect("VERIF_OUT");
    let text = std::fs::read_to_string(&inp).expect("read VERIF_IN");
    let mut out = std::io::BufWriter::new(std::fs::File::create(&outp).expect("create VERIF_OUT"));
    let mut w: Option<World> = None;
    let mut seq = String::new();
    let mut step = 0usize;
    let mut dead = false;
    for line in text.lines() {
        let tok: Vec<&str> = line.split_whitespace().collect();
        if tok.is_empty() {
            continue;
        }
        if tok[0] == "seq" {
            if let Some(old) = w.take() {
                if let Some(t) = old.task {
                    t.abort();
                }
            }
            seq = tok[1].to_string();
            step = 0;
            dead = false;
            let mut nw = world().await;
            // the client opens with a Reset Query
            let _ = wait_until(|| nw.state.up.load(Ordering::Relaxed), WAIT_MS).await;
            let _ = &mut nw;
            w = Some(nw);
            continue;
        }
        step += 1;
        let world = w.as_mut().unwrap();
        let mut note = String::new();
        if !dead {
            note = world.apply(&tok).await;
            if note.contains("not processed") || note.contains("no progress") {
                dead = true; // the client is wedged: later steps of this sequence are not comparable
            }
        } else {
            note.push_str("skipped;");
        }
        let mut rec = String::new();
        write!(rec, "{{\"seq\":\"{}\",\"step\":{},\"state\":{},\"note\":\"{}\"}}", seq, step, world.project(), note).unwrap();
        writeln!(out, "{}", rec).unwrap();
    }
    out.flush().unwrap();
}
