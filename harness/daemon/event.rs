// Included into daemon/src/event/mod.rs as `mod verif_harness` (guard: cfg osrg_rustybgp_verif).
//
// End-to-end conformance harnesses that drive the REAL session code (accept_connection,
// PeerSession::run / session_loop / apply_disconnect, process_effects, the GR timer tasks, the real
// TableManager) with a scripted BGP speaker on a loopback socket, and print the projection of the
// real state after every model step.
//
//   gr_replay   C10   behaviours of spec/GrHelper/GrHelper.tla
//
// Input (env VERIF_IN) / output (env VERIF_OUT) are line based; see each test.

#[allow(unused_imports)]
use super::*;
use std::fmt::Write as _;
use std::io::Write as _;
use tokio::io::{AsyncReadExt, AsyncWriteExt};

const WAIT_MS: u64 = 4000;

pub(crate) fn mk_global() -> GlobalHandle {
    let (tx, _rx) = mpsc::unbounded_channel();
    let (bfd_tx, _bfd_rx) = mpsc::unbounded_channel();
    let mut g = Global::new(tx, bfd_tx);
    g.asn = 65001;
    g.router_id = Ipv4Addr::new(1, 0, 0, 1);
    Arc::new(tokio::sync::RwLock::new(g))
}

pub(crate) fn base_params(remote_addr: IpAddr) -> PeerParams {
    PeerParams {
        remote_addr,
        remote_port: Global::BGP_PORT,
        expected_remote_asn: 0,
        local_asn: 0,
        passive: true,
        rs_client: false,
        route_reflector: RouteReflectorConfig::default(),
        delete_on_disconnected: false,
        admin_down: false,
        state: SessionState::Idle,
        holdtime: 90,
        connect_retry_time: 3600,
        multihop_ttl: None,
        ttl_security: None,
        password: None,
        families: FnvHashMap::default(),
        send_max: FnvHashMap::default(),
        prefix_limits: FnvHashMap::default(),
        graceful_restart: None,
        llgr: None,
        bfd_config: None,
        neighbor_interface: None,
        bind_interface: None,
        export_policy: None,
    }
}

/// Connected loopback pair; the client side is bound to `src` (a 127.x.y.z address).
pub(crate) async fn pair_from(src: Ipv4Addr) -> (TcpStream, TcpStream) {
    let listener = tokio::net::TcpListener::bind("127.0.0.1:0").await.unwrap();
    let addr = listener.local_addr().unwrap();
    let sock = tokio::net::TcpSocket::new_v4().unwrap();
    sock.bind(SocketAddr::new(IpAddr::V4(src), 0)).unwrap();
    let (client, server) = tokio::join!(sock.connect(addr), listener.accept());
    (client.unwrap(), server.unwrap().0)
}

/// The scripted remote BGP speaker.
pub(crate) struct Remote {
    pub(crate) stream: Option<TcpStream>,
    pub(crate) codec: bgp::PeerCodec,
    pub(crate) rxbuf: bytes::BytesMut,
    pub(crate) daemon_open: Option<bgp::Open>,
    pub(crate) asn: u32,
}

impl Remote {
    pub(crate) fn new(stream: TcpStream, asn: u32) -> Self {
        Remote {
            stream: Some(stream),
            codec: bgp::PeerCodec::new(),
            rxbuf: bytes::BytesMut::with_capacity(1 << 16),
            daemon_open: None,
            asn,
        }
    }

    pub(crate) async fn send(&mut self, msg: &bgp::Message) -> bool {
        let mut buf = bytes::BytesMut::with_capacity(8192);
        if self.codec.encode_to(msg, &mut buf).is_err() {
            return false;
        }
        match self.stream.as_mut() {
            Some(s) => s.write_all(&buf).await.is_ok(),
            None => false,
        }
    }

    pub(crate) async fn send_raw(&mut self, bytes: &[u8]) -> bool {
        match self.stream.as_mut() {
            Some(s) => s.write_all(bytes).await.is_ok(),
            None => false,
        }
    }

    /// Next message from the daemon, or None on EOF / timeout / parse error.
    pub(crate) async fn recv(&mut self, ms: u64) -> Option<bgp::Message> {
        let deadline = tokio::time::Instant::now() + Duration::from_millis(ms);
        loop {
            match self.codec.try_parse(&mut self.rxbuf) {
                Ok(Some(parsed)) => {
                    if let Ok(mut it) = bgp::validate_message(parsed, true) {
                        if let Some(m) = it.next() {
                            return Some(m);
                        }
                    }
                    continue;
                }
                Ok(None) => {}
                Err(_) => return None,
            }
            let s = self.stream.as_mut()?;
            let left = deadline.checked_duration_since(tokio::time::Instant::now())?;
            match tokio::time::timeout(left, s.read_buf(&mut self.rxbuf)).await {
                Ok(Ok(0)) | Ok(Err(_)) | Err(_) => return None,
                Ok(Ok(_)) => {}
            }
        }
    }

    /// Read until the daemon's OPEN has been seen.
    pub(crate) async fn read_open(&mut self) -> bool {
        for _ in 0..4 {
            match self.recv(WAIT_MS).await {
                Some(bgp::Message::Open(o)) => {
                    self.daemon_open = Some(o);
                    return true;
                }
                Some(_) => {}
                None => return false,
            }
        }
        false
    }

    /// Send our OPEN + KEEPALIVE; negotiate our codec against the daemon's capabilities.
    pub(crate) async fn open_exchange(&mut self, rid: u32, hold: u16, caps: Vec<packet::Capability>) -> bool {
        let open = bgp::Message::Open(bgp::Open {
            as_number: self.asn,
            holdtime: HoldTime::new(hold).unwrap(),
            router_id: rid,
            capability: caps.clone(),
        });
        if !self.send(&open).await {
            return false;
        }
        // daemon answers with KEEPALIVE
        let mut got_ka = false;
        for _ in 0..4 {
            match self.recv(WAIT_MS).await {
                Some(bgp::Message::Keepalive) => {
                    got_ka = true;
                    break;
                }
                Some(bgp::Message::Open(o)) => self.daemon_open = Some(o),
                Some(_) => {}
                None => break,
            }
        }
        if !got_ka {
            return false;
        }
        if let Some(o) = &self.daemon_open {
            self.codec = bgp::PeerCodec::negotiate(&caps, &o.capability);
        }
        self.send(&bgp::Message::Keepalive).await
    }

    pub(crate) fn close(&mut self) {
        self.stream = None;
    }
}

pub(crate) async fn wait_until<F: FnMut() -> bool>(mut f: F, ms: u64) -> bool {
    let deadline = std::time::Instant::now() + Duration::from_millis(ms);
    loop {
        if f() {
            return true;
        }
        if std::time::Instant::now() > deadline {
            return false;
        }
        tokio::time::sleep(Duration::from_millis(2)).await;
    }
}

pub(crate) async fn settle() {
    for _ in 0..20 {
        tokio::task::yield_now().await;
    }
    tokio::time::sleep(Duration::from_millis(3)).await;
    for _ in 0..20 {
        tokio::task::yield_now().await;
    }
}

fn fam_of(s: &str) -> Family {
    match s {
        "v4" => Family::IPV4,
        "v6" => Family::IPV6,
        x => panic!("harness: family {x}"),
    }
}

fn fam_name(f: Family) -> &'static str {
    if f == Family::IPV4 {
        "v4"
    } else if f == Family::IPV6 {
        "v6"
    } else {
        "?"
    }
}

fn fams_of(s: &str) -> Vec<Family> {
    if s == "-" { vec![] } else { s.split(',').map(fam_of).collect() }
}

fn route_nlri(f: Family, x: u32) -> packet::Nlri {
    if f == Family::IPV4 {
        format!("10.1.{}.0/24", x).parse().unwrap()
    } else {
        format!("2001:db8:{:x}::/48", x).parse().unwrap()
    }
}

fn route_id(n: &packet::Nlri) -> u32 {
    match n {
        packet::Nlri::V4(p) => p.addr.octets()[2] as u32,
        packet::Nlri::V6(p) => p.addr.segments()[2] as u32,
        _ => 0,
    }
}

fn reach_msg(f: Family, x: u32, asn: u32, nollgr: bool) -> bgp::Message {
    reach_msg_c(f, x, asn, nollgr, false)
}

/// `stalec`: the route carries the LLGR_STALE community as received (it is stale further upstream)
fn reach_msg_c(f: Family, x: u32, asn: u32, nollgr: bool, stalec: bool) -> bgp::Message {
    let mut attrs = vec![
        packet::Attribute::new_with_value(packet::Attribute::ORIGIN, 0).unwrap(),
        packet::Attribute::empty_as_path().as_path_prepend(asn),
    ];
    let mut comm = Vec::new();
    if nollgr {
        comm.extend_from_slice(&[0xff, 0xff, 0x00, 0x07]);
    }
    if stalec {
        comm.extend_from_slice(&[0xff, 0xff, 0x00, 0x06]);
    }
    if !comm.is_empty() {
        attrs.push(packet::Attribute::new_with_bin(packet::Attribute::COMMUNITY, comm).unwrap());
    }
    let nexthop = if f == Family::IPV4 {
        bgp::Nexthop::V4(Ipv4Addr::new(127, 0, 0, 1))
    } else {
        bgp::Nexthop::V6("2001:db8::1".parse().unwrap())
    };
    bgp::Message::Update(bgp::Update::Reach {
        family: f,
        entries: vec![packet::PathNlri { path_id: 0, nlri: route_nlri(f, x) }],
        nexthop: Some(nexthop),
        attr: Arc::new(attrs),
    })
}

fn unreach_msg(f: Family, x: u32) -> bgp::Message {
    bgp::Message::Update(bgp::Update::Unreach {
        family: f,
        entries: vec![packet::PathNlri { path_id: 0, nlri: route_nlri(f, x) }],
    })
}

struct GrWorld {
    global: GlobalHandle,
    tables: TableHandle,
    addr: IpAddr,
    remote: Option<Remote>,
    task: Option<tokio::task::JoinHandle<()>>,
    active_tx: mpsc::UnboundedSender<TcpStream>,
    _active_rx: mpsc::UnboundedReceiver<TcpStream>,
    sub: crate::table_manager::Subscription,
    sess: &'static str,
}

async fn gr_world() -> GrWorld {
    let global = mk_global();
    let tables: TableHandle = Arc::new(TableManager::new(2));
    let addr = IpAddr::V4(Ipv4Addr::new(127, 0, 0, 1));
    let mut p = base_params(addr);
    p.families.insert(Family::IPV4, 0);
    p.families.insert(Family::IPV6, 0);
    p.graceful_restart = Some(GrPeerConfig {
        restart_time: 3600,
        notification_enabled: true,
        families: vec![Family::IPV4, Family::IPV6],
    });
    p.llgr = Some(LlgrPeerConfig { families: vec![(Family::IPV4, 72000), (Family::IPV6, 72000)] });
    global.write().await.add_peer(p, None).unwrap();
    let (active_tx, _active_rx) = mpsc::unbounded_channel();
    let sub = tables.subscribe(false);
    GrWorld { global, tables, addr, remote: None, task: None, active_tx, _active_rx, sub, sess: "down" }
}

impl GrWorld {
    async fn ctx(&self) -> Arc<std::sync::Mutex<PeerContext>> {
        Arc::clone(&self.global.read().await.peers.get(&self.addr).unwrap().context)
    }

    async fn join_task(&mut self) -> bool {
        if let Some(t) = self.task.take() {
            return tokio::time::timeout(Duration::from_millis(WAIT_MS), t).await.is_ok();
        }
        true
    }

    fn routes(&self, f: Family) -> Vec<(u32, bool, bool)> {
        let mut v = Vec::new();
        for d in self.tables.collect_paths(table::TableQuery::AdjIn(self.addr), f, vec![], true) {
            for p in &d.paths {
                v.push((route_id(&d.net), p.stale, p.source.is_llgr_stale()));
            }
        }
        v.sort();
        v
    }

    async fn project(&self) -> String {
        let ctx = self.ctx().await;
        let (gr, rt, lt) = {
            let c = ctx.lock().unwrap();
            let mut lt: Vec<&'static str> = c
                .llgr_family_timers
                .iter()
                .filter(|(_, tx)| !tx.is_closed())
                .map(|(f, _)| fam_name(*f))
                .collect();
            lt.sort();
            (
                crate::gr::verif_harness::proj_gr(&c.gr_state),
                c.gr_restart_timer.as_ref().is_some_and(|t| !t.is_closed()),
                lt,
            )
        };
        let mut s = String::new();
        write!(s, "{{\"gr\":{},\"rt\":{},\"lt\":[", gr, rt).unwrap();
        s.push_str(&lt.iter().map(|x| format!("\"{}\"", x)).collect::<Vec<_>>().join(","));
        write!(s, "],\"sess\":\"{}\",\"routes\":{{", self.sess).unwrap();
        let mut parts = Vec::new();
        for f in [Family::IPV4, Family::IPV6] {
            let r = self.routes(f);
            parts.push(format!(
                "\"{}\":[{}]",
                fam_name(f),
                r.iter().map(|(x, st, ll)| format!("[{},{},{}]", x, st, ll)).collect::<Vec<_>>().join(",")
            ));
        }
        s.push_str(&parts.join(","));
        s.push_str("}}");
        s
    }

    async fn wait_eor_event(&mut self) -> bool {
        let deadline = tokio::time::Instant::now() + Duration::from_millis(WAIT_MS);
        loop {
            let left = match deadline.checked_duration_since(tokio::time::Instant::now()) {
                Some(l) => l,
                None => return false,
            };
            match tokio::time::timeout(left, self.sub.rx.recv()).await {
                Ok(Some(crate::table_manager::BgpEvent::EndOfRib(_))) => return true,
                Ok(Some(_)) => {}
                _ => return false,
            }
        }
    }

    fn drain_events(&mut self) {
        while self.sub.rx.try_recv().is_ok() {}
    }

    /// Returns "" or a note about a wait that timed out.
    async fn apply(&mut self, tok: &[&str]) -> String {
        let mut note = String::new();
        match tok[0] {
            "connect" => {
                let (client, server) = pair_from(Ipv4Addr::new(127, 0, 0, 1)).await;
                let sess = accept_connection(&self.global, &self.tables, server, crate::fsm::Role::Passive).await;
                match sess {
                    Some(s) => {
                        let g = self.global.clone();
                        let tx = self.active_tx.clone();
                        self.task = Some(tokio::spawn(async move { s.run(g, tx).await }));
                        let mut r = Remote::new(client, 65002);
                        if !r.read_open().await {
                            note.push_str("no OPEN from daemon;");
                        }
                        self.remote = Some(r);
                        self.sess = "connecting";
                    }
                    None => note.push_str("accept_connection refused;"),
                }
            }
            "fail" => {
                if let Some(r) = self.remote.as_mut() {
                    r.close();
                }
                self.remote = None;
                if !self.join_task().await {
                    note.push_str("session task did not end;");
                }
                self.sess = "down";
            }
            "establish" => {
                let gr = fams_of(tok[1]);
                let ll = fams_of(tok[2]);
                let nbit = tok[3] == "1";
                let mut caps = vec![
                    packet::Capability::MultiProtocol(Family::IPV4),
                    packet::Capability::MultiProtocol(Family::IPV6),
                    packet::Capability::FourOctetAsNumber(65002),
                ];
                if !gr.is_empty() {
                    caps.push(packet::Capability::GracefulRestart {
                        flags: if nbit { 0x4 } else { 0 },
                        // the peer's Restart Time (default an hour: expiry is injected; 0 = the timer fires at once)
                        restart_time: tok.get(4).and_then(|x| x.parse().ok()).unwrap_or(3600),
                        families: gr.iter().map(|f| (*f, 0)).collect(),
                    });
                }
                if !ll.is_empty() {
                    caps.push(packet::Capability::LongLivedGracefulRestart(
                        ll.iter().map(|f| (*f, 0u8, 72000u32)).collect(),
                    ));
                }
                self.drain_events();
                let r = self.remote.as_mut().unwrap();
                if !r.open_exchange(u32::from(Ipv4Addr::new(10, 0, 0, 2)), 90, caps).await {
                    note.push_str("OPEN exchange failed;");
                }
                // the daemon's initial dump ends with one End-of-RIB per family
                let mut eors = 0;
                while eors < 2 {
                    match r.recv(WAIT_MS).await {
                        Some(bgp::Message::Update(bgp::Update::EndOfRib(_))) => eors += 1,
                        Some(_) => {}
                        None => {
                            note.push_str("no End-of-RIB from daemon;");
                            break;
                        }
                    }
                }
                self.sess = "up";
            }
            "announce" => {
                let f = fam_of(tok[1]);
                let x: u32 = tok[2].parse().unwrap();
                let n = tok[3] == "1";
                let stalec = tok.get(4) == Some(&"1");
                let r = self.remote.as_mut().unwrap();
                r.send(&reach_msg_c(f, x, 65002, n, stalec)).await;
                let tables = self.tables.clone();
                let addr = self.addr;
                let ok = wait_until(
                    || {
                        tables
                            .collect_paths(table::TableQuery::AdjIn(addr), f, vec![], true)
                            .iter()
                            .any(|d| route_id(&d.net) == x && d.paths.iter().any(|p| !p.stale && !p.source.is_llgr_stale()
                                && table::has_no_llgr_community(&p.attr) == n))
                    },
                    WAIT_MS,
                )
                .await;
                if !ok {
                    note.push_str("announced route did not appear;");
                }
            }
            "withdraw" => {
                let f = fam_of(tok[1]);
                let x: u32 = tok[2].parse().unwrap();
                let r = self.remote.as_mut().unwrap();
                r.send(&unreach_msg(f, x)).await;
                let tables = self.tables.clone();
                let addr = self.addr;
                let ok = wait_until(
                    || {
                        !tables
                            .collect_paths(table::TableQuery::AdjIn(addr), f, vec![], true)
                            .iter()
                            .any(|d| route_id(&d.net) == x)
                    },
                    WAIT_MS,
                )
                .await;
                if !ok {
                    note.push_str("withdrawn route still present;");
                }
            }
            "eor" => {
                let f = fam_of(tok[1]);
                self.drain_events();
                let r = self.remote.as_mut().unwrap();
                r.send(&bgp::Message::eor(f)).await;
                if !self.wait_eor_event().await {
                    note.push_str("End-of-RIB not observed;");
                }
                settle().await;
            }
            "settle" => {
                // give timers that are due (a Restart Time of 0) the time to fire
                tokio::time::sleep(Duration::from_millis(60)).await;
            }
            "drop" => {
                let reason = tok[1];
                match reason {
                    "io" => {}
                    "remote_cease" | "remote_hard_reset" | "remote_noncease" => {
                        let n = match reason {
                            "remote_cease" => rustybgp_packet::Notification::CeaseAdministrativeReset,
                            "remote_hard_reset" => rustybgp_packet::Notification::CeaseHardReset,
                            _ => rustybgp_packet::Notification::UpdateMalformedAttributeList,
                        };
                        let r = self.remote.as_mut().unwrap();
                        r.send(&bgp::Message::Notification(n)).await;
                    }
                    "local_noncease" => {
                        // UPDATE whose attribute length overruns the message: NLRI cannot be located
                        let mut b = vec![0xffu8; 16];
                        b.extend_from_slice(&[0, 25, 2, 0, 0, 0, 200, 0x40, 1]);
                        let r = self.remote.as_mut().unwrap();
                        r.send_raw(&b).await;
                        // wait for the daemon's NOTIFICATION before closing
                        let _ = r.recv(WAIT_MS).await;
                    }
                    "admin" => {
                        let ctx = self.ctx().await;
                        ctx.lock().unwrap().force_down(CloseReason::AdminShutdown, false);
                        let r = self.remote.as_mut().unwrap();
                        let _ = r.recv(WAIT_MS).await;
                    }
                    "admin_down_flag" => {
                        self.global.write().await.peers.get_mut(&self.addr).unwrap().admin_down = true;
                    }
                    x => panic!("harness: reason {x}"),
                }
                if let Some(r) = self.remote.as_mut() {
                    r.close();
                }
                self.remote = None;
                if !self.join_task().await {
                    note.push_str("session task did not end;");
                }
                if reason == "admin_down_flag" {
                    self.global.write().await.peers.get_mut(&self.addr).unwrap().admin_down = false;
                }
                self.sess = "down";
                settle().await;
            }
            "timer" => {
                let ctx = self.ctx().await;
                ctx.lock().unwrap().fire_gr_timer();
                let c2 = ctx.clone();
                wait_until(|| !matches!(crate::gr::verif_harness::gr_variant(&c2.lock().unwrap().gr_state), "PeerRestarting"), WAIT_MS).await;
                settle().await;
            }
            "llgrtimer" => {
                let f = fam_of(tok[1]);
                let ctx = self.ctx().await;
                let tx = ctx.lock().unwrap().llgr_family_timers.remove(&f);
                if let Some(tx) = tx {
                    let _ = tx.send(());
                }
                settle().await;
                settle().await;
            }
            x => panic!("harness: op {x}"),
        }
        note
    }
}

#[tokio::test]
async fn gr_replay() {
    let Ok(inp) = std::env::var("VERIF_IN") else {
        return;
    };
    let outp = std::env::var("VERIF_OUT").expect("VERIF_OUT");
    let text = std::fs::read_to_string(&inp).expect("read VERIF_IN");
    let mut out = std::io::BufWriter::new(std::fs::File::create(&outp).expect("create VERIF_OUT"));
    let mut w: Option<GrWorld> = None;
    let mut seq = String::new();
    let mut step = 0usize;
    for line in text.lines() {
        let tok: Vec<&str> = line.split_whitespace().collect();
        if tok.is_empty() {
            continue;
        }
        if tok[0] == "seq" {
            if let Some(mut old) = w.take() {
                if let Some(r) = old.remote.as_mut() {
                    r.close();
                }
                old.remote = None;
                let _ = old.join_task().await;
            }
            seq = tok[1].to_string();
            step = 0;
            w = Some(gr_world().await);
            continue;
        }
        step += 1;
        let world = w.as_mut().unwrap();
        let note = world.apply(&tok).await;
        let st = world.project().await;
        writeln!(
            out,
            "{{\"seq\":\"{}\",\"step\":{},\"state\":{},\"note\":\"{}\"}}",
            seq, step, st, note
        )
        .unwrap();
    }
    out.flush().unwrap();
}

// =====================================================================================================
// C01: export pipeline (spec/Export/Export.tla).  A real TableManager, real Sources feeding it, and a
// real PeerSession for the observing neighbour whose event delivery (handle_prefix_update), flushing
// (flush_tx) and route refresh (do_route_refresh) are stepped one model action at a time; the bytes
// written to the loopback socket are decoded on the other side into the neighbour's Adj-RIB-In.
//
// Input lines:  seq <id> <sendmax>
//               announce <src> <p> <cls> | withdraw <src> <p> | peerdown <src> | markllgr <src>
//               deliver | flush | refresh | fresh
// =====================================================================================================

struct Observer {
    sess: PeerSession,
    stream: TcpStream,
    remote: Remote,
    local: SocketAddr,
    peer: SocketAddr,
}

struct ExWorld {
    global: GlobalHandle,
    tables: TableHandle,
    obs_addr: IpAddr,
    sendmax: usize,
    sources: FnvHashMap<String, Arc<table::Source>>,
    /// attribute sets are interned per (source, class), as the daemon does for identical re-announcements
    attrs: FnvHashMap<(String, String), Arc<Vec<packet::Attribute>>>,
    obs: Option<Observer>,
    mirror: std::collections::BTreeMap<(String, u32), (String, String, bool)>,
    scen: String,
    irej: bool,
}

fn ex_src_addr(s: &str) -> IpAddr {
    match s {
        "s1" => IpAddr::V4(Ipv4Addr::new(10, 0, 0, 1)),
        "s2" => IpAddr::V4(Ipv4Addr::new(10, 0, 0, 2)),
        "o" => IpAddr::V4(Ipv4Addr::new(127, 0, 0, 1)),
        x => panic!("harness: src {x}"),
    }
}

fn ex_src_asn(s: &str) -> u32 {
    match s {
        "s1" => 65011,
        "s2" => 65012,
        _ => 65002,
    }
}

fn ex_src_of_asn(a: u32) -> &'static str {
    match a {
        65011 => "s1",
        65012 => "s2",
        65002 => "o",
        _ => "?",
    }
}

/// The sessions of a scenario.  "ebgp": everybody external (ranking by router id: o < s1 < s2).  "ibgp": the observer and
/// s2 are internal non-client sessions (split horizon keeps s2's routes from the observer), s1 is external and therefore
/// preferred.  "rs": the observer and s1 are route-server clients, s2 is a plain external peer (the route-server boundary
/// keeps its routes from the observer).  "rr": like "ibgp", but the observer is a route-reflector CLIENT, so the internal
/// non-client s2 is reflected to it (nothing is suppressed).  "confed": the observer is a confederation-external peer (member
/// AS 65002 of confederation 64512), s1 and s2 are plain external; the observer's own routes rank last (RFC 5065: treated as
/// internal in the decision).  These two scenarios run on a two-shard table manager.
fn ex_new_source(s: &str, scen: &str) -> Arc<table::Source> {
    // router ids implement the model's SrcRank among sessions of the same kind: o (1) < s1 (2) < s2 (3)
    let rid = match s {
        "o" => 1,
        "s1" => 2,
        _ => 3,
    };
    let (asn, role) = match (scen, s) {
        ("ibgp", "s1") | ("rr", "s1") => (ex_src_asn(s), PeerRole::Ebgp),
        ("ibgp", _) => (65001, PeerRole::Ibgp),
        ("rr", "o") => (65001, PeerRole::IbgpRrClient),
        ("rr", _) => (65001, PeerRole::Ibgp),
        ("confed", "o") => (65002, PeerRole::ConfedEbgp),
        ("rs", "s2") => (ex_src_asn(s), PeerRole::Ebgp),
        ("rs", _) => (ex_src_asn(s), PeerRole::RsClient),
        _ => (ex_src_asn(s), PeerRole::Ebgp),
    };
    Arc::new(table::Source::new(ex_src_addr(s), IpAddr::V4(Ipv4Addr::new(127, 0, 0, 9)), asn, 65001, Ipv4Addr::new(1, 1, 1, rid), role))
}

fn ex_nexthop(s: &str) -> Ipv4Addr {
    match s {
        "s1" => Ipv4Addr::new(192, 0, 2, 1),
        "s2" => Ipv4Addr::new(192, 0, 2, 2),
        _ => Ipv4Addr::new(192, 0, 2, 3),
    }
}

fn ex_prefix(p: &str) -> packet::Nlri {
    match p {
        "p1" => "10.1.1.0/24".parse().unwrap(),
        "p2" => "10.1.2.0/24".parse().unwrap(),
        "p3" => "10.1.3.0/24".parse().unwrap(),
        x => panic!("harness: prefix {x}"),
    }
}

fn ex_prefix_name(n: &packet::Nlri) -> String {
    for p in ["p1", "p2", "p3"] {
        if &ex_prefix(p) == n {
            return p.to_string();
        }
    }
    format!("?{}", n)
}

fn ex_attrs(src: &str, cls: &str) -> Arc<Vec<packet::Attribute>> {
    // class "f": what the import policy of the export world rejects (community 65000:9)
    let c: u32 = (65000u32 << 16) | if cls == "x" { 1 } else if cls == "f" { 9 } else { 2 };
    Arc::new(vec![
        packet::Attribute::new_with_value(packet::Attribute::ORIGIN, 0).unwrap(),
        packet::Attribute::empty_as_path().as_path_prepend(ex_src_asn(src)),
        packet::Attribute::new_with_bin(packet::Attribute::COMMUNITY, c.to_be_bytes().to_vec()).unwrap(),
    ])
}

/// (src, cls, llgr) recovered from exported attributes
fn ex_content(attr: &[packet::Attribute]) -> (String, String, bool) {
    let mut src = "?".to_string();
    let mut cls = "?".to_string();
    let mut ll = false;
    for a in attr {
        if a.code() == packet::Attribute::AS_PATH {
            if let Some(o) = a.as_path_origin() {
                src = ex_src_of_asn(o).to_string();
            }
        }
        if a.code() == packet::Attribute::COMMUNITY {
            if let Some(b) = a.binary() {
                for c in b.chunks(4) {
                    let v = u32::from_be_bytes([c[0], c[1], c[2], c[3]]);
                    if v == 0xffff_0006 {
                        ll = true;
                    } else if v >> 16 == 65000 {
                        cls = if v & 0xffff == 1 { "x".into() } else { "y".into() };
                    }
                }
            }
        }
    }
    (src, cls, ll)
}

async fn ex_observer(global: &GlobalHandle, tables: &TableHandle, sendmax: usize, scen: &str) -> Observer {
    let obs_asn: u32 = if scen == "ibgp" || scen == "rr" { 65001 } else { 65002 };
    let (client, server) = pair_from(Ipv4Addr::new(127, 0, 0, 1)).await;
    let addr = IpAddr::V4(Ipv4Addr::new(127, 0, 0, 1));
    let mut sess = accept_connection(global, tables, server, crate::fsm::Role::Passive)
        .await
        .expect("accept_connection");
    let stream = sess.stream.take().unwrap();
    let peer = stream.peer_addr().unwrap();
    let local = stream.local_addr().unwrap();
    let mut caps = vec![
        packet::Capability::MultiProtocol(Family::IPV4),
        packet::Capability::FourOctetAsNumber(obs_asn),
    ];
    if sendmax > 1 {
        caps.push(packet::Capability::AddPath(vec![(Family::IPV4, 1)]));
    }
    let daemon_caps = global.read().await.peers.get(&addr).unwrap().config.local_cap.clone();
    let mut remote = Remote::new(client, obs_asn);
    remote.codec = bgp::PeerCodec::negotiate(&caps, &daemon_caps);
    let role = sess.role;
    let inputs = vec![
        crate::fsm::Input::Connected(false),
        crate::fsm::Input::MessageReceived(bgp::Message::Open(bgp::Open {
            as_number: obs_asn,
            holdtime: HoldTime::new(90).unwrap(),
            router_id: u32::from(Ipv4Addr::new(10, 9, 9, 9)),
            capability: caps,
        })),
        crate::fsm::Input::MessageReceived(bgp::Message::Keepalive),
    ];
    for i in inputs {
        let outs = sess.conn_arbiter.lock().unwrap().process(role, i);
        let (_step, effects) = sess.apply_outputs(outs, local, peer).await;
        sess.process_effects(effects, global).await;
    }
    Observer { sess, stream, remote, local, peer }
}

/// The import policy of the export world: it rejects class "f" (the `filter` operation announces a route in that form,
/// community 65000:9) and, when `also_y`, class "y" (community 65000:2) as well.
fn ex_import_policy(also_y: bool) -> Arc<table::PolicyAssignment> {
    let mut pats = vec!["65000:9".to_string()];
    if also_y {
        pats.push("65000:2".to_string());
    }
    let mut pt = table::PolicyTable::new();
    pt.add_defined_set(table::DefinedSetConfig::Community { name: "rej".into(), patterns: pats }).map_err(|_| ()).unwrap();
    pt.add_statement("s", vec![table::ConditionConfig::CommunitySet("rej".into(), table::MatchOption::Any)], Some(table::Disposition::Reject), table::Actions::default())
        .map_err(|_| ())
        .unwrap();
    pt.add_policy("p", vec!["s".into()]).map_err(|_| ()).unwrap();
    pt.add_assignment("global", table::PolicyDirection::Import, table::Disposition::Accept, vec!["p".into()]).map_err(|_| ()).unwrap().1
}

impl ExWorld {
    async fn new(sendmax: usize, reject: &str, scen: &str) -> Self {
        let global = mk_global();
        let tables: TableHandle = Arc::new(TableManager::new(if scen == "rr" || scen == "confed" { 2 } else { 1 }));
        if tables.shards.len() == 2 {
            // the model is told which shard holds which prefix (destination ids are allocated per shard): p1 -> 1, p2 -> 0,
            // p3 -> 1.  Verified here on the real dealer; a different mapping is a harness problem, not a finding.
            let probe = ex_new_source("s1", scen);
            for (p, want) in [("p1", 1usize), ("p2", 0), ("p3", 1)] {
                let _ = tables.insert_route(probe.clone(), Family::IPV4, packet::PathNlri::new(ex_prefix(p)), Some(bgp::Nexthop::V4(ex_nexthop("s1"))), ex_attrs("s1", "x"), None, 0);
                let got = (0..2).find(|i| tables.shards[*i].lock().unwrap().rtable.state(Family::IPV4).num_destination == 1);
                tables.remove_route(probe.clone(), Family::IPV4, packet::PathNlri::new(ex_prefix(p)), None, 0);
                assert!(got == Some(want), "harness: prefix {p} is dealt to shard {got:?}, the model assumes {want}");
            }
        }
        if scen == "confed" {
            global.write().await.confederation = Some(ConfederationConfig { id: 64512, members: [65002u32].into_iter().collect() });
        }
        // `reject` = <class|->[@<source>]: the neighbour's export policy rejects the routes of one attribute class (they carry
        // the community 65000:<n>) and / or the routes of one source.  The source half is an RPKI condition: ROAs make that
        // source's routes Invalid and everybody else's Valid, and the assignment is ACCUMULATED over two calls (the RPKI
        // policy first), as an operator issuing two AddPolicyAssignment requests builds it.
        let (reject, rej_src) = match reject.split_once('@') {
            Some((c, s)) => (c, Some(s)),
            None => (reject, None),
        };
        let rejecting = |n: u32, rpki: bool| {
            let mut pt = table::PolicyTable::new();
            pt.add_defined_set(table::DefinedSetConfig::Community { name: "rej".into(), patterns: vec![format!("65000:{n}")] }).map_err(|_| ()).unwrap();
            pt.add_statement("s", vec![table::ConditionConfig::CommunitySet("rej".into(), table::MatchOption::Any)], Some(table::Disposition::Reject), table::Actions::default())
                .map_err(|_| ())
                .unwrap();
            pt.add_policy("p", vec!["s".into()]).map_err(|_| ()).unwrap();
            if rpki {
                pt.add_statement("sr", vec![table::ConditionConfig::Rpki(table::RpkiValidationState::Invalid)], Some(table::Disposition::Reject), table::Actions::default())
                    .map_err(|_| ())
                    .unwrap();
                pt.add_policy("pr", vec!["sr".into()]).map_err(|_| ()).unwrap();
                pt.add_assignment("global", table::PolicyDirection::Export, table::Disposition::Accept, vec!["pr".into()]).map_err(|_| ()).unwrap();
            }
            let (_, a) = pt.add_assignment("global", table::PolicyDirection::Export, table::Disposition::Accept, vec!["p".into()]).map_err(|_| ()).unwrap();
            a
        };
        tables.import_policy.store(Some(ex_import_policy(false)));
        // community number of the rejected class; 7 is carried by no route
        let n = match reject {
            "x" => 1,
            "y" => 2,
            _ => 7,
        };
        if reject != "-" || rej_src.is_some() {
            // the neighbour's own export policy rejects class `reject`; the global one (which the neighbour's overrides)
            // rejects the OTHER class (and knows no RPKI condition), so that using the wrong one anywhere shows
            tables.export_policy.store(Some(rejecting(if n == 7 { 1 } else { 3 - n }, false)));
        }
        if let Some(rs) = rej_src {
            let cache = Arc::new(IpAddr::V4(Ipv4Addr::new(192, 0, 2, 200)));
            let roas = ["s1", "s2", "o"]
                .iter()
                .filter(|s| **s != rs)
                .map(|s| (packet::IpNet::new(IpAddr::V4(Ipv4Addr::new(10, 1, 0, 0)), 16), Arc::new(table::Roa::new(24, ex_src_asn(s), cache.clone()))))
                .collect();
            tables.rpki_insert(roas);
        }
        let obs_addr = IpAddr::V4(Ipv4Addr::new(127, 0, 0, 1));
        let mut p = base_params(obs_addr);
        if sendmax > 1 {
            p.families.insert(Family::IPV4, 2);
            p.send_max.insert(Family::IPV4, sendmax);
        }
        match scen {
            "ibgp" => {
                p.expected_remote_asn = 65001;
                p.local_asn = 65001;
            }
            "rr" => {
                p.expected_remote_asn = 65001;
                p.local_asn = 65001;
                p.route_reflector = RouteReflectorConfig { route_reflector_client: true, route_reflector_cluster_id: None };
            }
            "rs" => p.rs_client = true,
            _ => {}
        }
        global.write().await.add_peer(p, None).unwrap();
        if reject != "-" || rej_src.is_some() {
            global.read().await.peers.get(&obs_addr).unwrap().state.export_policy.store(Some(rejecting(n, rej_src.is_some())));
        }
        let mut sources = FnvHashMap::default();
        for s in ["s1", "s2", "o"] {
            sources.insert(s.to_string(), ex_new_source(s, scen));
        }
        let obs = Some(ex_observer(&global, &tables, sendmax, scen).await);
        ExWorld { global, tables, obs_addr, sendmax, sources, attrs: FnvHashMap::default(), obs, mirror: Default::default(), scen: scen.to_string(), irej: false }
    }

    /// flush the session and read everything it wrote (a KEEPALIVE written afterwards marks the end)
    async fn flush_and_read(&mut self) -> String {
        let mut note = String::new();
        let o = self.obs.as_mut().unwrap();
        if !o.sess.flush_tx(&mut o.stream).await {
            note.push_str("flush_tx failed;");
        }
        let mut marker = bytes::BytesMut::new();
        bgp::PeerCodec::new().encode_to(&bgp::Message::Keepalive, &mut marker).unwrap();
        // two KEEPALIVEs: the daemon's own control KEEPALIVE may precede, so use a distinctive pair
        let _ = o.stream.write_all(&marker).await;
        let _ = o.stream.write_all(&marker).await;
        let mut ka = 0;
        loop {
            match o.remote.recv(WAIT_MS).await {
                Some(bgp::Message::Keepalive) => {
                    ka += 1;
                    if ka >= 2 {
                        break;
                    }
                }
                Some(bgp::Message::Update(bgp::Update::Reach { entries, attr, .. })) => {
                    ka = 0;
                    let c = ex_content(&attr);
                    for e in entries {
                        self.mirror.insert((ex_prefix_name(&e.nlri), e.path_id), c.clone());
                    }
                }
                Some(bgp::Message::Update(bgp::Update::Unreach { entries, .. })) => {
                    ka = 0;
                    for e in entries {
                        self.mirror.remove(&(ex_prefix_name(&e.nlri), e.path_id));
                    }
                }
                Some(_) => {
                    ka = 0;
                }
                None => {
                    note.push_str("read from session failed;");
                    break;
                }
            }
        }
        note
    }

    async fn apply(&mut self, tok: &[&str]) -> String {
        let mut note = String::new();
        match tok[0] {
            "announce" | "filter" => {
                let cls = if tok[0] == "filter" { "f" } else { tok[3] };
                let src = self.sources[tok[1]].clone();
                let nh = bgp::Nexthop::V4(ex_nexthop(tok[1]));
                self.tables.insert_route(
                    src,
                    Family::IPV4,
                    packet::PathNlri { path_id: 0, nlri: ex_prefix(tok[2]) },
                    Some(nh),
                    self.attrs
                        .entry((tok[1].to_string(), cls.to_string()))
                        .or_insert_with(|| ex_attrs(tok[1], cls))
                        .clone(),
                    None,
                    0,
                );
            }
            "withdraw" => {
                let src = self.sources[tok[1]].clone();
                self.tables.remove_route(
                    src,
                    Family::IPV4,
                    packet::PathNlri { path_id: 0, nlri: ex_prefix(tok[2]) },
                    None,
                    0,
                );
            }
            "peerdown" => {
                self.tables.drop_families(ex_src_addr(tok[1]), &[Family::IPV4]);
                self.sources.insert(tok[1].to_string(), ex_new_source(tok[1], &self.scen));
            }
            "impflip" => {
                self.irej = !self.irej;
                self.tables.import_policy.store(Some(ex_import_policy(self.irej)));
            }
            "softin" => {
                self.tables.soft_reset_in(ex_src_addr(tok[1]));
            }
            "nhdown" | "nhup" => {
                self.tables.update_nexthop_validity(IpAddr::V4(ex_nexthop(tok[1])), tok[0] == "nhup");
            }
            "markllgr" => {
                self.tables.mark_llgr_stale(ex_src_addr(tok[1]), &[Family::IPV4]);
            }
            "deliver" => {
                let o = self.obs.as_mut().unwrap();
                use futures::FutureExt;
                match o.sess.peer_event_rx.as_mut().unwrap().next().now_or_never() {
                    Some(Some(ToPeerEvent::NlriChange(u))) => o.sess.handle_prefix_update(u),
                    Some(Some(_)) => note.push_str("unexpected peer event;"),
                    _ => note.push_str("no notification to deliver;"),
                }
            }
            "drain" => {
                // deliver every notification that is waiting (operations that touch several prefixes queue them in the
                // table's own order)
                let o = self.obs.as_mut().unwrap();
                use futures::FutureExt;
                while let Some(Some(ev)) = o.sess.peer_event_rx.as_mut().unwrap().next().now_or_never() {
                    if let ToPeerEvent::NlriChange(u) = ev {
                        o.sess.handle_prefix_update(u);
                    }
                }
            }
            "flush" => {
                note.push_str(&self.flush_and_read().await);
            }
            "refresh" => {
                let o = self.obs.as_mut().unwrap();
                o.sess.do_route_refresh(Family::IPV4).await;
            }
            "fresh" | "newsession" => {
                // a brand-new session to the same neighbour from the current RIB ("newsession": its initial
                // dump stays buffered until the next flush)
                if let Some(o) = self.obs.take() {
                    drop(o);
                }
                self.tables.unregister_peer(self.obs_addr, &[], &[]);
                {
                    let g = self.global.read().await;
                    let ctx = g.peers.get(&self.obs_addr).unwrap().context.lock().unwrap();
                    let mut arb = ctx.conn_arbiter.lock().unwrap();
                    arb.passive_close_tx = None;
                    arb.passive_join_handle = None;
                    let _ = arb.process(crate::fsm::Role::Passive, crate::fsm::Input::Disconnected);
                }
                self.mirror.clear();
                self.obs = Some(ex_observer(&self.global, &self.tables, self.sendmax, &self.scen).await);
                if tok[0] == "fresh" {
                    note.push_str(&self.flush_and_read().await);
                }
            }
            x => panic!("harness: op {x}"),
        }
        note
    }

    fn project(&self) -> String {
        let o = self.obs.as_ref().unwrap();
        let pend_empty = o.sess.pending.values().all(|p| p.is_empty());
        let m: Vec<String> = self
            .mirror
            .iter()
            .map(|((p, pid), (src, cls, ll))| format!("[\"{}\",{},\"{}\",\"{}\",{}]", p, pid, src, cls, ll))
            .collect();
        format!("{{\"mirror\":[{}],\"pend_empty\":{}}}", m.join(","), pend_empty)
    }
}

#[tokio::test]
async fn export_replay() {
    let Ok(inp) = std::env::var("VERIF_IN") else {
        return;
    };
    let outp = std::env::var("VERIF_OUT").expect("VERIF_OUT");
    let text = std::fs::read_to_string(&inp).expect("read VERIF_IN");
    let mut out = std::io::BufWriter::new(std::fs::File::create(&outp).expect("create VERIF_OUT"));
    let mut w: Option<ExWorld> = None;
    let mut seq = String::new();
    let mut step = 0usize;
    for line in text.lines() {
        let tok: Vec<&str> = line.split_whitespace().collect();
        if tok.is_empty() {
            continue;
        }
        if tok[0] == "seq" {
            seq = tok[1].to_string();
            step = 0;
            let mut nw = ExWorld::new(tok[2].parse().unwrap(), tok.get(3).copied().unwrap_or("-"), tok.get(4).copied().unwrap_or("ebgp")).await;
            // the initial dump of the empty RIB (OPEN, KEEPALIVE, End-of-RIB)
            let _ = nw.flush_and_read().await;
            w = Some(nw);
            continue;
        }
        step += 1;
        // a panic of the code under test ends the behaviour (its locks are poisoned); it is reported on the step
        let Some(world) = w.as_mut() else {
            writeln!(out, "{{\"seq\":\"{}\",\"step\":{},\"state\":{{\"mirror\":[],\"pend_empty\":true}},\"note\":\"skipped after a panic\"}}", seq, step).unwrap();
            continue;
        };
        use futures::FutureExt;
        match std::panic::AssertUnwindSafe(world.apply(&tok)).catch_unwind().await {
            Ok(note) => {
                writeln!(out, "{{\"seq\":\"{}\",\"step\":{},\"state\":{},\"note\":\"{}\"}}", seq, step, world.project(), note).unwrap();
            }
            Err(_) => {
                writeln!(
                    out,
                    "{{\"seq\":\"{}\",\"step\":{},\"state\":{{\"mirror\":[],\"pend_empty\":true}},\"note\":\"PANIC in the code under test\"}}",
                    seq, step
                )
                .unwrap();
                std::mem::forget(w.take());
            }
        }
    }
    out.flush().unwrap();
}

// =====================================================================================================
// C09: the propagation / attribute-rewrite matrix (spec/Propagation/Propagation.tla) on the real
// `process_nlri_change` with a recording sink.
// Input lines: case <src> <dst> <confed 0|1> <asp> <has,comma|-> <llgr 0|1> <same 0|1>
// =====================================================================================================

struct RecSink {
    reach: Vec<(Option<bgp::Nexthop>, Arc<Vec<packet::Attribute>>, u32)>,
    unreach: usize,
}

impl crate::event::export::NlriSink for RecSink {
    fn reach(
        &mut self,
        _dest_id: u32,
        _nlri: packet::Nlri,
        path_id: u32,
        nexthop: Option<bgp::Nexthop>,
        attr: Arc<Vec<packet::Attribute>>,
        _source: &Arc<table::Source>,
    ) {
        self.reach.push((nexthop, attr, path_id));
    }
    fn unreach(&mut self, _dest_id: u32, _nlri: packet::Nlri, _path_id: u32) {
        self.unreach += 1;
    }
}

const P_LOCAL_AS: u32 = 65001;
const P_CONFED_ID: u32 = 64512;
const P_CLUSTER: Ipv4Addr = Ipv4Addr::new(7, 7, 7, 7);
const P_SRC_RID: Ipv4Addr = Ipv4Addr::new(5, 5, 5, 5);
const P_POL_NH: Ipv4Addr = Ipv4Addr::new(198, 51, 100, 9);
const P_POL_MED: i64 = 777;
const P_POL_COMM: u32 = (65000 << 16) | 1;

fn prop_aspath(shape: &str) -> Vec<u8> {
    let seg = |t: u8, asns: &[u32]| -> Vec<u8> {
        let mut v = vec![t, asns.len() as u8];
        for a in asns {
            v.extend_from_slice(&a.to_be_bytes());
        }
        v
    };
    match shape {
        "empty" => vec![],
        "seq2" => seg(2, &[100, 101]),
        "seq255" => seg(2, &(0..255).map(|i| 1000 + i).collect::<Vec<u32>>()),
        "set2" => seg(1, &[100, 101]),
        "cseq2_seq2" => {
            let mut v = seg(3, &[65003, 65004]);
            v.extend(seg(2, &[100, 101]));
            v
        }
        "cseq2" => seg(3, &[65003, 65004]),
        x => panic!("harness: asp {x}"),
    }
}

fn prop_describe(nexthop: Option<bgp::Nexthop>, attr: &[packet::Attribute], local_addr: IpAddr, orig_nh: Ipv4Addr) -> String {
    let mut asp = Vec::new();
    let mut first = 0u32;
    let mut present: Vec<&str> = Vec::new();
    let mut ut_partial = false;
    let mut llgr = false;
    let mut oid = "none".to_string();
    let mut cl = "none".to_string();
    let mut med: i64 = -1;
    let mut comm: Vec<u32> = Vec::new();
    for a in attr {
        match a.code() {
            packet::Attribute::AS_PATH => {
                let b = a.binary().unwrap();
                let mut i = 0;
                let mut firstseg = true;
                while i + 1 < b.len() {
                    let t = b[i];
                    let n = b[i + 1] as usize;
                    if firstseg && n > 0 {
                        first = u32::from_be_bytes([b[i + 2], b[i + 3], b[i + 4], b[i + 5]]);
                    }
                    firstseg = false;
                    let tn = match t {
                        1 => "SET",
                        2 => "SEQ",
                        3 => "CSEQ",
                        4 => "CSET",
                        _ => "?",
                    };
                    asp.push(format!("[\"{}\",{}]", tn, n));
                    i += 2 + 4 * n;
                }
            }
            packet::Attribute::LOCAL_PREF => present.push("LP"),
            packet::Attribute::MULTI_EXIT_DESC => {
                present.push("MED");
                med = a.value().map(|v| v as i64).unwrap_or(-2);
            }
            packet::Attribute::ORIGINATOR_ID => {
                present.push("OID");
                let v = a.value().unwrap_or(0);
                oid = if v == u32::from(Ipv4Addr::new(9, 9, 9, 9)) {
                    "orig".into()
                } else if v == u32::from(P_SRC_RID) {
                    "src_rid".into()
                } else {
                    format!("other:{}", v)
                };
            }
            packet::Attribute::CLUSTER_LIST => {
                present.push("CL");
                let b = a.binary().cloned().unwrap_or_default();
                let cid = u32::from(P_CLUSTER).to_be_bytes();
                let orig = [8u8, 8, 8, 8];
                cl = if b.len() >= 4 && b[0..4] == cid && (b.len() == 4 || b[4..] == orig) {
                    "prepended".into()
                } else if b == orig {
                    "orig".into()
                } else {
                    "other".into()
                };
            }
            packet::Attribute::AIGP => present.push("AIGP"),
            packet::Attribute::COMMUNITY => {
                if let Some(b) = a.binary() {
                    if b.chunks(4).any(|c| c == [0xff, 0xff, 0x00, 0x06]) {
                        llgr = true;
                    }
                    comm = b.chunks(4).map(|c| u32::from_be_bytes([c[0], c[1], c[2], c[3]])).collect();
                    comm.sort();
                }
            }
            200 => {
                present.push("UT");
                ut_partial = a.flags() & packet::Attribute::FLAG_PARTIAL != 0;
            }
            201 => present.push("UN"),
            _ => {}
        }
    }
    let nh = match nexthop {
        Some(n) if n.addr() == local_addr => "self",
        Some(n) if n.addr() == IpAddr::V4(P_POL_NH) => "policy",
        Some(n) if n.addr() == IpAddr::V4(orig_nh) => "orig",
        Some(_) => "other",
        None => "none",
    };
    format!(
        "{{\"sent\":true,\"asp\":[{}],\"first\":{},\"present\":[{}],\"utPartial\":{},\"llgrStale\":{},\"oid\":\"{}\",\"cl\":\"{}\",\"nexthop\":\"{}\",\"med\":{},\"comm\":[{}]}}",
        asp.join(","),
        first,
        present.iter().map(|x| format!("\"{}\"", x)).collect::<Vec<_>>().join(","),
        ut_partial,
        llgr,
        oid,
        cl,
        nh,
        med,
        comm.iter().map(|x| x.to_string()).collect::<Vec<_>>().join(",")
    )
}

#[test]
fn prop_replay() {
    let Ok(inp) = std::env::var("VERIF_IN") else {
        return;
    };
    if !inp.ends_with(".prop.in") {
        return;
    }
    let outp = std::env::var("VERIF_OUT").expect("VERIF_OUT");
    let text = std::fs::read_to_string(&inp).expect("read VERIF_IN");
    let mut out = std::io::BufWriter::new(std::fs::File::create(&outp).expect("create VERIF_OUT"));
    let dst_addr = IpAddr::V4(Ipv4Addr::new(10, 0, 0, 9));
    let local_addr = IpAddr::V4(Ipv4Addr::new(10, 0, 0, 254));
    let orig_nh = Ipv4Addr::new(192, 0, 2, 77);
    for (idx, line) in text.lines().enumerate() {
        let tok: Vec<&str> = line.split_whitespace().collect();
        if tok.is_empty() || tok[0] != "case" {
            continue;
        }
        let (src, dst, confed, asp, has, llgr, same) =
            (tok[1], tok[2], tok[3] == "1", tok[4], tok[5], tok[6] == "1", tok[7] == "1");
        let pol = tok.get(8).copied().unwrap_or("none");
        let res = std::panic::catch_unwind(|| {
            // the neighbour's export policy: one statement without conditions (always applies) carrying one action
            let policy = (pol != "none").then(|| {
                let acts = match pol {
                    "nexthop" => table::Actions { nexthop: Some(table::NexthopAction::Address(IpAddr::V4(P_POL_NH))), ..Default::default() },
                    "med" => table::Actions { med: Some(table::MedAction { action_type: table::MedActionType::Replace, value: P_POL_MED }), ..Default::default() },
                    "comm" => table::Actions {
                        community: Some(table::CommunityAction { action_type: table::CommunityActionType::Replace, communities: vec![P_POL_COMM] }),
                        ..Default::default()
                    },
                    x => panic!("harness: pol {x}"),
                };
                let mut pt = table::PolicyTable::new();
                pt.add_statement("a", vec![], None, acts).unwrap();
                pt.add_policy("p", vec!["a".into()]).unwrap();
                pt.add_assignment("global", table::PolicyDirection::Export, table::Disposition::Accept, vec!["p".into()]).unwrap().1
            });
            let src_addr = if same { dst_addr } else { IpAddr::V4(Ipv4Addr::new(10, 0, 0, 3)) };
            let source: Arc<table::Source> = match src {
                "local" => table::Source::local(),
                "kernel" => table::Source::kernel(),
                k => {
                    let (rasn, role) = match k {
                        "ebgp" => (65010, PeerRole::Ebgp),
                        "ibgp" => (P_LOCAL_AS, PeerRole::Ibgp),
                        "ibgpc" => (P_LOCAL_AS, PeerRole::IbgpRrClient),
                        "rs" => (65020, PeerRole::RsClient),
                        "confed" => (65002, PeerRole::ConfedEbgp),
                        x => panic!("harness: src {x}"),
                    };
                    Arc::new(table::Source::new(src_addr, local_addr, rasn, P_LOCAL_AS, P_SRC_RID, role))
                }
            };
            if llgr {
                source.mark_llgr_stale();
            }
            let role = match dst {
                "Ebgp" => PeerRole::Ebgp,
                "Ibgp" => PeerRole::Ibgp,
                "IbgpRrClient" => PeerRole::IbgpRrClient,
                "RsClient" => PeerRole::RsClient,
                "ConfedEbgp" => PeerRole::ConfedEbgp,
                x => panic!("harness: dst {x}"),
            };
            let ctx = crate::event::export::PeerExportContext {
                role,
                local_asn: P_LOCAL_AS,
                local_addr,
                link_addr: None,
                confederation_id: if confed { P_CONFED_ID } else { 0 },
            };
            let cluster_id = matches!(role, PeerRole::Ibgp | PeerRole::IbgpRrClient).then_some(P_CLUSTER);
            let mut attrs = vec![packet::Attribute::new_with_value(packet::Attribute::ORIGIN, 0).unwrap()];
            // "absent": a route originated through the API may carry no AS_PATH attribute at all
            if asp != "absent" {
                attrs.push(packet::Attribute::new_with_bin(packet::Attribute::AS_PATH, prop_aspath(asp)).unwrap());
            }
            let hs: Vec<&str> = if has == "-" { vec![] } else { has.split(',').collect() };
            for h in &hs {
                attrs.push(match *h {
                    "LP" => packet::Attribute::new_with_value(packet::Attribute::LOCAL_PREF, 200).unwrap(),
                    "MED" => packet::Attribute::new_with_value(packet::Attribute::MULTI_EXIT_DESC, 50).unwrap(),
                    "OID" => packet::Attribute::new_with_value(
                        packet::Attribute::ORIGINATOR_ID,
                        u32::from(Ipv4Addr::new(9, 9, 9, 9)),
                    )
                    .unwrap(),
                    "CL" => packet::Attribute::new_with_bin(packet::Attribute::CLUSTER_LIST, vec![8, 8, 8, 8]).unwrap(),
                    "AIGP" => packet::Attribute::new_with_bin(
                        packet::Attribute::AIGP,
                        vec![1, 0, 11, 0, 0, 0, 0, 0, 0, 0, 100],
                    )
                    .unwrap(),
                    "UT" => packet::Attribute::new_opaque(200, 0xC0, vec![1, 2, 3]),
                    "UN" => packet::Attribute::new_opaque(201, 0x80, vec![4, 5]),
                    x => panic!("harness: attr {x}"),
                });
            }
            attrs.sort_by_key(|a| a.code());
            let path = table::Path {
                local_path_id: 1,
                source: source.clone(),
                nexthop: Some(bgp::Nexthop::V4(orig_nh)),
                attr: Arc::new(attrs),
            };
            let change = table::NlriChange {
                family: Family::IPV4,
                net: "10.9.0.0/16".parse().unwrap(),
                dest_id: 1,
                best_changed: true,
                any_changed: true,
                replaced_path_id: None,
                current_paths: Arc::new(vec![path]),
            };
            // third run: the ADD-PATH branch with a COMPANION ranked first - a locally originated path with an explicit next
            // hop (path id 2); every path of a destination is rewritten for what ITS OWN source is
            let companion = table::Path {
                local_path_id: 2,
                source: table::Source::local(),
                nexthop: Some(bgp::Nexthop::V4(Ipv4Addr::new(198, 51, 100, 7))),
                attr: Arc::new(vec![
                    packet::Attribute::new_with_value(packet::Attribute::ORIGIN, 0).unwrap(),
                    packet::Attribute::new_with_bin(packet::Attribute::AS_PATH, vec![]).unwrap(),
                    packet::Attribute::new_with_value(packet::Attribute::LOCAL_PREF, 900).unwrap(),
                ]),
            };
            let with_companion = table::NlriChange {
                family: Family::IPV4,
                net: "10.9.0.0/16".parse().unwrap(),
                dest_id: 1,
                best_changed: true,
                any_changed: true,
                replaced_path_id: None,
                current_paths: Arc::new(vec![companion, change.current_paths[0].clone()]),
            };
            let mut outs = Vec::new();
            for (emax, ch) in [(1usize, &change), (2usize, &change), (3usize, &with_companion)] {
                let mut em = crate::event::export::ExportMap::new(if emax > 1 { vec![Family::IPV4] } else { vec![] });
                let mut sink = RecSink { reach: Vec::new(), unreach: 0 };
                crate::event::export::process_nlri_change(
                    ch, emax, dst_addr, &mut em, &mut sink, &ctx, policy.as_deref(), cluster_id, None, None, None,
                );
                outs.push(match sink.reach.iter().find(|r| r.2 == 1 || emax == 1) {
                    None => "{\"sent\":false}".to_string(),
                    Some((nh, a, _)) => prop_describe(*nh, a, local_addr, orig_nh),
                });
            }
            if llgr {
                source.clear_llgr_stale();
            }
            outs
        });
        match res {
            Ok(o) => writeln!(out, "{{\"i\":{},\"plain\":{},\"addpath\":{},\"addpath_companion\":{}}}", idx, o[0], o[1], o[2]).unwrap(),
            Err(_) => writeln!(out, "{{\"i\":{},\"panic\":true}}", idx).unwrap(),
        }
    }
    out.flush().unwrap();
}

// C09 inbound: routes that already passed through this speaker are never installed.  Runs a real session
// (accept_connection + PeerSession::run) per case and sends one UPDATE with the looping attribute, then a
// marker route; observes the real RIB.
// Input lines: in <peer ebgp|ibgp|confed> <confed 0|1> <loop kind>
#[tokio::test]
async fn inbound_replay() {
    let Ok(inp) = std::env::var("VERIF_IN") else {
        return;
    };
    if !inp.ends_with(".inb.in") {
        return;
    }
    let outp = std::env::var("VERIF_OUT").expect("VERIF_OUT");
    let text = std::fs::read_to_string(&inp).expect("read VERIF_IN");
    let mut out = std::io::BufWriter::new(std::fs::File::create(&outp).expect("create VERIF_OUT"));
    for (idx, line) in text.lines().enumerate() {
        let tok: Vec<&str> = line.split_whitespace().collect();
        if tok.is_empty() || tok[0] != "in" {
            continue;
        }
        let (peer, confed, lp) = (tok[1], tok[2] == "1", tok[3]);
        let global = mk_global();
        let tables: TableHandle = Arc::new(TableManager::new(1));
        let addr = IpAddr::V4(Ipv4Addr::new(127, 0, 0, 1));
        let local_rid = Ipv4Addr::new(1, 0, 0, 1);
        let confed_id = 64512u32;
        if confed {
            global.write().await.confederation = Some(ConfederationConfig { id: confed_id, members: [65001u32, 65002u32].into_iter().collect() });
        }
        let remote_asn = match peer {
            "ebgp" => 65010,
            "rs" => 65020,
            "ibgp" => 65001,
            _ => 65002,
        };
        let external = peer == "ebgp" || peer == "rs";
        let mut p = base_params(addr);
        p.expected_remote_asn = remote_asn;
        p.local_asn = 65001;
        p.rs_client = peer == "rs";
        global.write().await.add_peer(p, None).unwrap();
        let (client, server) = pair_from(Ipv4Addr::new(127, 0, 0, 1)).await;
        let sess = accept_connection(&global, &tables, server, crate::fsm::Role::Passive).await.expect("accept");
        let (atx, _arx) = mpsc::unbounded_channel();
        let g2 = global.clone();
        let task = tokio::spawn(async move { sess.run(g2, atx).await });
        let mut r = Remote::new(client, remote_asn);
        let mut note = String::new();
        if !r.read_open().await {
            note.push_str("no OPEN;");
        }
        let caps = vec![
            packet::Capability::MultiProtocol(Family::IPV4),
            packet::Capability::FourOctetAsNumber(remote_asn),
        ];
        if !r.open_exchange(u32::from(Ipv4Addr::new(10, 0, 0, 2)), 90, caps).await {
            note.push_str("OPEN exchange failed;");
        }
        // the route under test
        let mut path: Vec<u32> = if peer == "ibgp" { vec![65100] } else { vec![remote_asn, 65100] };
        match lp {
            "aspath_local_as" => path.push(65001),
            "aspath_confed_id" => path.push(confed_id),
            _ => {}
        }
        let mut asp = Vec::new();
        if lp == "cseq_local_as" || lp == "cset_local_as" {
            // a confederation segment in front that already contains the local member AS
            asp.extend_from_slice(&[if lp == "cseq_local_as" { 3u8 } else { 4u8 }, 2]);
            asp.extend_from_slice(&65002u32.to_be_bytes());
            asp.extend_from_slice(&65001u32.to_be_bytes());
        }
        asp.extend_from_slice(&[2u8, path.len() as u8]);
        for a in &path {
            asp.extend_from_slice(&a.to_be_bytes());
        }
        let mut attrs = vec![
            packet::Attribute::new_with_value(packet::Attribute::ORIGIN, 0).unwrap(),
            packet::Attribute::new_with_bin(packet::Attribute::AS_PATH, asp.clone()).unwrap(),
        ];
        // an external peer has no business sending LOCAL_PREF: it does all the same (777), to see whether it is believed
        attrs.push(packet::Attribute::new_with_value(packet::Attribute::LOCAL_PREF, if external { 777 } else { 100 }).unwrap());
        match lp {
            "originator_local" => attrs.push(packet::Attribute::new_with_value(packet::Attribute::ORIGINATOR_ID, u32::from(local_rid)).unwrap()),
            "originator_other" => attrs.push(packet::Attribute::new_with_value(packet::Attribute::ORIGINATOR_ID, u32::from(Ipv4Addr::new(9, 9, 9, 9))).unwrap()),
            "cluster_local" => attrs.push(packet::Attribute::new_with_bin(packet::Attribute::CLUSTER_LIST, {
                let mut b = vec![8u8, 8, 8, 8];
                b.extend_from_slice(&local_rid.octets());
                b
            }).unwrap()),
            "cluster_other" => attrs.push(packet::Attribute::new_with_bin(packet::Attribute::CLUSTER_LIST, vec![8, 8, 8, 8]).unwrap()),
            _ => {}
        }
        let nh = Some(bgp::Nexthop::V4(Ipv4Addr::new(127, 0, 0, 1)));
        let test_net: packet::Nlri = "10.50.0.0/16".parse().unwrap();
        let marker_net: packet::Nlri = "10.60.0.0/16".parse().unwrap();
        r.send(&bgp::Message::Update(bgp::Update::Reach {
            family: Family::IPV4,
            entries: vec![packet::PathNlri { path_id: 0, nlri: test_net.clone() }],
            nexthop: nh,
            attr: Arc::new(attrs),
        }))
        .await;
        // marker: a clean route; once it is in the RIB the test route has been processed
        let mpath: Vec<u32> = if peer == "ibgp" { vec![65100] } else { vec![remote_asn, 65100] };
        let mut masp = vec![2u8, mpath.len() as u8];
        for a in &mpath {
            masp.extend_from_slice(&a.to_be_bytes());
        }
        let mut mattrs = vec![
            packet::Attribute::new_with_value(packet::Attribute::ORIGIN, 0).unwrap(),
            packet::Attribute::new_with_bin(packet::Attribute::AS_PATH, masp).unwrap(),
        ];
        if !external {
            mattrs.push(packet::Attribute::new_with_value(packet::Attribute::LOCAL_PREF, 100).unwrap());
        }
        r.send(&bgp::Message::Update(bgp::Update::Reach {
            family: Family::IPV4,
            entries: vec![packet::PathNlri { path_id: 0, nlri: marker_net.clone() }],
            nexthop: nh,
            attr: Arc::new(mattrs),
        }))
        .await;
        let t2 = tables.clone();
        let has = move |n: &packet::Nlri| {
            t2.collect_paths(table::TableQuery::AdjIn(addr), Family::IPV4, vec![], true).iter().any(|d| &d.net == n)
        };
        let h2 = has.clone();
        let mn = marker_net.clone();
        if !wait_until(move || h2(&mn), WAIT_MS).await {
            note.push_str("marker route not installed;");
        }
        let installed = has(&test_net);
        // which iBGP-only attributes the installed route carries
        let mut kept = Vec::new();
        for d in tables.collect_paths(table::TableQuery::Global, Family::IPV4, vec![], true) {
            if d.net == test_net {
                for p in &d.paths {
                    for a in p.attr.iter() {
                        if a.code() == packet::Attribute::ORIGINATOR_ID {
                            kept.push("\"OID\"");
                        }
                        if a.code() == packet::Attribute::CLUSTER_LIST {
                            kept.push("\"CL\"");
                        }
                        if a.code() == packet::Attribute::LOCAL_PREF && a.value() == Some(777) {
                            kept.push("\"LP\"");
                        }
                    }
                }
            }
        }
        r.close();
        let _ = tokio::time::timeout(Duration::from_millis(WAIT_MS), task).await;
        writeln!(out, "{{\"i\":{},\"installed\":{},\"kept\":[{}],\"note\":\"{}\"}}", idx, installed, kept.join(","), note).unwrap();
    }
    out.flush().unwrap();
}

// ------------------------------------------------------------------------------------------------
// C16 (negotiation half): cases of spec/Negotiate/Negotiate.tla on the real PeerFsm (SessionNegotiated codec,
// effective send-max) and the real PeerSession::negotiate_gr / negotiate_llgr, from BOTH ends.
//
// Input (VERIF_IN, must end ".neg.in"), one case per line:
//   fam  <mpL> <apL> <enhL> <mpR> <apR> <enhR> <ordL> <ordR>     lists "a,b" / "-" ; ap "fam:mode;fam:mode" / "-"
//   scal <as4L> <extL> <as4R> <extR>
//   gr   <onL> <nL> <timeL> <famsL> <onR> <nR> <timeR> <famsR>
//   llgr <onL> <t4L> <tvL> <onR> <t4R> <tvR>           (99999 = family absent)

fn neg_fam(s: &str) -> Family {
    match s {
        "ipv4" => Family::IPV4,
        "ipv4vpn" => Family::IPV4_VPN,
        x => panic!("harness: family {x}"),
    }
}

fn neg_list(s: &str) -> Vec<Family> {
    if s == "-" { vec![] } else { s.split(',').map(neg_fam).collect() }
}

fn neg_fam_caps(mp: &str, ap: &str, enh: &str, asn: u32, ord: &str) -> Vec<packet::Capability> {
    let mut v: Vec<packet::Capability> = neg_list(mp).into_iter().map(packet::Capability::MultiProtocol).collect();
    if ord != "mp_ap" {
        // ADD-PATH first; "mp_ap_mp" repeats the Multiprotocol capabilities after it as well
        let mps = v.clone();
        let mut w: Vec<packet::Capability> = if ord == "mp_ap_mp" { mps.clone() } else { Vec::new() };
        if ap != "-" {
            let e: Vec<(Family, u8)> = ap
                .split(';')
                .map(|x| {
                    let (f, m) = x.split_once(':').unwrap();
                    (neg_fam(f), m.parse().unwrap())
                })
                .collect();
            w.push(packet::Capability::AddPath(e));
        }
        w.extend(mps);
        w.push(packet::Capability::FourOctetAsNumber(asn));
        return w;
    }
    if ap != "-" {
        let e: Vec<(Family, u8)> = ap
            .split(';')
            .map(|x| {
                let (f, m) = x.split_once(':').unwrap();
                (neg_fam(f), m.parse().unwrap())
            })
            .collect();
        v.push(packet::Capability::AddPath(e));
    }
    let e = neg_list(enh);
    if !e.is_empty() {
        v.push(packet::Capability::ExtendedNexthop(e.into_iter().map(|f| (f, Family::AFI_IP6)).collect()));
    }
    v.push(packet::Capability::Unknown { code: 200, bin: vec![1, 2, 3] });
    v.push(packet::Capability::FourOctetAsNumber(asn));
    v
}

/// One end: the real FSM with `local` capabilities receives an OPEN carrying `remote`.
/// The peer's capabilities as this end receives them: written into an OPEN and read back by the real decoder (which is where
/// undefined values are dropped or kept).
fn neg_over_the_wire(caps: &[packet::Capability], asn: u32) -> Vec<packet::Capability> {
    let open = bgp::Message::Open(bgp::Open { as_number: asn, holdtime: HoldTime::new(90).unwrap(), router_id: u32::from(Ipv4Addr::new(10, 0, 0, 2)), capability: caps.to_vec() });
    let mut buf = bytes::BytesMut::new();
    if bgp::PeerCodec::new().encode_to(&open, &mut buf).is_err() {
        return caps.to_vec();
    }
    match bgp::PeerCodec::new().try_parse(&mut buf) {
        Ok(Some(bgp::ParsedMessage::Open(o))) => o.capability,
        _ => caps.to_vec(),
    }
}

fn neg_fsm_side(local: &[packet::Capability], remote: &[packet::Capability], local_asn: u32, remote_asn: u32) -> Option<(bgp::PeerCodec, Vec<Family>)> {
    let remote = &neg_over_the_wire(remote, remote_asn)[..];
    let mut send_max: FnvHashMap<Family, usize> = FnvHashMap::default();
    send_max.insert(Family::IPV4, 4);
    send_max.insert(Family::IPV4_VPN, 4);
    let mut fsm = crate::fsm::PeerFsm::new(u32::from(Ipv4Addr::new(1, 0, 0, 1)), local_asn, local.to_vec(), 90, 0, send_max);
    let role = crate::fsm::Role::Passive;
    let mut codec = None;
    let mut eff = None;
    let inputs = vec![
        crate::fsm::Input::Connected(false),
        crate::fsm::Input::MessageReceived(bgp::Message::Open(bgp::Open {
            as_number: remote_asn,
            holdtime: HoldTime::new(90).unwrap(),
            router_id: u32::from(Ipv4Addr::new(10, 9, 9, 9)),
            capability: remote.to_vec(),
        })),
        crate::fsm::Input::MessageReceived(bgp::Message::Keepalive),
    ];
    for i in inputs {
        for o in fsm.process(role, i) {
            match o {
                crate::fsm::PeerFsmOutput::Connection(_, crate::fsm::Output::SessionNegotiated(c)) => codec = Some(c),
                crate::fsm::PeerFsmOutput::Connection(_, crate::fsm::Output::SessionEstablished { effective_max, .. }) => {
                    eff = Some(effective_max.keys().copied().collect::<Vec<Family>>())
                }
                _ => {}
            }
        }
    }
    Some((codec?, eff?))
}

fn neg_fam_json(r: Option<(bgp::PeerCodec, Vec<Family>)>) -> String {
    let Some((mut codec, eff)) = r else {
        return "{\"noneg\":true}".to_string();
    };
    let mut s = String::from("{");
    for (name, f) in [("ipv4", Family::IPV4), ("ipv4vpn", Family::IPV4_VPN)] {
        let st = codec.family_state(f);
        let _ = write!(
            s,
            "\"{}\":{{\"on\":{},\"tx\":{},\"rx\":{},\"eff\":{}}},",
            name,
            st.is_some(),
            st.is_some_and(|x| x.addpath_tx),
            st.is_some_and(|x| x.addpath_rx),
            eff.contains(&f)
        );
    }
    // IPv4 unicast goes through MP_(UN)REACH iff the extended next hop is in force for it
    let mut buf = bytes::BytesMut::new();
    let msg = bgp::Message::Update(bgp::Update::Unreach {
        family: Family::IPV4,
        entries: vec![packet::bgp::PathNlri { path_id: 0, nlri: "10.1.1.0/24".parse().unwrap() }],
    });
    let via_mp = match codec.encode_to(&msg, &mut buf) {
        Ok(_) => buf.len() > 21 && buf[19] == 0 && buf[20] == 0,
        Err(_) => false,
    };
    let _ = write!(s, "\"via_mp\":{}}}", via_mp);
    s
}

#[tokio::test]
async fn negotiate_replay() {
    let Ok(inp) = std::env::var("VERIF_IN") else {
        return;
    };
    if !inp.ends_with(".neg.in") {
        return;
    }
    let outp = std::env::var("VERIF_OUT").expect("VERIF_OUT");
    let text = std::fs::read_to_string(&inp).expect("read VERIF_IN");
    let mut out = std::io::BufWriter::new(std::fs::File::create(&outp).expect("create VERIF_OUT"));
    // one real session object for negotiate_gr / negotiate_llgr
    let global = mk_global();
    let tables: TableHandle = Arc::new(TableManager::new(1));
    let addr = IpAddr::V4(Ipv4Addr::new(127, 0, 0, 1));
    global.write().await.add_peer(base_params(addr), None).unwrap();
    let (_client, server) = pair_from(Ipv4Addr::new(127, 0, 0, 1)).await;
    let mut sess = accept_connection(&global, &tables, server, crate::fsm::Role::Passive).await.expect("accept");
    let b = |s: &str| s == "1";
    for line in text.lines() {
        let t: Vec<&str> = line.split_whitespace().collect();
        if t.is_empty() {
            continue;
        }
        let res = match t[0] {
            "fam" => {
                let l = neg_fam_caps(t[1], t[2], t[3], 65001, t[7]);
                let r = neg_fam_caps(t[4], t[5], t[6], 65002, t[8]);
                format!(
                    "{{\"l\":{},\"r\":{}}}",
                    neg_fam_json(neg_fsm_side(&l, &r, 65001, 65002)),
                    neg_fam_json(neg_fsm_side(&r, &l, 65002, 65001))
                )
            }
            "scal" => {
                let caps = |as4: bool, ext: bool, asn: u32| {
                    let mut v = vec![packet::Capability::MultiProtocol(Family::IPV4)];
                    if as4 {
                        v.push(packet::Capability::FourOctetAsNumber(asn));
                    }
                    if ext {
                        v.push(packet::Capability::ExtendedMessage);
                    }
                    v
                };
                let l = caps(b(t[1]), b(t[2]), 65001);
                let r = caps(b(t[3]), b(t[4]), 65002);
                let j = |x: Option<(bgp::PeerCodec, Vec<Family>)>| match x {
                    None => "{\"noneg\":true}".to_string(),
                    Some((c, _)) => format!("{{\"as4\":{},\"extmsg\":{}}}", !c.two_byte_as, c.extended_length),
                };
                format!("{{\"l\":{},\"r\":{}}}", j(neg_fsm_side(&l, &r, 65001, 65002)), j(neg_fsm_side(&r, &l, 65002, 65001)))
            }
            "gr" => {
                let caps = |on: bool, n: bool, time: u16, fams: &str| {
                    let mut v = vec![packet::Capability::MultiProtocol(Family::IPV4)];
                    if on {
                        v.push(packet::Capability::GracefulRestart {
                            flags: if n { 0x4 } else { 0 },
                            restart_time: time,
                            families: neg_list(fams).into_iter().map(|f| (f, 0)).collect(),
                        });
                    }
                    v
                };
                let l = caps(b(t[1]), b(t[2]), t[3].parse().unwrap(), t[4]);
                let r = caps(b(t[5]), b(t[6]), t[7].parse().unwrap(), t[8]);
                let mut side = |me: &Vec<packet::Capability>, peer: &Vec<packet::Capability>| {
                    sess.local_cap = me.clone();
                    match sess.negotiate_gr(peer) {
                        None => "{\"on\":false,\"n\":false,\"time\":0,\"fams\":[]}".to_string(),
                        Some(g) => {
                            let mut f: Vec<String> = g.families.iter().map(|f| format!("\"{}\"", if *f == Family::IPV4 { "ipv4" } else { "ipv4vpn" })).collect();
                            f.sort();
                            format!("{{\"on\":true,\"n\":{},\"time\":{},\"fams\":[{}]}}", g.notification_enabled, g.restart_time.as_secs(), f.join(","))
                        }
                    }
                };
                let a = side(&l, &r);
                let c = side(&r, &l);
                format!("{{\"l\":{},\"r\":{}}}", a, c)
            }
            "llgr" => {
                let caps = |on: bool, t4: u32, tv: u32| {
                    let mut v = vec![packet::Capability::MultiProtocol(Family::IPV4)];
                    if on {
                        let mut e = Vec::new();
                        if t4 != 99999 {
                            e.push((Family::IPV4, 0u8, t4));
                        }
                        if tv != 99999 {
                            e.push((Family::IPV4_VPN, 0u8, tv));
                        }
                        v.push(packet::Capability::LongLivedGracefulRestart(e));
                    }
                    v
                };
                let l = caps(b(t[1]), t[2].parse().unwrap(), t[3].parse().unwrap());
                let r = caps(b(t[4]), t[5].parse().unwrap(), t[6].parse().unwrap());
                let mut side = |me: &Vec<packet::Capability>, peer: &Vec<packet::Capability>| {
                    sess.local_cap = me.clone();
                    let g = sess.negotiate_llgr(peer);
                    let get = |f: Family| g.as_ref().and_then(|g| g.families.iter().find(|(x, _)| *x == f).map(|(_, d)| d.as_secs())).unwrap_or(0);
                    format!("{{\"ipv4\":{},\"ipv4vpn\":{}}}", get(Family::IPV4), get(Family::IPV4_VPN))
                };
                let a = side(&l, &r);
                let c = side(&r, &l);
                format!("{{\"l\":{},\"r\":{}}}", a, c)
            }
            x => panic!("harness: kind {x}"),
        };
        writeln!(out, "{}", res).unwrap();
    }
    out.flush().unwrap();
}

// ------------------------------------------------------------------------------------------------
// C16 (admission half): behaviours of spec/Admission/Admission.tla on the real Global + accept_connection +
// PeerSession::run + the gRPC handlers (reset / disable / enable / delete), single-threaded runtime: the harness
// never yields between a call that signals a session to close and the following model step, so the session's
// tail runs exactly at the model's `end` step.
//
// Input (VERIF_IN, must end ".adm.in"): `walk` starts a fresh world, then one op per line:
//   connect <a> <A|P> <q> | reset|disable|enable|delete|add <a> - <q> | rclose|end <id> - <q>
// (q = number of session tails pending after the step in the model: the harness yields only when q = 0)
// with a in {s, d, u}: s = 127.0.1.1, d = 127.0.2.1 (inside the dynamic prefix 127.0.2.0/24), u = 127.0.3.1.

fn adm_addr(a: &str) -> Ipv4Addr {
    match a {
        "s" => Ipv4Addr::new(127, 0, 1, 1),
        "d" => Ipv4Addr::new(127, 0, 2, 1),
        "u" => Ipv4Addr::new(127, 0, 3, 1),
        x => panic!("harness: addr {x}"),
    }
}

/// (daemon side, remote side) with the daemon side's peer address = `a`, for the given direction.
async fn adm_pair(a: Ipv4Addr, dir: &str) -> (TcpStream, TcpStream) {
    if dir == "P" {
        let (client, server) = pair_from(a).await;
        (server, client)
    } else {
        let listener = tokio::net::TcpListener::bind((a, 0)).await.unwrap();
        let la = listener.local_addr().unwrap();
        let daemon = TcpStream::connect(la).await.unwrap();
        let (remote, _) = listener.accept().await.unwrap();
        (daemon, remote)
    }
}

struct AdmSess {
    handle: Option<tokio::task::JoinHandle<()>>,
    remote: Option<TcpStream>,
}

async fn adm_project(global: &GlobalHandle, nsess: usize) -> String {
    let g = global.read().await;
    let mut s = String::from("{\"peers\":[");
    let mut first = true;
    for a in ["d", "s", "u"] {
        if let Some(p) = g.peers.get(&IpAddr::V4(adm_addr(a))) {
            let ctx = p.context.lock().unwrap();
            let arb = ctx.conn_arbiter.lock().unwrap();
            if !first {
                s.push(',');
            }
            first = false;
            let _ = write!(
                s,
                "{{\"a\":\"{}\",\"dyn\":{},\"down\":{},\"A\":{},\"P\":{}}}",
                a,
                p.config.delete_on_disconnected,
                p.admin_down,
                arb.has_connection(crate::fsm::Role::Active),
                arb.has_connection(crate::fsm::Role::Passive)
            );
        }
    }
    let _ = write!(s, "],\"nsess\":{}}}", nsess);
    s
}

#[tokio::test]
async fn admission_replay() {
    let Ok(inp) = std::env::var("VERIF_IN") else {
        return;
    };
    if !inp.ends_with(".adm.in") {
        return;
    }
    let outp = std::env::var("VERIF_OUT").expect("VERIF_OUT");
    let text = std::fs::read_to_string(&inp).expect("read VERIF_IN");
    let mut out = std::io::BufWriter::new(std::fs::File::create(&outp).expect("create VERIF_OUT"));
    let lines: Vec<&str> = text.lines().collect();
    let mut i = 0;
    while i < lines.len() {
        if lines[i].trim() != "walk" {
            i += 1;
            continue;
        }
        let mut j = i + 1;
        while j < lines.len() && lines[j].trim() != "walk" {
            j += 1;
        }
        let ops: Vec<Vec<&str>> = lines[i + 1..j].iter().map(|l| l.split_whitespace().collect::<Vec<&str>>()).filter(|t| !t.is_empty()).collect();
        i = j;
        writeln!(out, "{{\"walk\":true}}").unwrap();
        // fresh world
        let global = mk_global();
        let tables: TableHandle = Arc::new(TableManager::new(1));
        {
            let mut g = global.write().await;
            g.peer_group.insert(
                "dyn".to_string(),
                PeerGroup {
                    as_number: 65002,
                    dynamic_peers: vec![DynamicPeer { prefix: packet::IpNet::new(IpAddr::V4(Ipv4Addr::new(127, 0, 2, 0)), 24) }],
                    route_server_client: false,
                    holdtime: Some(90),
                    local_asn: 0,
                    passive: true,
                    route_reflector: RouteReflectorConfig::default(),
                    multihop_ttl: None,
                    ttl_security: None,
                    auth_password: None,
                    connect_retry_time: Some(3600),
                    families: FnvHashMap::default(),
                    send_max: FnvHashMap::default(),
                    graceful_restart: None,
                    llgr: None,
                },
            );
        }
        let (atx, _arx) = mpsc::unbounded_channel();
        let svc = GrpcService::new(Arc::new(Notify::new()), atx.clone(), global.clone(), tables.clone());
        // all sockets are created up front: creating one later would yield to the runtime
        let mut pool: Vec<Option<(TcpStream, TcpStream)>> = Vec::new();
        for t in &ops {
            if t[0] == "connect" {
                pool.push(Some(adm_pair(adm_addr(t[1]), t[2]).await));
            } else {
                pool.push(None);
            }
        }
        let mut sess: Vec<AdmSess> = Vec::new();
        for (k, t) in ops.iter().enumerate() {
            let res: String = match t[0] {
                "connect" => {
                    let (daemon, remote) = pool[k].take().unwrap();
                    let role = if t[2] == "A" { crate::fsm::Role::Active } else { crate::fsm::Role::Passive };
                    match accept_connection(&global, &tables, daemon, role).await {
                        Some(ps) => {
                            let g2 = global.clone();
                            let a2 = atx.clone();
                            let handle = tokio::spawn(async move { ps.run(g2, a2).await });
                            sess.push(AdmSess { handle: Some(handle), remote: Some(remote) });
                            "accepted".into()
                        }
                        None => "rejected".into(),
                    }
                }
                "add" => {
                    let mut p = base_params(IpAddr::V4(adm_addr(t[1])));
                    p.expected_remote_asn = 65002;
                    match global.write().await.add_peer(p, None) {
                        Ok(()) => "ok".into(),
                        Err(_) => "err".into(),
                    }
                }
                "reset" => {
                    let r = svc
                        .reset_peer(tonic::Request::new(api::ResetPeerRequest { address: adm_addr(t[1]).to_string(), soft: false, ..Default::default() }))
                        .await;
                    if r.is_ok() { "ok".into() } else { "err".into() }
                }
                "disable" => {
                    let r = svc.disable_peer(tonic::Request::new(api::DisablePeerRequest { address: adm_addr(t[1]).to_string(), ..Default::default() })).await;
                    if r.is_ok() { "ok".into() } else { "err".into() }
                }
                "enable" => {
                    let r = svc.enable_peer(tonic::Request::new(api::EnablePeerRequest { address: adm_addr(t[1]).to_string() })).await;
                    if r.is_ok() { "ok".into() } else { "err".into() }
                }
                "delete" => {
                    let r = svc.delete_peer(tonic::Request::new(api::DeletePeerRequest { address: adm_addr(t[1]).to_string(), ..Default::default() })).await;
                    if r.is_ok() { "ok".into() } else { "err".into() }
                }
                "rclose" => {
                    let id: usize = t[1].parse().unwrap();
                    if id > sess.len() {
                        "diverged".into() // the implementation accepted fewer connections than the model
                    } else {
                        sess[id - 1].remote = None; // drops the remote socket
                        "ok".into()
                    }
                }
                "end" => {
                    let id: usize = t[1].parse().unwrap();
                    if id > sess.len() || sess[id - 1].handle.is_none() {
                        "diverged".into()
                    } else {
                        sess[id - 1].remote = None;
                        let h = sess[id - 1].handle.take().unwrap();
                        match tokio::time::timeout(Duration::from_millis(WAIT_MS), h).await {
                            Ok(Ok(())) => "ok".into(),
                            Ok(Err(_)) => "panic".into(),
                            Err(_) => "stuck".into(),
                        }
                    }
                }
                "update" => {
                    // UpdatePeer: the neighbour's full desired state, as base_params describes it, with another hold time
                    let peer = api::Peer {
                        conf: Some(api::PeerConf { neighbor_address: adm_addr(t[1]).to_string(), peer_asn: 65002, ..Default::default() }),
                        timers: Some(api::Timers { config: Some(api::TimersConfig { hold_time: 30, connect_retry: 3600, ..Default::default() }), ..Default::default() }),
                        transport: Some(api::Transport { passive_mode: true, ..Default::default() }),
                        ..Default::default()
                    };
                    let r = svc.update_peer(tonic::Request::new(api::UpdatePeerRequest { peer: Some(peer), do_soft_reset_in: false })).await;
                    if r.is_ok() { "ok".into() } else { "err".into() }
                }
                "probe" => {
                    // what the remote end of connection <id> has seen so far: an OPEN, the end of the stream, or nothing
                    let id: usize = t[1].parse().unwrap();
                    settle().await;
                    match sess.get_mut(id - 1).and_then(|s| s.remote.as_mut()) {
                        None => "norecord".into(),
                        Some(r) => {
                            let mut buf = [0u8; 64];
                            match tokio::time::timeout(Duration::from_millis(2000), r.read(&mut buf)).await {
                                Err(_) => "silent".into(),
                                Ok(Ok(0)) | Ok(Err(_)) => "closed".into(),
                                Ok(Ok(n)) => {
                                    if n >= 24 && buf[18] == 1 {
                                        // an OPEN; the hold time it offers
                                        format!("open:{}", u16::from_be_bytes([buf[22], buf[23]]))
                                    } else {
                                        format!("bytes{n}")
                                    }
                                }
                            }
                        }
                    }
                }
                x => panic!("harness: op {x}"),
            };
            // let freshly accepted sessions start, unless a session tail is pending (it must run at its `end` step)
            if t[3] == "0" {
                settle().await;
            }
            let st = adm_project(&global, sess.len()).await;
            writeln!(out, "{{\"res\":\"{}\",\"state\":{}}}", res, st).unwrap();
        }
        for s in &mut sess {
            if let Some(h) = s.handle.take() {
                h.abort();
                let _ = h.await;
            }
        }
    }
    out.flush().unwrap();
}

// ------------------------------------------------------------------------------------------------
// C16 (session set-up): cases of spec/Admission/Params.tla.  Input (VERIF_IN ends ".par.in"):
//   par <static|dynamic> <remote_as> <rs> <rr> <cluster> <confed> <hold>
#[tokio::test]
async fn params_replay() {
    let Ok(inp) = std::env::var("VERIF_IN") else {
        return;
    };
    if !inp.ends_with(".par.in") {
        return;
    }
    let outp = std::env::var("VERIF_OUT").expect("VERIF_OUT");
    let text = std::fs::read_to_string(&inp).expect("read VERIF_IN");
    let mut out = std::io::BufWriter::new(std::fs::File::create(&outp).expect("create VERIF_OUT"));
    let b = |s: &str| s == "1";
    for line in text.lines() {
        let t: Vec<&str> = line.split_whitespace().collect();
        if t.is_empty() || t[0] != "par" {
            continue;
        }
        let (dynamic, remote_as, rs, rr, cluster, confed, hold): (bool, u32, bool, bool, bool, bool, u64) =
            (t[1] == "dynamic", t[2].parse().unwrap(), b(t[3]), b(t[4]), b(t[5]), b(t[6]), t[7].parse().unwrap());
        let global = mk_global();
        let tables: TableHandle = Arc::new(TableManager::new(1));
        let src = if dynamic { Ipv4Addr::new(127, 0, 2, 7) } else { Ipv4Addr::new(127, 0, 1, 1) };
        let rrc = RouteReflectorConfig {
            route_reflector_client: rr,
            route_reflector_cluster_id: if cluster { Some(Ipv4Addr::new(9, 9, 9, 9)) } else { None },
        };
        {
            let mut g = global.write().await;
            if confed {
                g.confederation = Some(ConfederationConfig { id: 64512, members: [65001u32, 65002u32].into_iter().collect() });
            }
            if dynamic {
                g.peer_group.insert(
                    "dyn".to_string(),
                    PeerGroup {
                        as_number: remote_as,
                        dynamic_peers: vec![DynamicPeer { prefix: packet::IpNet::new(IpAddr::V4(Ipv4Addr::new(127, 0, 2, 0)), 24) }],
                        route_server_client: rs,
                        holdtime: if hold == 0 { None } else { Some(hold) },
                        local_asn: 0,
                        passive: true,
                        route_reflector: rrc.clone(),
                        multihop_ttl: None,
                        ttl_security: None,
                        auth_password: None,
                        connect_retry_time: None,
                        families: FnvHashMap::default(),
                        send_max: FnvHashMap::default(),
                        graceful_restart: None,
                        llgr: None,
                    },
                );
            } else {
                let mut p = base_params(IpAddr::V4(src));
                p.expected_remote_asn = remote_as;
                p.rs_client = rs;
                p.route_reflector = rrc.clone();
                p.holdtime = if hold == 0 { PeerParams::DEFAULT_HOLD_TIME } else { hold };
                p.prefix_limits.insert(Family::IPV4, 10);
                g.add_peer(p, None).unwrap();
            }
        }
        let (_client, server) = pair_from(src).await;
        let Some(sess) = accept_connection(&global, &tables, server, crate::fsm::Role::Passive).await else {
            writeln!(out, "{{\"accepted\":false}}").unwrap();
            continue;
        };
        let role = match sess.export_ctx.role {
            PeerRole::Ebgp => "Ebgp",
            PeerRole::Ibgp => "Ibgp",
            PeerRole::IbgpRrClient => "IbgpRrClient",
            PeerRole::RsClient => "RsClient",
            PeerRole::ConfedEbgp => "ConfedEbgp",
        };
        let mut open_as = 0u32;
        let mut open_hold = 0u64;
        let mut cap_as = 0u32;
        for o in sess.conn_arbiter.lock().unwrap().process(sess.role, crate::fsm::Input::Connected(false)) {
            if let crate::fsm::PeerFsmOutput::Connection(_, crate::fsm::Output::SendMessage(bgp::Message::Open(op))) = o {
                open_as = op.as_number;
                open_hold = op.holdtime.seconds() as u64;
                for c in &op.capability {
                    if let packet::Capability::FourOctetAsNumber(a) = c {
                        cap_as = *a;
                    }
                }
            }
        }
        let limit = sess.prefix_counters.get(&Family::IPV4).map(|(m, _)| *m).unwrap_or(0);
        let cluster = sess.cluster_id.map(|c| c.to_string()).unwrap_or_else(|| "none".to_string());
        writeln!(
            out,
            "{{\"accepted\":true,\"role\":\"{}\",\"openAs\":{},\"capAs\":{},\"ctxAs\":{},\"hold\":{},\"cluster\":\"{}\",\"limit\":{},\"confedId\":{}}}",
            role, open_as, cap_as, sess.export_ctx.local_asn, open_hold, cluster, limit, sess.export_ctx.confederation_id
        )
        .unwrap();
    }
    out.flush().unwrap();
}

// ------------------------------------------------------------------------------------------------
// C17 store half: behaviours of spec/ApiStore/ApiStore.tla on the real GrpcService
// (add_path / delete_path / list_path) with a real TableManager that also holds peer-learned paths.
//
// Input (VERIF_IN):  "seq <id>" starts a fresh world; then one op per line:
//     add <pfx> <pid> <cls> | del <n> | peer+ <pfx> | peer- <pfx>
// Output (VERIF_OUT): one JSON object per op: the RPC result and the projection of what is stored (table) and what
// ListPath shows, each path mapped back to the class whose independently built content it equals ("?" if none).
// ------------------------------------------------------------------------------------------------

fn as_wrap(a: api::attribute::Attr) -> api::Attribute {
    api::Attribute { attr: Some(a) }
}

fn as_pfx(p: &str) -> (Family, packet::Nlri, api::Family, api::Nlri) {
    match p {
        "p1" => (
            Family::IPV4,
            packet::Nlri::V4(bgp::Ipv4Net { addr: Ipv4Addr::new(198, 51, 100, 0), mask: 24 }),
            api::Family { afi: 1, safi: 1 },
            api::Nlri { nlri: Some(api::nlri::Nlri::Prefix(api::IpAddressPrefix { prefix: "198.51.100.0".into(), prefix_len: 24 })) },
        ),
        "p6" => (
            Family::IPV6,
            packet::Nlri::V6(bgp::Ipv6Net { addr: "2001:db8:6::".parse().unwrap(), mask: 48 }),
            api::Family { afi: 2, safi: 1 },
            api::Nlri { nlri: Some(api::nlri::Nlri::Prefix(api::IpAddressPrefix { prefix: "2001:db8:6::".into(), prefix_len: 48 })) },
        ),
        x => panic!("harness: pfx {x}"),
    }
}

fn as_nh_attr(f: Family) -> api::Attribute {
    if f == Family::IPV4 {
        as_wrap(api::attribute::Attr::NextHop(api::NextHopAttribute { next_hop: "192.0.2.1".into() }))
    } else {
        as_wrap(api::attribute::Attr::MpReach(api::MpReachNlriAttribute {
            family: Some(api::Family { afi: 2, safi: 1 }),
            next_hops: vec!["2001:db8::1".into()],
            nlris: vec![],
        }))
    }
}

fn as_nh_expected(f: Family) -> bgp::Nexthop {
    if f == Family::IPV4 { bgp::Nexthop::V4(Ipv4Addr::new(192, 0, 2, 1)) } else { bgp::Nexthop::V6("2001:db8::1".parse().unwrap()) }
}

/// the API attribute list of a class, as a client would send it
fn as_api_attrs(cls: &str, f: Family) -> Vec<api::Attribute> {
    use api::attribute::Attr as A;
    let nh = as_nh_attr(f);
    match cls {
        "min" => vec![nh],
        "full" => vec![
            as_wrap(A::Origin(api::OriginAttribute { origin: 2 })),
            as_wrap(A::AsPath(api::AsPathAttribute {
                segments: vec![api::AsSegment { r#type: 2, numbers: vec![65001, 4_200_000_002] }, api::AsSegment { r#type: 1, numbers: vec![65003] }],
            })),
            nh,
            as_wrap(A::MultiExitDisc(api::MultiExitDiscAttribute { med: 5 })),
            as_wrap(A::LocalPref(api::LocalPrefAttribute { local_pref: 200 })),
            as_wrap(A::AtomicAggregate(api::AtomicAggregateAttribute {})),
            as_wrap(A::Aggregator(api::AggregatorAttribute { asn: 65001, address: "192.0.2.9".into() })),
            as_wrap(A::Communities(api::CommunitiesAttribute { communities: vec![(65001 << 16) | 1, 0xffff_ff01] })),
            as_wrap(A::ExtendedCommunities(api::ExtendedCommunitiesAttribute {
                communities: vec![
                    api::ExtendedCommunity {
                        extcom: Some(api::extended_community::Extcom::TwoOctetAsSpecific(api::TwoOctetAsSpecificExtended {
                            is_transitive: true,
                            sub_type: 2,
                            asn: 65001,
                            local_admin: 100,
                        })),
                    },
                    api::ExtendedCommunity {
                        extcom: Some(api::extended_community::Extcom::Unknown(api::UnknownExtended { r#type: 0x43, value: vec![0x43, 9, 1, 2, 3, 4, 5, 6] })),
                    },
                ],
            })),
            as_wrap(A::LargeCommunities(api::LargeCommunitiesAttribute {
                communities: vec![api::LargeCommunity { global_admin: 4_200_000_001, local_data1: 2, local_data2: 3 }],
            })),
            as_wrap(A::Unknown(api::UnknownAttribute { flags: 0xc0, r#type: 200, value: vec![1, 2, 3] })),
        ],
        "rr" => vec![
            as_wrap(A::Origin(api::OriginAttribute { origin: 1 })),
            nh,
            as_wrap(A::OriginatorId(api::OriginatorIdAttribute { id: "192.0.2.10".into() })),
            as_wrap(A::ClusterList(api::ClusterListAttribute { ids: vec!["192.0.2.11".into()] })),
        ],
        "badorigin" => vec![as_wrap(A::Origin(api::OriginAttribute { origin: 7 })), nh],
        "badseg" => vec![as_wrap(A::AsPath(api::AsPathAttribute { segments: vec![api::AsSegment { r#type: 0, numbers: vec![65001] }] })), nh],
        "longseg" => vec![as_wrap(A::AsPath(api::AsPathAttribute { segments: vec![api::AsSegment { r#type: 2, numbers: (0..256).map(|i| 65001 + i).collect() }] })), nh],
        "badnh" => vec![as_wrap(A::NextHop(api::NextHopAttribute { next_hop: "not-an-address".into() }))],
        "valorigin" => vec![as_wrap(A::Unknown(api::UnknownAttribute { flags: 0x40, r#type: 1, value: vec![] })), nh],
        "oddcomm" => vec![as_wrap(A::Unknown(api::UnknownAttribute { flags: 0xc0, r#type: 8, value: vec![1, 2, 3] })), nh],
        "badfam" => vec![nh],
        x => panic!("harness: cls {x}"),
    }
}

/// what ListPath must show for a class: the input minus what local_path moves into the path or drops, plus the defaults
fn as_api_listed(cls: &str, f: Family) -> Vec<api::Attribute> {
    use api::attribute::Attr as A;
    if cls == "peer" {
        return vec![
            as_wrap(A::Origin(api::OriginAttribute { origin: 0 })),
            as_wrap(A::AsPath(api::AsPathAttribute { segments: vec![api::AsSegment { r#type: 2, numbers: vec![65002] }] })),
            as_wrap(A::MultiExitDisc(api::MultiExitDiscAttribute { med: 10 })),
            as_wrap(A::Communities(api::CommunitiesAttribute { communities: vec![(65002 << 16) | 7] })),
        ];
    }
    let mut v: Vec<api::Attribute> = as_api_attrs(cls, f)
        .into_iter()
        .filter(|a| !matches!(a.attr, Some(A::NextHop(_)) | Some(A::MpReach(_)) | Some(A::OriginatorId(_)) | Some(A::ClusterList(_))))
        .collect();
    if !v.iter().any(|a| matches!(a.attr, Some(A::Origin(_)))) {
        v.push(as_wrap(A::Origin(api::OriginAttribute { origin: 0 })));
    }
    if !v.iter().any(|a| matches!(a.attr, Some(A::AsPath(_)))) {
        v.push(as_wrap(A::AsPath(api::AsPathAttribute { segments: vec![] })));
    }
    v
}

/// the attribute list a class must be stored as, built without the conversion code
fn as_internal(cls: &str) -> Vec<packet::Attribute> {
    use packet::Attribute as At;
    let v = |c, x| At::new_with_value(c, x).unwrap();
    let b = |c, x: Vec<u8>| At::new_with_bin(c, x).unwrap();
    match cls {
        "min" => vec![v(At::ORIGIN, 0), At::empty_as_path()],
        "rr" => vec![v(At::ORIGIN, 1), At::empty_as_path()],
        "peer" => vec![v(At::ORIGIN, 0), b(At::AS_PATH, vec![2, 1, 0, 0, 0xfd, 0xea]), v(At::MULTI_EXIT_DESC, 10), b(At::COMMUNITY, ((65002u32 << 16) | 7).to_be_bytes().to_vec())],
        "full" => {
            let mut asp = vec![2u8, 2];
            asp.extend_from_slice(&65001u32.to_be_bytes());
            asp.extend_from_slice(&4_200_000_002u32.to_be_bytes());
            asp.extend_from_slice(&[1, 1]);
            asp.extend_from_slice(&65003u32.to_be_bytes());
            let mut agg = 65001u32.to_be_bytes().to_vec();
            agg.extend_from_slice(&[192, 0, 2, 9]);
            let mut comm = ((65001u32 << 16) | 1).to_be_bytes().to_vec();
            comm.extend_from_slice(&0xffff_ff01u32.to_be_bytes());
            let ext = vec![0x00, 0x02, 0xfd, 0xe9, 0, 0, 0, 100, 0x43, 9, 1, 2, 3, 4, 5, 6];
            let mut large = Vec::new();
            for x in [4_200_000_001u32, 2, 3] {
                large.extend_from_slice(&x.to_be_bytes());
            }
            vec![
                v(At::ORIGIN, 2),
                b(At::AS_PATH, asp),
                v(At::MULTI_EXIT_DESC, 5),
                v(At::LOCAL_PREF, 200),
                b(At::ATOMIC_AGGREGATE, vec![]),
                b(At::AGGREGATOR, agg),
                b(At::COMMUNITY, comm),
                b(At::EXTENDED_COMMUNITY, ext),
                b(At::LARGE_COMMUNITY, large),
                At::new_opaque(200, 0xc0, vec![1, 2, 3]),
            ]
        }
        _ => vec![],
    }
}

const AS_CLASSES: [&str; 4] = ["min", "full", "rr", "peer"];

fn as_same_set<T: PartialEq>(a: &[T], b: &[T]) -> bool {
    a.len() == b.len() && a.iter().all(|x| a.iter().filter(|y| *y == x).count() == b.iter().filter(|y| *y == x).count())
}

struct AsWorld {
    svc: grpc::GrpcService,
    tables: TableHandle,
    uuids: Vec<Vec<u8>>,
    peer: Arc<table::Source>,
}

impl AsWorld {
    async fn new() -> Self {
        let global = mk_global();
        let tables: TableHandle = Arc::new(TableManager::new(2));
        let (tx, _rx) = mpsc::unbounded_channel();
        let svc = grpc::GrpcService::new(Arc::new(tokio::sync::Notify::new()), tx, global, tables.clone());
        let peer = Arc::new(table::Source::new(
            IpAddr::V4(Ipv4Addr::new(10, 0, 0, 2)),
            IpAddr::V4(Ipv4Addr::new(10, 0, 0, 254)),
            65002,
            65001,
            Ipv4Addr::new(10, 0, 0, 2),
            table::PeerRole::Ebgp,
        ));
        AsWorld { svc, tables, uuids: Vec::new(), peer }
    }

    async fn project(&self) -> String {
        use api::go_bgp_service_server::GoBgpService;
        let mut out = String::from("{");
        for (i, p) in ["p1", "p6"].iter().enumerate() {
            let (family, net, afam, _) = as_pfx(p);
            // what ListPath shows
            let req = api::ListPathRequest { table_type: api::TableType::Global as i32, family: Some(afam), enable_filtered: true, ..Default::default() };
            let mut shown: Vec<(bool, u32, String)> = Vec::new();
            match self.svc.list_path(tonic::Request::new(req)).await {
                Ok(resp) => {
                    let mut st = resp.into_inner();
                    while let Some(Ok(r)) = st.next().await {
                        let Some(d) = r.destination else { continue };
                        if d.prefix != net.to_string() {
                            shown.push((false, 0, format!("unexpected-prefix-{}", d.prefix)));
                            continue;
                        }
                        for path in d.paths {
                            let nlri_ok = path.nlri.as_ref() == Some(&convert::nlri_to_api(&net)) || path.nlri == Some(as_pfx(p).3);
                            let cls = AS_CLASSES
                                .iter()
                                .find(|c| as_same_set(&path.pattrs, &as_api_listed(c, family)))
                                .map(|c| c.to_string())
                                .unwrap_or_else(|| "?".to_string());
                            let is_peer = cls == "peer";
                            shown.push((!is_peer, path.identifier, if nlri_ok { cls } else { "nlri-differs".into() }));
                        }
                    }
                }
                Err(e) => shown.push((false, 0, format!("list-error-{}", e.code() as i32))),
            }
            // what the table holds
            let mut held: Vec<(bool, u32, String, String)> = Vec::new();
            let nh_of: Vec<(usize, Option<bgp::Nexthop>)> = self
                .tables
                .collect_loc_rib_paths(family)
                .into_iter()
                .filter(|c| c.net == net)
                .flat_map(|c| c.current_paths.iter().map(|x| (Arc::as_ptr(&x.attr) as usize, x.nexthop)).collect::<Vec<_>>())
                .collect();
            for d in self.tables.collect_paths(table::TableQuery::Global, family, vec![], true) {
                if d.net != net {
                    continue;
                }
                for e in d.paths {
                    let cls = AS_CLASSES.iter().find(|c| as_same_set(&e.attr, &as_internal(c))).map(|c| c.to_string()).unwrap_or_else(|| "?".to_string());
                    let nh = nh_of.iter().find(|(ptr, _)| *ptr == Arc::as_ptr(&e.attr) as usize).map(|(_, n)| *n);
                    let nh_s = match nh {
                        Some(Some(n)) if e.source.is_local() && n == as_nh_expected(family) => "ok",
                        Some(Some(_)) if !e.source.is_local() => "ok",
                        Some(None) => "none",
                        None => "unlisted",
                        _ => "wrong",
                    };
                    held.push((e.source.is_local(), e.remote_path_id, cls, nh_s.to_string()));
                }
            }
            shown.sort();
            held.sort();
            if i > 0 {
                out.push(',');
            }
            let _ = write!(out, "\"{}\":{{\"shown\":[", p);
            for (j, (l, pid, c)) in shown.iter().enumerate() {
                let _ = write!(out, "{}{{\"src\":\"{}\",\"pid\":{},\"cls\":\"{}\"}}", if j > 0 { "," } else { "" }, if *l { "local" } else { "peer" }, pid, c);
            }
            out.push_str("],\"held\":[");
            for (j, (l, pid, c, nh)) in held.iter().enumerate() {
                let _ = write!(
                    out,
                    "{}{{\"src\":\"{}\",\"pid\":{},\"cls\":\"{}\",\"nh\":\"{}\"}}",
                    if j > 0 { "," } else { "" },
                    if *l { "local" } else { "peer" },
                    pid,
                    c,
                    nh
                );
            }
            out.push_str("]}");
        }
        out.push('}');
        out
    }

    async fn op(&mut self, t: &[&str]) -> String {
        use api::go_bgp_service_server::GoBgpService;
        match t[0] {
            "add" => {
                let (family, _net, afam, anlri) = as_pfx(t[1]);
                let pid: u32 = t[2].parse().unwrap();
                let afam = if t[3] == "badfam" { if family == Family::IPV4 { api::Family { afi: 2, safi: 1 } } else { api::Family { afi: 1, safi: 1 } } } else { afam };
                let path = api::Path { nlri: Some(anlri), family: Some(afam), identifier: pid, pattrs: as_api_attrs(t[3], family), ..Default::default() };
                let req = api::AddPathRequest { table_type: api::TableType::Global as i32, vrf_id: String::new(), path: Some(path) };
                match self.svc.add_path(tonic::Request::new(req)).await {
                    Ok(r) => {
                        self.uuids.push(r.into_inner().uuid);
                        "ok".into()
                    }
                    Err(_) => "rejected".into(),
                }
            }
            "del" => {
                let n: usize = t[1].parse().unwrap();
                let uuid = self.uuids.get(n - 1).cloned().unwrap_or_else(|| vec![0xEE; 16]);
                let req = api::DeletePathRequest { table_type: api::TableType::Global as i32, uuid, ..Default::default() };
                match self.svc.delete_path(tonic::Request::new(req)).await {
                    Ok(_) => "ok".into(),
                    Err(_) => "rejected".into(),
                }
            }
            "peer+" | "peer-" => {
                let (family, net, _, _) = as_pfx(t[1]);
                let pn = packet::PathNlri { path_id: 0, nlri: net };
                if t[0] == "peer+" {
                    let nh = if family == Family::IPV4 { bgp::Nexthop::V4(Ipv4Addr::new(10, 0, 0, 2)) } else { bgp::Nexthop::V6("2001:db8::2".parse().unwrap()) };
                    self.tables.insert_route(self.peer.clone(), family, pn, Some(nh), Arc::new(as_internal("peer")), None, 1);
                } else {
                    self.tables.remove_route(self.peer.clone(), family, pn, None, 1);
                }
                "ok".into()
            }
            x => panic!("harness: op {x}"),
        }
    }
}

#[tokio::test]
async fn apistore_replay() {
    let inp = std::env::var("VERIF_IN").expect("VERIF_IN");
    let outp = std::env::var("VERIF_OUT").expect("VERIF_OUT");
    let mut out = std::io::BufWriter::new(std::fs::File::create(outp).unwrap());
    let text = std::fs::read_to_string(inp).unwrap();
    let mut w: Option<AsWorld> = None;
    let mut dead = false;
    for line in text.lines() {
        let t: Vec<&str> = line.split_whitespace().collect();
        if t.is_empty() {
            continue;
        }
        if t[0] == "seq" {
            w = Some(AsWorld::new().await);
            dead = false;
            writeln!(out, "{{\"seq\":{}}}", t[1]).unwrap();
            continue;
        }
        if dead {
            writeln!(out, "{{\"res\":\"skipped\",\"rib\":{{}}}}").unwrap();
            continue;
        }
        // a panic inside an RPC (e.g. under a shard lock) is data: report it and give up on this sequence
        let world = w.take().unwrap();
        let toks: Vec<String> = t.iter().map(|s| s.to_string()).collect();
        let h = tokio::spawn(async move {
            let mut world = world;
            let tk: Vec<&str> = toks.iter().map(|s| s.as_str()).collect();
            let res = world.op(&tk).await;
            let rib = world.project().await;
            (world, res, rib)
        });
        match h.await {
            Ok((world, res, rib)) => {
                w = Some(world);
                writeln!(out, "{{\"res\":\"{}\",\"rib\":{}}}", res, rib).unwrap();
            }
            Err(e) => {
                dead = true;
                writeln!(out, "{{\"res\":\"panic\",\"note\":\"{}\",\"rib\":{{}}}}", format!("{e}").replace('\\', "/").replace('"', "'").replace('\n', " ")).unwrap();
            }
        }
    }
}

// ------------------------------------------------------------------------------------------------
// C19 session half: behaviours of spec/BmpSession/BmpSession.tla on the real BmpClient::serve, with real BGP sessions
// (accept_connection + PeerSession::run against the scripted Remote) and a "station" socket whose bytes are read by the
// independent reader and folded the way a monitoring station folds them.
//
// Input (VERIF_IN): "seq <id>" starts a fresh world; ops: establish <p> | drop <p> | announce <p> <x> | withdraw <p> <x> |
// connect | disconnect.   Output (VERIF_OUT): per op the station's folded state, the RIB, the Peer Up / Peer Down messages
// seen during the step and a list of anomalies (malformed records, OPENs that are not the ones exchanged, events for peers
// the station was not told about).
// ------------------------------------------------------------------------------------------------
#[allow(dead_code)]
mod bmp_reader {
    include!(concat!(env!("OSRG_RUSTYBGP_VERIF_DIR"), "/../common/monitor_reader.rs"));
}

struct BsPeer {
    remote: Remote,
    task: tokio::task::JoinHandle<()>,
    /// the OPEN the scripted speaker sent (as number, router id, hold time)
    sent: (u32, u32, u16),
}

struct BsWorld {
    global: GlobalHandle,
    tables: TableHandle,
    active_tx: mpsc::UnboundedSender<TcpStream>,
    _active_rx: mpsc::UnboundedReceiver<TcpStream>,
    peers: FnvHashMap<String, BsPeer>,
    station: Option<(TcpStream, tokio_util::sync::CancellationToken, tokio::task::JoinHandle<()>)>,
    buf: Vec<u8>,
    known: std::collections::BTreeSet<String>,
    mirror: std::collections::BTreeMap<String, std::collections::BTreeSet<String>>,
    mirror_post: std::collections::BTreeMap<String, std::collections::BTreeSet<String>>,
}

fn bs_addr(p: &str) -> Ipv4Addr {
    match p {
        "a" => Ipv4Addr::new(127, 0, 0, 1),
        "b" => Ipv4Addr::new(127, 0, 0, 2),
        x => panic!("harness: peer {x}"),
    }
}

fn bs_name(a: &[u8; 16]) -> String {
    match a[15] {
        1 if a[12] == 127 => "a".into(),
        2 if a[12] == 127 => "b".into(),
        _ => format!("?{:?}", &a[12..]),
    }
}

fn bs_asn(p: &str) -> u32 {
    if p == "a" { 65002 } else { 4_200_000_003 }
}

fn bs_pfx(x: &str) -> packet::Nlri {
    match x {
        "x" => packet::Nlri::V4(bgp::Ipv4Net { addr: Ipv4Addr::new(198, 51, 100, 0), mask: 24 }),
        "y" => packet::Nlri::V4(bgp::Ipv4Net { addr: Ipv4Addr::new(203, 0, 113, 128), mask: 25 }),
        z => panic!("harness: prefix {z}"),
    }
}

fn bs_pfx_name(n: &packet::Nlri) -> String {
    for x in ["x", "y"] {
        if &bs_pfx(x) == n {
            return x.to_string();
        }
    }
    format!("?{n}")
}

impl BsWorld {
    async fn new() -> Self {
        let global = mk_global();
        let tables: TableHandle = Arc::new(TableManager::new(2));
        for p in ["a", "b"] {
            let mut prm = base_params(IpAddr::V4(bs_addr(p)));
            prm.families.insert(Family::IPV4, 0);
            global.write().await.add_peer(prm, None).unwrap();
        }
        let (active_tx, _active_rx) = mpsc::unbounded_channel();
        BsWorld {
            global,
            tables,
            active_tx,
            _active_rx,
            peers: FnvHashMap::default(),
            station: None,
            buf: Vec::new(),
            known: Default::default(),
            mirror: Default::default(),
            mirror_post: Default::default(),
        }
    }

    fn rib(&self, p: &str) -> Vec<String> {
        let mut v: Vec<String> = self
            .tables
            .collect_paths(table::TableQuery::AdjIn(IpAddr::V4(bs_addr(p))), Family::IPV4, vec![], true)
            .iter()
            .map(|d| bs_pfx_name(&d.net))
            .collect();
        v.sort();
        v
    }

    /// Read what the station socket has until it stays quiet, fold it, and report anomalies.
    async fn drain_station(&mut self, ups: &mut Vec<String>, downs: &mut Vec<String>, anomalies: &mut Vec<String>) {
        let Some((sock, _, _)) = self.station.as_mut() else { return };
        let mut quiet = 0;
        while quiet < 3 {
            let mut tmp = [0u8; 65536];
            match tokio::time::timeout(Duration::from_millis(12), sock.read(&mut tmp)).await {
                Ok(Ok(0)) | Ok(Err(_)) => break,
                Ok(Ok(n)) => {
                    self.buf.extend_from_slice(&tmp[..n]);
                    quiet = 0;
                }
                Err(_) => quiet += 1,
            }
        }
        loop {
            if self.buf.len() < 6 {
                break;
            }
            let len = u32::from_be_bytes([self.buf[1], self.buf[2], self.buf[3], self.buf[4]]) as usize;
            if self.buf[0] != 3 || len < 6 {
                anomalies.push(format!("stream: not a BMP common header (version {}, length {})", self.buf[0], len));
                self.buf.clear();
                break;
            }
            if self.buf.len() < len {
                break; // the rest has not arrived yet
            }
            let raw: Vec<u8> = self.buf.drain(..len).collect();
            let r = match bmp_reader::read_bmp(&raw) {
                Ok(r) => r,
                Err(e) => {
                    anomalies.push(format!("record: {e}"));
                    continue;
                }
            };
            if matches!(r.typ, 0 | 2 | 3) {
                let v = r.flags & 0x80 != 0;
                let v4_shape = r.addr[..12].iter().all(|x| *x == 0);
                if r.peer_type == 0 && (v || !v4_shape) {
                    anomalies.push("per-peer header: V flag / address shape wrong for an IPv4 peer".into());
                }
            }
            let who = bs_name(&r.addr);
            match r.typ {
                4 => {}
                3 => {
                    ups.push(who.clone());
                    if !self.known.insert(who.clone()) {
                        anomalies.push(format!("second Peer Up for {who} without a Peer Down"));
                    }
                    self.mirror.entry(who.clone()).or_default().clear();
                    self.mirror_post.entry(who.clone()).or_default().clear();
                    // the two OPENs: sent by the daemon, received from the peer
                    if r.body.len() < 20 {
                        anomalies.push("Peer Up body truncated".into());
                        continue;
                    }
                    let (pdus, _) = bmp_reader::split_pdus(&r.body[20..]);
                    if pdus.len() < 2 || pdus[0][18] != 1 || pdus[1][18] != 1 {
                        anomalies.push("Peer Up does not hold two OPEN messages".into());
                        continue;
                    }
                    let mut opens = Vec::new();
                    for pdu in pdus.iter().take(2) {
                        let mut b = bytes::BytesMut::from(&pdu[..]);
                        match bgp::PeerCodec::new().try_parse(&mut b) {
                            Ok(Some(parsed)) => match bgp::validate_message(parsed, true) {
                                Ok(mut it) => {
                                    if let Some(bgp::Message::Open(o)) = it.next() {
                                        opens.push((o.as_number, o.router_id, o.holdtime.seconds()));
                                    }
                                }
                                Err(_) => anomalies.push("an OPEN of a Peer Up fails validation".into()),
                            },
                            _ => anomalies.push("an OPEN of a Peer Up does not parse".into()),
                        }
                    }
                    if let (2, Some(bp)) = (opens.len(), self.peers.get(&who)) {
                        let d = bp.remote.daemon_open.as_ref().map(|o| (o.as_number, o.router_id, o.holdtime.seconds()));
                        if Some(opens[0]) != d {
                            anomalies.push(format!(
                                "Peer Up for {who}: Sent OPEN says (as, id, hold) {:?}, the daemon's OPEN on the wire said {:?}",
                                opens[0], d
                            ));
                        }
                        if opens[1] != bp.sent {
                            anomalies.push(format!("Peer Up for {who}: Received OPEN says {:?}, the peer sent {:?}", opens[1], bp.sent));
                        }
                        if r.asn != bs_asn(&who) {
                            anomalies.push(format!("Peer Up for {who}: per-peer header AS {}", r.asn));
                        }
                    }
                }
                2 => {
                    downs.push(who.clone());
                    if !self.known.remove(&who) {
                        anomalies.push(format!("Peer Down for {who} whose Peer Up was not sent on this stream"));
                    }
                    self.mirror.remove(&who);
                    self.mirror_post.remove(&who);
                    if r.body.is_empty() || !(1..=5).contains(&r.body[0]) {
                        anomalies.push("Peer Down without a valid reason".into());
                    }
                }
                0 => {
                    if r.peer_type != 0 || r.flags & 0x10 != 0 {
                        continue; // Loc-RIB / Adj-RIB-Out views are not folded here
                    }
                    if !self.known.contains(&who) {
                        anomalies.push(format!("Route Monitoring for {who} whose Peer Up was not sent on this stream"));
                    }
                    let (pdus, left) = bmp_reader::split_pdus(&r.body);
                    if pdus.len() != 1 || left {
                        anomalies.push(format!("Route Monitoring holds {} BGP messages", pdus.len()));
                    }
                    let post = r.flags & 0x40 != 0;
                    for pdu in pdus {
                        let mut b = bytes::BytesMut::from(&pdu[..]);
                        let caps = [packet::Capability::MultiProtocol(Family::IPV4), packet::Capability::FourOctetAsNumber(65001)];
                        let parsed = match bgp::PeerCodec::negotiate(&caps, &caps).try_parse(&mut b) {
                            Ok(Some(x)) => x,
                            _ => {
                                anomalies.push(format!("an UPDATE of a Route Monitoring message does not parse: {:02x?}", &pdu[..pdu.len().min(80)]));
                                continue;
                            }
                        };
                        let Ok(msgs) = bgp::validate_message(parsed, false) else {
                            anomalies.push("an UPDATE of a Route Monitoring message fails validation".into());
                            continue;
                        };
                        let m = if post { self.mirror_post.entry(who.clone()).or_default() } else { self.mirror.entry(who.clone()).or_default() };
                        for msg in msgs {
                            match msg {
                                bgp::Message::Update(bgp::Update::Reach { entries, .. }) => {
                                    for e in entries {
                                        m.insert(bs_pfx_name(&e.nlri));
                                    }
                                }
                                bgp::Message::Update(bgp::Update::Unreach { entries, .. }) => {
                                    for e in entries {
                                        m.remove(&bs_pfx_name(&e.nlri));
                                    }
                                }
                                _ => {}
                            }
                        }
                    }
                }
                t => anomalies.push(format!("unexpected BMP message type {t}")),
            }
        }
    }

    async fn op(&mut self, t: &[&str], anomalies: &mut Vec<String>) {
        match t[0] {
            "establish" => {
                let p = t[1];
                let (client, server) = pair_from(bs_addr(p)).await;
                let Some(s) = accept_connection(&self.global, &self.tables, server, crate::fsm::Role::Passive).await else {
                    anomalies.push("harness: accept_connection refused".into());
                    return;
                };
                let g = self.global.clone();
                let tx = self.active_tx.clone();
                let task = tokio::spawn(async move { s.run(g, tx).await });
                let mut r = Remote::new(client, bs_asn(p));
                if !r.read_open().await {
                    anomalies.push("harness: no OPEN from daemon".into());
                }
                let rid = u32::from(Ipv4Addr::new(10, 0, 0, if p == "a" { 2 } else { 3 }));
                let hold = if p == "a" { 90 } else { 30 };
                let caps = vec![packet::Capability::MultiProtocol(Family::IPV4), packet::Capability::FourOctetAsNumber(bs_asn(p))];
                if !r.open_exchange(rid, hold, caps).await {
                    anomalies.push("harness: OPEN exchange failed".into());
                }
                // initial dump of the daemon ends with End-of-RIB
                loop {
                    match r.recv(WAIT_MS).await {
                        Some(bgp::Message::Update(bgp::Update::EndOfRib(_))) => break,
                        Some(_) => {}
                        None => {
                            anomalies.push("harness: no End-of-RIB from daemon".into());
                            break;
                        }
                    }
                }
                self.peers.insert(p.to_string(), BsPeer { remote: r, task, sent: (bs_asn(p), rid, hold) });
            }
            "drop" => {
                if let Some(mut bp) = self.peers.remove(t[1]) {
                    bp.remote.close();
                    if tokio::time::timeout(Duration::from_millis(WAIT_MS), bp.task).await.is_err() {
                        anomalies.push("harness: session task did not end".into());
                    }
                }
            }
            "announce" | "withdraw" => {
                let p = t[1].to_string();
                let n = bs_pfx(t[2]);
                let ann = t[0] == "announce";
                let asn = bs_asn(&p);
                let Some(bp) = self.peers.get_mut(&p) else { return };
                let msg = if ann {
                    let mut asp = vec![2u8, 1];
                    asp.extend_from_slice(&asn.to_be_bytes());
                    bgp::Message::Update(bgp::Update::Reach {
                        family: Family::IPV4,
                        entries: vec![packet::PathNlri { path_id: 0, nlri: n.clone() }],
                        nexthop: Some(bgp::Nexthop::V4(bs_addr(&p))),
                        attr: Arc::new(vec![
                            packet::Attribute::new_with_value(packet::Attribute::ORIGIN, 0).unwrap(),
                            packet::Attribute::new_with_bin(packet::Attribute::AS_PATH, asp).unwrap(),
                        ]),
                    })
                } else {
                    bgp::Message::Update(bgp::Update::Unreach { family: Family::IPV4, entries: vec![packet::PathNlri { path_id: 0, nlri: n.clone() }] })
                };
                bp.remote.send(&msg).await;
                let tables = self.tables.clone();
                let addr = IpAddr::V4(bs_addr(&p));
                let ok = wait_until(
                    || tables.collect_paths(table::TableQuery::AdjIn(addr), Family::IPV4, vec![], true).iter().any(|d| d.net == n) == ann,
                    WAIT_MS,
                )
                .await;
                if !ok {
                    anomalies.push("harness: the RIB did not follow the UPDATE".into());
                }
            }
            "connect" => {
                let (client, server) = pair_from(Ipv4Addr::new(127, 0, 0, 9)).await;
                let cancel = tokio_util::sync::CancellationToken::new();
                let h = crate::bmp::verif_harness::serve_for_test(client, cancel.clone(), self.global.clone(), self.tables.clone(), "both");
                self.station = Some((server, cancel, h));
                self.buf.clear();
                self.known.clear();
                self.mirror.clear();
                self.mirror_post.clear();
            }
            "disconnect" => {
                if let Some((sock, cancel, h)) = self.station.take() {
                    cancel.cancel();
                    drop(sock);
                    let _ = tokio::time::timeout(Duration::from_millis(WAIT_MS), h).await;
                }
                self.buf.clear();
                self.known.clear();
                self.mirror.clear();
                self.mirror_post.clear();
            }
            x => panic!("harness: op {x}"),
        }
    }

    async fn close(&mut self) {
        if let Some((sock, cancel, h)) = self.station.take() {
            cancel.cancel();
            drop(sock);
            let _ = tokio::time::timeout(Duration::from_millis(WAIT_MS), h).await;
        }
        let names: Vec<String> = self.peers.keys().cloned().collect();
        for n in names {
            if let Some(mut bp) = self.peers.remove(&n) {
                bp.remote.close();
                let _ = tokio::time::timeout(Duration::from_millis(WAIT_MS), bp.task).await;
            }
        }
    }
}

#[tokio::test]
async fn bmpsession_replay() {
    let inp = std::env::var("VERIF_IN").expect("VERIF_IN");
    let outp = std::env::var("VERIF_OUT").expect("VERIF_OUT");
    let mut out = std::io::BufWriter::new(std::fs::File::create(outp).unwrap());
    let text = std::fs::read_to_string(inp).unwrap();
    let mut w: Option<BsWorld> = None;
    for line in text.lines() {
        let t: Vec<&str> = line.split_whitespace().collect();
        if t.is_empty() {
            continue;
        }
        if t[0] == "seq" {
            if let Some(mut old) = w.take() {
                old.close().await;
            }
            w = Some(BsWorld::new().await);
            writeln!(out, "{{\"seq\":{}}}", t[1]).unwrap();
            continue;
        }
        let world = w.as_mut().unwrap();
        let mut anomalies = Vec::new();
        let mut ups = Vec::new();
        let mut downs = Vec::new();
        world.op(&t, &mut anomalies).await;
        settle().await;
        world.drain_station(&mut ups, &mut downs, &mut anomalies).await;
        ups.sort();
        downs.sort();
        let q = |v: &Vec<String>| v.iter().map(|s| format!("\"{}\"", s.replace('"', "'"))).collect::<Vec<_>>().join(",");
        let set = |m: &std::collections::BTreeMap<String, std::collections::BTreeSet<String>>, p: &str| {
            m.get(p).map(|s| s.iter().cloned().collect::<Vec<_>>()).unwrap_or_default()
        };
        let known: Vec<String> = world.known.iter().cloned().collect();
        writeln!(
            out,
            "{{\"known\":[{}],\"mirror\":{{\"a\":[{}],\"b\":[{}]}},\"mirror_post\":{{\"a\":[{}],\"b\":[{}]}},\"rib\":{{\"a\":[{}],\"b\":[{}]}},\"ups\":[{}],\"downs\":[{}],\"anomalies\":[{}]}}",
            q(&known),
            q(&set(&world.mirror, "a")),
            q(&set(&world.mirror, "b")),
            q(&set(&world.mirror_post, "a")),
            q(&set(&world.mirror_post, "b")),
            q(&world.rib("a")),
            q(&world.rib("b")),
            q(&ups),
            q(&downs),
            q(&anomalies)
        )
        .unwrap();
    }
    if let Some(mut old) = w.take() {
        old.close().await;
    }
}

// ------------------------------------------------------------------------------------------------
// C08 driver binding: PeerFsm model behaviours of one (passive) connection executed on the real session driver -
// PeerSession::rx_msg for received messages, the timer-expiry arm of the select loop (arbiter + apply_outputs) for the
// keepalive timer, the real flush_tx for "an UPDATE was sent" - with the deadlines of the real tokio Sleeps in
// holdtime_futures / keepalive_futures read after every step.
//
// Input (VERIF_IN ending in .hold.in): "seq <sid> <local_hold>" then "P connected | P open <asn> <rid> <hold> | P keepalive |
// P update | P refresh | P katimer | P updatesent".  Output: per step whether each timer was re-armed and to what.
// ------------------------------------------------------------------------------------------------

fn hd_deadline(f: &FuturesUnordered<tokio::time::Sleep>) -> Option<tokio::time::Instant> {
    std::pin::Pin::new(f).iter_pin_ref().next().map(|s| s.deadline())
}

/// seconds from `now` to the deadline, -1 for "never" (more than ten years away), -2 for "no timer object"
fn hd_secs(d: Option<tokio::time::Instant>, now: tokio::time::Instant) -> i64 {
    match d {
        None => -2,
        Some(d) => {
            let s = d.saturating_duration_since(now).as_secs_f64();
            if s > 10.0 * 365.0 * 86400.0 { -1 } else { s.round() as i64 }
        }
    }
}

#[tokio::test]
async fn holddriver_replay() {
    let Ok(inp) = std::env::var("VERIF_IN") else {
        return;
    };
    if !inp.ends_with(".hold.in") {
        return;
    }
    let outp = std::env::var("VERIF_OUT").expect("VERIF_OUT");
    let text = std::fs::read_to_string(&inp).expect("read VERIF_IN");
    let mut out = std::io::BufWriter::new(std::fs::File::create(&outp).expect("create VERIF_OUT"));
    struct W {
        global: GlobalHandle,
        sess: PeerSession,
        stream: TcpStream,
        _client: TcpStream,
        local: SocketAddr,
        peer: SocketAddr,
    }
    let mut w: Option<W> = None;
    let mut sid = String::new();
    let mut step = 0usize;
    let mut ended = false;
    for line in text.lines() {
        let t: Vec<&str> = line.split_whitespace().collect();
        if t.is_empty() {
            continue;
        }
        if t[0] == "seq" {
            sid = t[1].to_string();
            step = 0;
            ended = false;
            let global = mk_global();
            let tables: TableHandle = Arc::new(TableManager::new(1));
            let addr = IpAddr::V4(Ipv4Addr::new(127, 0, 0, 1));
            let mut p = base_params(addr);
            p.holdtime = t[2].parse().unwrap();
            p.expected_remote_asn = 65002;
            p.families.insert(Family::IPV4, 0);
            global.write().await.add_peer(p, None).unwrap();
            let (client, server) = pair_from(Ipv4Addr::new(127, 0, 0, 1)).await;
            let mut sess = accept_connection(&global, &tables, server, crate::fsm::Role::Passive).await.expect("accept_connection");
            let stream = sess.stream.take().unwrap();
            let peer = stream.peer_addr().unwrap();
            let local = stream.local_addr().unwrap();
            w = Some(W { global, sess, stream, _client: client, local, peer });
            continue;
        }
        step += 1;
        let x = w.as_mut().unwrap();
        if ended {
            writeln!(out, "{{\"seq\":\"{}\",\"step\":{},\"skipped\":true}}", sid, step).unwrap();
            continue;
        }
        let before_h = hd_deadline(&x.sess.holdtime_futures);
        let before_k = hd_deadline(&x.sess.keepalive_futures);
        let now = tokio::time::Instant::now();
        let role = x.sess.role;
        let mut terminated = false;
        let mut note = String::new();
        let rx = |m: bgp::Message| m;
        match t[1] {
            "connected" => {
                let outs = x.sess.conn_arbiter.lock().unwrap().process(role, crate::fsm::Input::Connected(false));
                let (st, eff) = x.sess.apply_outputs(outs, x.local, x.peer).await;
                x.sess.process_effects(eff, &x.global).await;
                terminated = matches!(st, Step::Terminate { .. });
            }
            "open" | "keepalive" | "update" | "refresh" => {
                let msg = match t[1] {
                    "open" => rx(bgp::Message::Open(bgp::Open {
                        as_number: t[2].parse().unwrap(),
                        holdtime: HoldTime::new(t[4].parse().unwrap()).unwrap_or(HoldTime::DISABLED),
                        router_id: t[3].parse().unwrap(),
                        capability: vec![packet::Capability::MultiProtocol(Family::IPV4), packet::Capability::FourOctetAsNumber(t[2].parse().unwrap())],
                    })),
                    "keepalive" => bgp::Message::Keepalive,
                    "update" => bgp::Message::Update(bgp::Update::Reach {
                        family: Family::IPV4,
                        entries: vec![packet::PathNlri { path_id: 0, nlri: packet::Nlri::V4(bgp::Ipv4Net { addr: Ipv4Addr::new(198, 51, 100, 0), mask: 24 }) }],
                        nexthop: Some(bgp::Nexthop::V4(Ipv4Addr::new(127, 0, 0, 1))),
                        attr: Arc::new(vec![
                            packet::Attribute::new_with_value(packet::Attribute::ORIGIN, 0).unwrap(),
                            packet::Attribute::new_with_bin(packet::Attribute::AS_PATH, vec![2, 1, 0, 0, 0xfd, 0xea]).unwrap(),
                        ]),
                    }),
                    _ => bgp::Message::RouteRefresh { family: Family::IPV4 },
                };
                let g = x.global.clone();
                let st = x.sess.rx_msg(&g, x.local, x.peer, msg).await;
                terminated = matches!(st, Step::Terminate { .. });
            }
            "katimer" => {
                let outs = x.sess.conn_arbiter.lock().unwrap().process(role, crate::fsm::Input::KeepaliveTimerExpired);
                let (st, eff) = x.sess.apply_outputs(outs, x.local, x.peer).await;
                x.sess.process_effects(eff, &x.global).await;
                terminated = matches!(st, Step::Terminate { .. });
            }
            "updatesent" => {
                // something to send: an UPDATE buffered for IPv4, then the real flush
                match x.sess.pending.get_mut(&Family::IPV4) {
                    Some(p) => {
                        p.buffer_messages(vec![bgp::Message::Update(bgp::Update::Unreach {
                            family: Family::IPV4,
                            entries: vec![packet::PathNlri { path_id: 0, nlri: packet::Nlri::V4(bgp::Ipv4Net { addr: Ipv4Addr::new(203, 0, 113, 0), mask: 24 }) }],
                        })]);
                        if !x.sess.flush_tx(&mut x.stream).await {
                            note.push_str("flush_tx failed;");
                        }
                    }
                    None => note.push_str("no pending queue for IPv4 (session not established);"),
                }
            }
            o => panic!("harness: op {o}"),
        }
        let after_h = hd_deadline(&x.sess.holdtime_futures);
        let after_k = hd_deadline(&x.sess.keepalive_futures);
        writeln!(
            out,
            "{{\"seq\":\"{}\",\"step\":{},\"hold_moved\":{},\"hold_in\":{},\"ka_moved\":{},\"ka_in\":{},\"terminated\":{},\"note\":\"{}\"}}",
            sid,
            step,
            after_h != before_h,
            hd_secs(after_h, now),
            after_k != before_k,
            hd_secs(after_k, now),
            terminated,
            note
        )
        .unwrap();
        if terminated {
            ended = true;
        }
    }
}

// ------------------------------------------------------------------------------------------------
// C16 inheritance table (spec/Admission/Inherit.tla): a static neighbour in a peer group.  Every case builds the
// neighbour's own PeerParams and the PeerGroup, runs the real apply_peer_group + build, and reports where each
// effective value came from (own values, group values and defaults are chosen pairwise different).
// Input (.inh.in): "inh <own fields, comma|-> <group fields, comma|->"
// ------------------------------------------------------------------------------------------------
#[test]
fn inherit_replay() {
    let Ok(inp) = std::env::var("VERIF_IN") else {
        return;
    };
    if !inp.ends_with(".inh.in") {
        return;
    }
    let outp = std::env::var("VERIF_OUT").expect("VERIF_OUT");
    let text = std::fs::read_to_string(&inp).expect("read VERIF_IN");
    let mut out = std::io::BufWriter::new(std::fs::File::create(&outp).expect("create VERIF_OUT"));
    for line in text.lines() {
        let t: Vec<&str> = line.split_whitespace().collect();
        if t.len() < 3 || t[0] != "inh" {
            continue;
        }
        let own: Vec<&str> = t[1].split(',').filter(|x| *x != "-").collect();
        let grp: Vec<&str> = t[2].split(',').filter(|x| *x != "-").collect();
        let has = |v: &Vec<&str>, f: &str| v.iter().any(|x| *x == f);
        let addr = IpAddr::V4(Ipv4Addr::new(127, 0, 0, 1));
        let mut p = base_params(addr);
        p.holdtime = PeerParams::DEFAULT_HOLD_TIME;
        if has(&own, "as") {
            p.expected_remote_asn = 65010;
        }
        if has(&own, "hold") {
            p.holdtime = 30;
        }
        if has(&own, "fam") {
            p.families.insert(Family::IPV4, 3);
            p.families.insert(Family::IPV6, 0);
            p.send_max.insert(Family::IPV4, 4);
        }
        if has(&own, "gr") {
            p.graceful_restart = Some(GrPeerConfig { restart_time: 120, notification_enabled: true, families: vec![Family::IPV4] });
        }
        if has(&own, "llgr") {
            p.llgr = Some(LlgrPeerConfig { families: vec![(Family::IPV4, 7200)] });
        }
        p.rs_client = has(&own, "rs");
        if has(&own, "rr") {
            p.route_reflector = RouteReflectorConfig { route_reflector_client: true, ..Default::default() };
        }
        let mut gfam: FnvHashMap<Family, u8> = FnvHashMap::default();
        let mut gsend: FnvHashMap<Family, usize> = FnvHashMap::default();
        if has(&grp, "fam") {
            gfam.insert(Family::IPV4, 3);
            gsend.insert(Family::IPV4, 2);
        }
        let pg = PeerGroup {
            as_number: if has(&grp, "as") { 65020 } else { 0 },
            dynamic_peers: Vec::new(),
            route_server_client: has(&grp, "rs"),
            holdtime: if has(&grp, "hold") { Some(60) } else { None },
            local_asn: 0,
            passive: false,
            route_reflector: if has(&grp, "rr") { RouteReflectorConfig { route_reflector_client: true, ..Default::default() } } else { RouteReflectorConfig::default() },
            multihop_ttl: None,
            ttl_security: None,
            auth_password: None,
            connect_retry_time: None,
            families: gfam,
            send_max: gsend,
            graceful_restart: if has(&grp, "gr") { Some(GrPeerConfig { restart_time: 90, notification_enabled: false, families: vec![Family::IPV4] }) } else { None },
            llgr: if has(&grp, "llgr") { Some(LlgrPeerConfig { families: vec![(Family::IPV4, 3600)] }) } else { None },
        };
        p.apply_peer_group(&pg);
        let peer = p.build(u32::from(Ipv4Addr::new(1, 0, 0, 1)), 65001);
        let cfg = &peer.config;
        let from3 = |own_v: bool, grp_v: bool| if own_v { "own" } else if grp_v { "grp" } else { "default" };
        let as_from = match cfg.expected_remote_asn {
            65010 => "own",
            65020 => "grp",
            0 => "default",
            _ => "?",
        };
        let hold_from = match cfg.holdtime {
            30 => "own",
            60 => "grp",
            x if x == PeerParams::DEFAULT_HOLD_TIME => "default",
            _ => "?",
        };
        // what the OPEN will carry
        let caps = &cfg.local_cap;
        let mp: Vec<Family> = caps.iter().filter_map(|c| if let packet::Capability::MultiProtocol(f) = c { Some(*f) } else { None }).collect();
        let fam_from = if mp.contains(&Family::IPV6) {
            "own"
        } else if caps.iter().any(|c| matches!(c, packet::Capability::AddPath(_))) {
            "grp"
        } else {
            "default"
        };
        let sendmax_ok = match fam_from {
            "own" => peer.context.lock().unwrap().conn_arbiter.lock().is_ok(),
            _ => true,
        };
        let gr_cap = caps.iter().find_map(|c| if let packet::Capability::GracefulRestart { restart_time, .. } = c { Some(*restart_time) } else { None });
        let llgr_cap = caps.iter().find_map(|c| if let packet::Capability::LongLivedGracefulRestart(v) = c { v.first().map(|x| x.2) } else { None });
        let gr_from = match gr_cap {
            Some(120) => "own",
            Some(90) => "grp",
            None => "default",
            _ => "?",
        };
        let llgr_from = match llgr_cap {
            Some(7200) => "own",
            Some(3600) => "grp",
            None => "default",
            _ => "?",
        };
        let _ = (from3, sendmax_ok);
        writeln!(
            out,
            "{{\"as\":\"{}\",\"hold\":\"{}\",\"fam\":\"{}\",\"gr\":\"{}\",\"llgr\":\"{}\",\"rs\":{},\"rr\":{},\"capGr\":{},\"capLlgr\":{}}}",
            as_from,
            hold_from,
            fam_from,
            gr_from,
            llgr_from,
            cfg.route_server_client,
            cfg.route_reflector.route_reflector_client,
            gr_cap.is_some(),
            llgr_cap.is_some()
        )
        .unwrap();
    }
}

// ------------------------------------------------------------------------------------------------
// C11 driver glue: behaviours of spec/Deferral/Deferral.tla on the real glue - Global.selection_deferral,
// PeerSession::process_effects (GrSessionEstablished / GrEorReceived), the tail of PeerSession::run (PeerWithdrawn),
// gr_selection_deferral_timer_expired, process_restarting_outputs and the tables' deferral flags - with routes arriving
// meanwhile and a subscriber counting how often each prefix is announced.
//
// Input (.dgl.in): "seq <id> <peer>=<fams|-> ..." then  est <p> <fams|-> | eor <p> <f> | withdrawn <p> | timer | route <f> <x>
// Output: per step {"st","pending","timer","restarting","ann":{f:{x:n}}}
// ------------------------------------------------------------------------------------------------
fn dg_addr(p: &str) -> Ipv4Addr {
    Ipv4Addr::new(127, 0, 3, p.as_bytes()[0] - b'A' + 1)
}

fn dg_prefix(f: Family, x: &str) -> packet::Nlri {
    let n: u8 = x[1..].parse().unwrap();
    if f == Family::IPV6 {
        packet::Nlri::V6(bgp::Ipv6Net { addr: std::net::Ipv6Addr::new(0x2001, 0xdb8, n as u16, 0, 0, 0, 0, 0), mask: 48 })
    } else if f == Family::IPV4_VPN {
        packet::Nlri::VpnV4(packet::vpn::VpnV4Nlri {
            labels: packet::mpls::MplsLabelStack::new(vec![packet::mpls::MplsLabel::new(100)]),
            rd: packet::rd::RouteDistinguisher::TwoOctetAs { admin: 65001, assigned: 1 },
            prefix: bgp::Ipv4Net { addr: Ipv4Addr::new(10, 50, n, 0), mask: 24 },
        })
    } else {
        packet::Nlri::V4(bgp::Ipv4Net { addr: Ipv4Addr::new(10, 40, n, 0), mask: 24 })
    }
}

#[tokio::test]
async fn deferral_glue_replay() {
    let Ok(inp) = std::env::var("VERIF_IN") else {
        return;
    };
    if !inp.ends_with(".dgl.in") {
        return;
    }
    let outp = std::env::var("VERIF_OUT").expect("VERIF_OUT");
    let text = std::fs::read_to_string(&inp).expect("read VERIF_IN");
    let mut out = std::io::BufWriter::new(std::fs::File::create(&outp).expect("create VERIF_OUT"));
    struct W {
        global: GlobalHandle,
        tables: TableHandle,
        peers: Vec<(String, IpAddr)>,
        sub: crate::table_manager::Subscription,
        ann: std::collections::BTreeMap<(String, String), u32>,
        names: std::collections::BTreeMap<String, (String, String)>,
        src: Arc<table::Source>,
    }
    let mut w: Option<W> = None;
    let mut sid = String::new();
    let mut step = 0usize;
    for line in text.lines() {
        let t: Vec<&str> = line.split_whitespace().collect();
        if t.is_empty() {
            continue;
        }
        if t[0] == "seq" {
            sid = t[1].to_string();
            step = 0;
            let global = mk_global();
            let tables: TableHandle = Arc::new(TableManager::new(2));
            let mut peers = Vec::new();
            let mut cfg: FnvHashMap<IpAddr, Vec<Family>> = FnvHashMap::default();
            for kv in &t[2..] {
                let (p, f) = kv.split_once('=').unwrap();
                let addr = IpAddr::V4(dg_addr(p));
                peers.push((p.to_string(), addr));
                cfg.insert(addr, crate::gr::verif_harness::fams(f));
                let mut prm = base_params(addr);
                prm.families.insert(Family::IPV4, 0);
                global.write().await.add_peer(prm, None).unwrap();
            }
            // exactly what start-up does with the configured GR peers (event/mod.rs, serve)
            let (deferral, init_outputs) = crate::gr::RestartingDeferral::new(cfg, Some(Duration::from_secs(36000)));
            if !deferral.is_completed() {
                for o in &init_outputs {
                    if let crate::gr::RestartingOutput::DeferFamilies(families) = o {
                        tables.start_deferral_families(families);
                    }
                }
                global.write().await.selection_deferral = Some(deferral);
            }
            let sub = tables.subscribe(false);
            let src = Arc::new(table::Source::new(
                IpAddr::V4(Ipv4Addr::new(127, 0, 3, 99)),
                IpAddr::V4(Ipv4Addr::new(127, 0, 3, 254)),
                65099,
                65001,
                Ipv4Addr::new(9, 9, 9, 9),
                table::PeerRole::Ebgp,
            ));
            w = Some(W { global, tables, peers, sub, ann: Default::default(), names: Default::default(), src });
            continue;
        }
        step += 1;
        let x = w.as_mut().unwrap();
        let mut note = String::new();
        match t[0] {
            "est" | "eor" => {
                let addr = IpAddr::V4(dg_addr(t[1]));
                let ctx = Arc::clone(&x.global.read().await.peers.get(&addr).unwrap().context);
                let mut sess = PeerSession::new_for_test(addr, ctx, x.tables.clone());
                let eff = if t[0] == "est" {
                    let fams = crate::gr::verif_harness::fams(t[2]);
                    GlobalEffect::GrSessionEstablished {
                        negotiated_gr: if fams.is_empty() { None } else { Some(NegotiatedGr { families: fams, restart_time: Duration::from_secs(120), notification_enabled: false }) },
                    }
                } else {
                    GlobalEffect::GrEorReceived { family: crate::gr::verif_harness::fam(t[2]) }
                };
                let g = x.global.clone();
                sess.process_effects(vec![eff], &g).await;
            }
            "withdrawn" => {
                // a real connection of that peer that ends before anything is exchanged: the tail of PeerSession::run
                let (client, server) = pair_from(dg_addr(t[1])).await;
                match accept_connection(&x.global, &x.tables, server, crate::fsm::Role::Passive).await {
                    Some(s) => {
                        drop(client);
                        let (atx, _arx) = mpsc::unbounded_channel();
                        if tokio::time::timeout(Duration::from_millis(WAIT_MS), s.run(x.global.clone(), atx)).await.is_err() {
                            note.push_str("session did not end;");
                        }
                    }
                    None => note.push_str("accept_connection refused;"),
                }
            }
            "timer" => {
                gr_selection_deferral_timer_expired(x.global.clone(), x.tables.clone()).await;
            }
            "route" => {
                let f = crate::gr::verif_harness::fam(t[1]);
                let net = dg_prefix(f, t[2]);
                x.names.insert(net.to_string(), (t[1].to_string(), t[2].to_string()));
                let nh = if f == Family::IPV6 { bgp::Nexthop::V6("2001:db8::9".parse().unwrap()) } else { bgp::Nexthop::V4(Ipv4Addr::new(127, 0, 3, 99)) };
                // a fresh attribute set each time, so that a repeated announcement is a change
                let attrs = Arc::new(vec![
                    packet::Attribute::new_with_value(packet::Attribute::ORIGIN, 0).unwrap(),
                    packet::Attribute::new_with_bin(packet::Attribute::AS_PATH, vec![2, 1, 0, 0, 0xfe, 0x4b]).unwrap(),
                    packet::Attribute::new_with_value(packet::Attribute::MULTI_EXIT_DESC, step as u32).unwrap(),
                ]);
                x.tables.insert_route(x.src.clone(), f, packet::PathNlri { path_id: 0, nlri: net }, Some(nh), attrs, None, 0);
            }
            o => panic!("harness: op {o}"),
        }
        settle().await;
        // count Loc-RIB announcements per prefix
        while let Ok(ev) = x.sub.rx.try_recv() {
            if let crate::table_manager::BgpEvent::LocRib(c) = ev {
                if c.attr.is_some() {
                    if let Some(k) = x.names.get(&c.net.to_string()) {
                        *x.ann.entry(k.clone()).or_insert(0) += 1;
                    }
                }
            }
        }
        let (proj, timer, restarting) = {
            let g = x.global.read().await;
            let timer = g.selection_deferral_timer.as_ref().is_some_and(|h| !h.is_finished());
            match &g.selection_deferral {
                Some(d) => (crate::gr::verif_harness::proj_deferral_named(d, &x.peers), timer, true),
                None => {
                    let parts: Vec<String> = x.peers.iter().map(|(n, _)| format!("\"{}\":[]", n)).collect();
                    (format!("{{\"st\":\"Completed\",\"pending\":{{{}}}}}", parts.join(",")), timer, false)
                }
            }
        };
        let ann: Vec<String> = x.ann.iter().map(|((f, p), n)| format!("\"{}/{}\":{}", f, p, n)).collect();
        writeln!(
            out,
            "{{\"seq\":\"{}\",\"step\":{},\"machine\":{},\"timer\":{},\"restarting\":{},\"ann\":{{{}}},\"note\":\"{}\"}}",
            sid,
            step,
            proj,
            timer,
            restarting,
            ann.join(","),
            note
        )
        .unwrap();
    }
}

// ------------------------------------------------------------------------------------------------
// C07, driver half (spec/Teardown/Teardown.tla): every way a real connection can end, in every state it can end in.
// One real PeerSession::run per case over a loopback socket (passive: the peer connects; active: the daemon's socket is the
// connecting end), a scripted peer brings it to the state, applies the cause and reads what the daemon writes until it
// closes; then the peer's arbiter slot must be Idle and a new attempt in the same direction must be accepted and be sent
// an OPEN.
//
// Input (VERIF_IN ends ".teardown.in"):  case <state> <cause> <role>
// Output: {"i":n,"slot":"Idle","reconnect":bool,"code":c,"sub":s,"note":".."}   (code 0 = no NOTIFICATION seen)

async fn td_pair(role: crate::fsm::Role) -> (TcpStream, TcpStream) {
    let a = Ipv4Addr::new(127, 0, 0, 1);
    if role == crate::fsm::Role::Passive {
        let (client, server) = pair_from(a).await;
        (server, client)
    } else {
        let listener = tokio::net::TcpListener::bind((a, 0)).await.unwrap();
        let la = listener.local_addr().unwrap();
        let daemon = TcpStream::connect(la).await.unwrap();
        let (remote, _) = listener.accept().await.unwrap();
        (daemon, remote)
    }
}

fn td_open_bytes(asn: u32) -> Vec<u8> {
    let mut buf = bytes::BytesMut::with_capacity(256);
    bgp::PeerCodec::new()
        .encode_to(
            &bgp::Message::Open(bgp::Open {
                as_number: asn,
                holdtime: HoldTime::new(90).unwrap(),
                router_id: u32::from(Ipv4Addr::new(10, 0, 0, 2)),
                capability: vec![packet::Capability::MultiProtocol(Family::IPV4), packet::Capability::FourOctetAsNumber(asn)],
            }),
            &mut buf,
        )
        .unwrap();
    buf.to_vec()
}

#[tokio::test]
async fn teardown_replay() {
    let Ok(inp) = std::env::var("VERIF_IN") else {
        return;
    };
    if !inp.ends_with(".teardown.in") {
        return;
    }
    let outp = std::env::var("VERIF_OUT").expect("VERIF_OUT");
    let text = std::fs::read_to_string(&inp).expect("read VERIF_IN");
    let mut out = std::io::BufWriter::new(std::fs::File::create(&outp).expect("create VERIF_OUT"));
    let addr = IpAddr::V4(Ipv4Addr::new(127, 0, 0, 1));
    let remote_asn = 65010u32;
    for (idx, line) in text.lines().enumerate() {
        let tok: Vec<&str> = line.split_whitespace().collect();
        if tok.is_empty() || tok[0] != "case" {
            continue;
        }
        let (st, cause) = (tok[1], tok[2]);
        let role = if tok[3] == "Active" { crate::fsm::Role::Active } else { crate::fsm::Role::Passive };
        let mut note = String::new();
        let global = mk_global();
        let tables: TableHandle = Arc::new(TableManager::new(1));
        let mut p = base_params(addr);
        p.expected_remote_asn = remote_asn;
        p.local_asn = 65001;
        global.write().await.add_peer(p, None).unwrap();
        let (daemon, client) = td_pair(role).await;
        let Some(sess) = accept_connection(&global, &tables, daemon, role).await else {
            writeln!(out, "{{\"i\":{},\"slot\":\"?\",\"reconnect\":false,\"code\":0,\"sub\":0,\"note\":\"first connection refused\"}}", idx).unwrap();
            continue;
        };
        let (atx, _arx) = mpsc::unbounded_channel();
        let g2 = global.clone();
        let task = tokio::spawn(async move { sess.run(g2, atx).await });
        let mut r = Remote::new(client, remote_asn);
        if !r.read_open().await {
            note.push_str("no OPEN from the daemon;");
        }
        // bring the connection to the state
        if st != "OpenSent" {
            let _ = r.send_raw(&td_open_bytes(remote_asn)).await;
            let mut ka = false;
            for _ in 0..4 {
                match r.recv(WAIT_MS).await {
                    Some(bgp::Message::Keepalive) => {
                        ka = true;
                        break;
                    }
                    Some(_) => {}
                    None => break,
                }
            }
            if !ka {
                note.push_str("no KEEPALIVE after our OPEN;");
            }
            if st == "Established" {
                let _ = r.send(&bgp::Message::Keepalive).await;
                // the daemon's End-of-RIB marks Established
                for _ in 0..4 {
                    match r.recv(WAIT_MS).await {
                        Some(bgp::Message::Update(_)) => break,
                        Some(_) => {}
                        None => {
                            note.push_str("no End-of-RIB after Established;");
                            break;
                        }
                    }
                }
            }
        }
        // the cause
        let mut hdr = vec![0xffu8; 16];
        match cause {
            "eof" => r.close(),
            "notification" => {
                let _ = r.send(&bgp::Message::Notification(bgp::Notification::CeaseAdministrativeReset)).await;
            }
            "open_hold1" | "open_hold2" | "open_id0" | "open_version" => {
                let mut b = td_open_bytes(remote_asn);
                match cause {
                    "open_hold1" => b[22..24].copy_from_slice(&1u16.to_be_bytes()),
                    "open_hold2" => b[22..24].copy_from_slice(&2u16.to_be_bytes()),
                    "open_id0" => b[24..28].copy_from_slice(&[0, 0, 0, 0]),
                    _ => b[19] = 3,
                }
                let _ = r.send_raw(&b).await;
            }
            "open_badas" => {
                let _ = r.send_raw(&td_open_bytes(remote_asn + 1)).await;
            }
            "bad_marker" => {
                hdr[0] = 0;
                hdr.extend_from_slice(&[0, 19, 4]);
                let _ = r.send_raw(&hdr).await;
            }
            "bad_type" => {
                hdr.extend_from_slice(&[0, 19, 9]);
                let _ = r.send_raw(&hdr).await;
            }
            "short_length" => {
                hdr.extend_from_slice(&[0, 18, 4]);
                let _ = r.send_raw(&hdr).await;
            }
            "update" => {
                // the smallest well-formed UPDATE (no withdrawn routes, no attributes, no NLRI): it parses the same
                // whatever has or has not been negotiated yet
                hdr.extend_from_slice(&[0, 23, 2, 0, 0, 0, 0]);
                let _ = r.send_raw(&hdr).await;
            }
            "keepalive" => {
                let _ = r.send(&bgp::Message::Keepalive).await;
            }
            "open" => {
                let _ = r.send_raw(&td_open_bytes(remote_asn)).await;
            }
            "refresh" => {
                let _ = r.send(&bgp::Message::RouteRefresh { family: Family::IPV4 }).await;
            }
            x => panic!("harness: cause {x}"),
        }
        // what the daemon writes until it closes
        let (mut code, mut sub) = (0u8, 0u8);
        if cause != "eof" {
            for _ in 0..8 {
                match r.recv(WAIT_MS).await {
                    Some(bgp::Message::Notification(n)) => {
                        code = n.notification_code();
                        sub = n.notification_subcode();
                    }
                    Some(_) => {}
                    None => break,
                }
            }
            r.close();
        }
        if tokio::time::timeout(Duration::from_millis(WAIT_MS), task).await.is_err() {
            note.push_str("the session task did not end;");
        }
        let slot_of = |g: &GlobalHandle| {
            let g = g.clone();
            async move {
                let g = g.read().await;
                let p = g.peers.get(&addr).unwrap();
                let ctx = p.context.lock().unwrap();
                let arb = ctx.conn_arbiter.lock().unwrap();
                (arb.fsm.state(role), arb.has_connection(role))
            }
        };
        let mut slot = slot_of(&global).await;
        for _ in 0..100 {
            if slot.0 == crate::fsm::State::Idle && !slot.1 {
                break;
            }
            tokio::time::sleep(Duration::from_millis(2)).await;
            slot = slot_of(&global).await;
        }
        // a new attempt in the same direction
        let (daemon2, client2) = td_pair(role).await;
        let mut reconnect = false;
        match accept_connection(&global, &tables, daemon2, role).await {
            None => note.push_str("new attempt refused;"),
            Some(sess2) => {
                let (atx2, _arx2) = mpsc::unbounded_channel();
                let g3 = global.clone();
                let task2 = tokio::spawn(async move { sess2.run(g3, atx2).await });
                let mut r2 = Remote::new(client2, remote_asn);
                reconnect = r2.read_open().await;
                if !reconnect {
                    note.push_str("new attempt got no OPEN;");
                }
                r2.close();
                let _ = tokio::time::timeout(Duration::from_millis(WAIT_MS), task2).await;
            }
        }
        writeln!(
            out,
            "{{\"i\":{},\"slot\":\"{:?}\",\"held\":{},\"reconnect\":{},\"code\":{},\"sub\":{},\"note\":\"{}\"}}",
            idx, slot.0, slot.1, reconnect, code, sub, note
        )
        .unwrap();
    }
    out.flush().unwrap();
}

// ------------------------------------------------------------------------------------------------
// C17, totality through the RPC (spec/ApiValue/ApiRaw.tla): AddPath with one raw attribute (UnknownAttribute) of every type
// code / value shape / flag octet in four request contexts, on the real GrpcService.  Each call runs in its own task so that
// a panic is a result, not the end of the run; after an accepted call the table is listed (ListPath re-encodes every stored
// attribute) and the path deleted again.
//
// Input (VERIF_IN ends ".apiraw.in"):  raw <code> <shape> <flags> <ctx>
// Output: {"i":n,"res":"ok|rejected|panic","list":"ok|err|panic","note":".."}
// ------------------------------------------------------------------------------------------------
fn raw_value(shape: &str) -> Vec<u8> {
    match shape {
        "empty" => vec![],
        "one" => vec![0],
        "three" => vec![0, 1, 1],
        "four" => vec![0, 1, 1, 4],
        "five" => vec![0, 1, 1, 4, 10],
        "mp_nh_short" => vec![0, 1, 1, 4, 10, 0],
        "mp_nh_overrun6" => {
            let mut v = vec![0, 2, 1, 32, 0x20, 0x01, 0x0d, 0xb8];
            v.extend_from_slice(&[0; 6]);
            v
        }
        "mp_ok4" => vec![0, 1, 1, 4, 10, 0, 0, 1, 0, 24, 10, 1, 2],
        "mp_ok6" => {
            let mut v = vec![0, 2, 1, 16, 0x20, 0x01, 0x0d, 0xb8];
            v.extend_from_slice(&[0; 11]);
            v.push(1);
            v.extend_from_slice(&[0, 32, 0x20, 0x01, 0x0d, 0xb8]);
            v
        }
        "mp_nolen" => vec![0, 2, 1],
        "ff16" => vec![0xff; 16],
        "long300" => vec![0xab; 300],
        x => panic!("harness: shape {x}"),
    }
}

#[tokio::test]
async fn api_raw_replay() {
    use api::go_bgp_service_server::GoBgpService;
    let Ok(inp) = std::env::var("VERIF_IN") else {
        return;
    };
    if !inp.ends_with(".apiraw.in") {
        return;
    }
    let outp = std::env::var("VERIF_OUT").expect("VERIF_OUT");
    let text = std::fs::read_to_string(&inp).expect("read VERIF_IN");
    let mut out = std::io::BufWriter::new(std::fs::File::create(&outp).expect("create VERIF_OUT"));
    let mut world = Arc::new(AsWorld::new().await);
    for (idx, line) in text.lines().enumerate() {
        let t: Vec<&str> = line.split_whitespace().collect();
        if t.is_empty() || t[0] != "raw" {
            continue;
        }
        let code: u32 = t[1].parse().unwrap();
        let value = raw_value(t[2]);
        let flags: u32 = match t[3] {
            "canon" => packet::Attribute::new_with_bin(code as u8, vec![]).map(|a| a.flags() as u32).unwrap_or(0xc0),
            x => u32::from_str_radix(x.trim_start_matches("0x"), 16).unwrap(),
        };
        let (pfx, with_nh) = match t[4] {
            "v4" => ("p1", false),
            "v4nh" => ("p1", true),
            "v6" => ("p6", false),
            _ => ("p6", true),
        };
        let (family, _net, afam, anlri) = as_pfx(pfx);
        let mut pattrs = vec![as_wrap(api::attribute::Attr::Unknown(api::UnknownAttribute { flags, r#type: code, value }))];
        if with_nh {
            pattrs.push(as_nh_attr(family));
        }
        let path = api::Path { nlri: Some(anlri), family: Some(afam), identifier: 0, pattrs, ..Default::default() };
        let req = api::AddPathRequest { table_type: api::TableType::Global as i32, vrf_id: String::new(), path: Some(path) };
        let w = world.clone();
        let h = tokio::spawn(async move { w.svc.add_path(tonic::Request::new(req)).await.map(|r| r.into_inner().uuid) });
        let (res, uuid) = match h.await {
            Ok(Ok(u)) => ("ok", Some(u)),
            Ok(Err(_)) => ("rejected", None),
            Err(_) => ("panic", None),
        };
        let mut list = "ok";
        if res == "panic" {
            // locks may be poisoned: a fresh service for the next case
            world = Arc::new(AsWorld::new().await);
            list = "-";
        } else {
            let w = world.clone();
            let h = tokio::spawn(async move { w.project().await });
            if h.await.is_err() {
                list = "panic";
                world = Arc::new(AsWorld::new().await);
            } else if let Some(u) = uuid {
                let req = api::DeletePathRequest { table_type: api::TableType::Global as i32, uuid: u, ..Default::default() };
                if world.svc.delete_path(tonic::Request::new(req)).await.is_err() {
                    list = "err";
                }
            }
        }
        writeln!(out, "{{\"i\":{},\"res\":\"{}\",\"list\":\"{}\"}}", idx, res, list).unwrap();
    }
    out.flush().unwrap();
}

// ------------------------------------------------------------------------------------------------
// C13, "all of a cache's VRPs are removed when its session ends" for the ends an OPERATOR orders: DisableRpki, DeleteRpki and a
// hard ResetRpki on the real GrpcService, with the real RpkiClient::try_connect task talking to a scripted cache over a
// loopback socket.  The order in which the cancelled task's branches are polled is random, so every kind of end is repeated.
//
// Input (VERIF_IN ends ".rtrapi.in"):  <op> <iterations>        op: disable | delete | reset
// Output: {"op":..,"i":n,"installed":bool,"gone":bool,"note":".."}
// ------------------------------------------------------------------------------------------------
#[tokio::test]
async fn rtr_api_replay() {
    use api::go_bgp_service_server::GoBgpService;
    let Ok(inp) = std::env::var("VERIF_IN") else {
        return;
    };
    if !inp.ends_with(".rtrapi.in") {
        return;
    }
    let outp = std::env::var("VERIF_OUT").expect("VERIF_OUT");
    let text = std::fs::read_to_string(&inp).expect("read VERIF_IN");
    let mut out = std::io::BufWriter::new(std::fs::File::create(&outp).expect("create VERIF_OUT"));
    let cache_ip = IpAddr::V4(Ipv4Addr::new(127, 0, 0, 1));
    let pdus = |msgs: &[packet::rpki::Message]| {
        let mut codec = packet::rpki::RtrCodec::new();
        let mut b = bytes::BytesMut::new();
        for m in msgs {
            tokio_util::codec::Encoder::encode(&mut codec, m, &mut b).unwrap();
        }
        b.to_vec()
    };
    for line in text.lines() {
        let t: Vec<&str> = line.split_whitespace().collect();
        if t.len() < 2 {
            continue;
        }
        let iters: usize = t[1].parse().unwrap();
        for i in 0..iters {
            let mut note = String::new();
            let w = AsWorld::new().await;
            let listener = tokio::net::TcpListener::bind("127.0.0.1:0").await.unwrap();
            let port = listener.local_addr().unwrap().port() as u32;
            w.svc.add_rpki(tonic::Request::new(api::AddRpkiRequest { address: "127.0.0.1".into(), port, lifetime: 0 })).await.expect("add_rpki");
            let Ok(Ok((mut sock, _))) = tokio::time::timeout(Duration::from_millis(WAIT_MS), listener.accept()).await else {
                writeln!(out, "{{\"op\":\"{}\",\"i\":{},\"installed\":false,\"gone\":false,\"note\":\"the client did not connect\"}}", t[0], i).unwrap();
                continue;
            };
            let resp = pdus(&[
                packet::rpki::Message::CacheResponse { session_id: 7 },
                packet::rpki::Message::IpPrefix(packet::rpki::Prefix { net: packet::IpNet::new("10.0.0.0".parse().unwrap(), 8), flags: 1, max_length: 24, as_number: 64501 }),
                packet::rpki::Message::EndOfData { session_id: 7, serial_number: 1, refresh_interval: 3600, retry_interval: 600, expire_interval: 7200 },
            ]);
            let _ = sock.write_all(&resp).await;
            let held = |tables: &TableHandle| tables.collect_roa(Family::IPV4).iter().any(|(_, r)| *r.source == cache_ip);
            let tb = w.tables.clone();
            let installed = wait_until(|| held(&tb), WAIT_MS).await;
            let r = match t[0] {
                "disable" => w.svc.disable_rpki(tonic::Request::new(api::DisableRpkiRequest { address: "127.0.0.1".into(), port })).await.map(|_| ()),
                "delete" => w.svc.delete_rpki(tonic::Request::new(api::DeleteRpkiRequest { address: "127.0.0.1".into(), port })).await.map(|_| ()),
                "reset" => w.svc.reset_rpki(tonic::Request::new(api::ResetRpkiRequest { address: "127.0.0.1".into(), port, soft: false })).await.map(|_| ()),
                x => panic!("harness: op {x}"),
            };
            if r.is_err() {
                note.push_str("the RPC failed;");
            }
            // a reset makes the client connect again: the new session gets no data
            let second = if t[0] == "reset" { tokio::time::timeout(Duration::from_millis(300), listener.accept()).await.ok().and_then(|r| r.ok()) } else { None };
            let tb = w.tables.clone();
            let gone = wait_until(|| !held(&tb), 400).await;
            writeln!(out, "{{\"op\":\"{}\",\"i\":{},\"installed\":{},\"gone\":{},\"note\":\"{}\"}}", t[0], i, installed, gone, note).unwrap();
            // leave nothing running
            let _ = w.svc.delete_rpki(tonic::Request::new(api::DeleteRpkiRequest { address: "127.0.0.1".into(), port })).await;
            drop(second);
            drop(sock);
        }
    }
    out.flush().unwrap();
}

// ------------------------------------------------------------------------------------------------
// C15 (session half): behaviours of spec/SessionLimit/SessionLimit.tla on the real PeerSession (accept_connection ->
// PeerSession::new builds the per-family counters; rx_update hands them to the real TableManager).
// Input (VERIF_IN ends ".sl.in"):  "seq <id> <v4max|-> <v6max|->", then one op per line:
//     ann <f> <pfx> <pid> | annall <f> <pid> | wd <f> <pfx> <pid> | oann <f> <pfx> | owd <f> <pfx>
// Output: per op the return value of rx_update, every family's counter (999 = no counter), and a recount of the RIB:
// the (prefix, path id) pairs held from the session's address, the other peer's prefixes, the table's destination total.
// ------------------------------------------------------------------------------------------------
fn sl_family(f: &str) -> Family {
    match f {
        "v4" => Family::IPV4,
        "v6" => Family::IPV6,
        x => panic!("harness: family {x}"),
    }
}

fn sl_net(f: &str, p: &str) -> packet::Nlri {
    let k: u8 = p[1..].parse().unwrap();
    if f == "v4" {
        packet::Nlri::V4(bgp::Ipv4Net { addr: Ipv4Addr::new(10, k, 0, 0), mask: 24 })
    } else {
        packet::Nlri::V6(bgp::Ipv6Net { addr: format!("2001:db8:{k}::").parse().unwrap(), mask: 48 })
    }
}

fn sl_name(n: &packet::Nlri) -> String {
    match n {
        packet::Nlri::V4(x) => format!("x{}", x.addr.octets()[1]),
        packet::Nlri::V6(x) => format!("x{}", x.addr.segments()[2]),
        _ => "?".into(),
    }
}

#[tokio::test]
async fn sesslimit_replay() {
    let Ok(inp) = std::env::var("VERIF_IN") else {
        return;
    };
    if !inp.ends_with(".sl.in") {
        return;
    }
    let outp = std::env::var("VERIF_OUT").expect("VERIF_OUT");
    let text = std::fs::read_to_string(&inp).expect("read VERIF_IN");
    let mut out = std::io::BufWriter::new(std::fs::File::create(&outp).expect("create VERIF_OUT"));
    let src = Ipv4Addr::new(127, 0, 1, 1);
    let other_addr = IpAddr::V4(Ipv4Addr::new(127, 0, 1, 2));
    let mut cur: Option<(String, usize, PeerSession, TableHandle, Arc<table::Source>)> = None;
    for line in text.lines() {
        let t: Vec<&str> = line.split_whitespace().collect();
        if t.is_empty() {
            continue;
        }
        if t[0] == "seq" {
            let global = mk_global();
            let tables: TableHandle = Arc::new(TableManager::new(2));
            {
                let mut g = global.write().await;
                let mut p = base_params(IpAddr::V4(src));
                p.expected_remote_asn = 65002;
                for (i, f) in [(2usize, Family::IPV4), (3usize, Family::IPV6)] {
                    if t[i] != "-" {
                        p.prefix_limits.insert(f, t[i].parse().unwrap());
                    }
                }
                g.add_peer(p, None).unwrap();
            }
            let (_client, server) = pair_from(src).await;
            let mut sess = accept_connection(&global, &tables, server, crate::fsm::Role::Passive).await.expect("accepted");
            for f in [Family::IPV4, Family::IPV6] {
                sess.source.insert(
                    f,
                    Arc::new(table::Source::new(
                        IpAddr::V4(src),
                        sess.export_ctx.local_addr,
                        65002,
                        sess.export_ctx.local_asn,
                        Ipv4Addr::new(2, 0, 0, 2),
                        sess.export_ctx.role,
                    )),
                );
            }
            let other = Arc::new(table::Source::new(
                other_addr,
                sess.export_ctx.local_addr,
                65003,
                sess.export_ctx.local_asn,
                Ipv4Addr::new(3, 0, 0, 3),
                PeerRole::Ebgp,
            ));
            // keep the client end open for the lifetime of the sequence
            std::mem::forget(_client);
            cur = Some((t[1].to_string(), 0, sess, tables, other));
            continue;
        }
        let (sid, step, sess, tables, other) = cur.as_mut().expect("seq first");
        *step += 1;
        let attr = Arc::new(vec![
            packet::Attribute::new_with_value(packet::Attribute::ORIGIN, 0).unwrap(),
            packet::Attribute::new_with_bin(packet::Attribute::AS_PATH, vec![2, 1, 0, 0, 0xfd, 0xea]).unwrap(),
        ]);
        let nh = |f: &str| {
            if f == "v4" {
                Some(bgp::Nexthop::V4(Ipv4Addr::new(192, 0, 2, 1)))
            } else {
                Some(bgp::Nexthop::V6("2001:db8::1".parse().unwrap()))
            }
        };
        let mut over = false;
        match t[0] {
            "ann" | "annall" => {
                let (names, pid): (Vec<String>, u32) = if t[0] == "ann" {
                    (vec![t[2].to_string()], t[3].parse().unwrap())
                } else {
                    ((1..=3).map(|k| format!("x{k}")).collect(), t[2].parse().unwrap())
                };
                let entries = names.iter().map(|p| packet::PathNlri { path_id: pid, nlri: sl_net(t[1], p) }).collect();
                let reach = bgp::ReachNlri { family: sl_family(t[1]), entries, nexthop: nh(t[1]) };
                over = sess.rx_update(Some(reach), None, attr.clone(), 0).await;
            }
            "wd" => {
                let unreach = packet::UnreachNlri {
                    family: sl_family(t[1]),
                    entries: vec![packet::PathNlri { path_id: t[3].parse().unwrap(), nlri: sl_net(t[1], t[2]) }],
                };
                over = sess.rx_update(None, Some(unreach), Arc::new(Vec::new()), 0).await;
            }
            "oann" => {
                let _ = tables.insert_route(other.clone(), sl_family(t[1]), packet::PathNlri::new(sl_net(t[1], t[2])), nh(t[1]), attr.clone(), None, 0);
            }
            "owd" => {
                tables.remove_route(other.clone(), sl_family(t[1]), packet::PathNlri::new(sl_net(t[1], t[2])), None, 0);
            }
            x => panic!("harness: op {x}"),
        }
        let mut cnt = String::new();
        let mut held = String::new();
        let mut oth = String::new();
        let mut dest = String::new();
        for (i, (name, f)) in [("v4", Family::IPV4), ("v6", Family::IPV6)].into_iter().enumerate() {
            let sep = if i > 0 { "," } else { "" };
            let c = sess.prefix_counters.get(&f).map(|(_, c)| c.load(Ordering::Relaxed)).unwrap_or(999);
            write!(cnt, "{sep}\"{name}\":{c}").unwrap();
            let mut h: Vec<String> = Vec::new();
            let mut o: Vec<String> = Vec::new();
            for d in tables.collect_paths(table::TableQuery::Global, f, vec![], true) {
                for p in &d.paths {
                    if p.source.remote_addr == IpAddr::V4(src) {
                        h.push(format!("[\"{}\",{}]", sl_name(&d.net), p.remote_path_id));
                    } else if p.source.remote_addr == other_addr {
                        o.push(format!("\"{}\"", sl_name(&d.net)));
                    }
                }
            }
            h.sort();
            o.sort();
            write!(held, "{sep}\"{name}\":[{}]", h.join(",")).unwrap();
            write!(oth, "{sep}\"{name}\":[{}]", o.join(",")).unwrap();
            write!(dest, "{sep}\"{name}\":{}", tables.table_state(f).num_destination).unwrap();
        }
        writeln!(
            out,
            "{{\"seq\":\"{sid}\",\"step\":{step},\"over\":{over},\"cnt\":{{{cnt}}},\"held\":{{{held}}},\"other\":{{{oth}}},\"dest\":{{{dest}}}}}"
        )
        .unwrap();
    }
    out.flush().unwrap();
}
