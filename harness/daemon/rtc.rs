// Included into daemon/src/rtc.rs as `mod verif_harness` (guard: cfg osrg_rustybgp_verif).
//
// Extra check X-rtc (beyond the listed properties): every transition of spec/Rtc/Rtc.tla replayed on the real RtcState,
// and the RT-filter table on the real RtcFilter::from_paths / allows.
//   VERIF_IN: "new" | "established f,f" | "eor" | "timer" | "dropped" | "helper" | "filter <paths> <rts>"
//             (paths: comma separated <s|f>:<wild|aswild|rt1|rt2>, rts: comma separated rt1|rt2, "-" = none)
//   VERIF_OUT: one JSON object per line of input.
#[allow(unused_imports)]
use super::*;
use std::io::{BufRead, Write as _};
use std::sync::Arc;

fn fam(s: &str) -> Family {
    match s {
        "rtc" => Family::RTC,
        "ipv4" => Family::IPV4,
        "ipv4-vpn" => Family::IPV4_VPN,
        "ipv6-vpn" => Family::IPV6_VPN,
        "l2vpn-evpn" => Family::L2VPN_EVPN,
        x => panic!("harness: family {x}"),
    }
}

fn fam_name(f: Family) -> &'static str {
    match f {
        Family::RTC => "rtc",
        Family::IPV4 => "ipv4",
        Family::IPV4_VPN => "ipv4-vpn",
        Family::IPV6_VPN => "ipv6-vpn",
        Family::L2VPN_EVPN => "l2vpn-evpn",
        _ => "?",
    }
}

fn rt(s: &str) -> [u8; 8] {
    match s {
        "rt1" => [0x00, 0x02, 0xfd, 0xe9, 0, 0, 0, 1],
        _ => [0x00, 0x02, 0xfd, 0xe9, 0, 0, 0, 2],
    }
}

fn names(v: &[Family]) -> String {
    let mut n: Vec<&str> = v.iter().map(|f| fam_name(*f)).collect();
    n.sort();
    n.iter().map(|x| format!("\"{x}\"")).collect::<Vec<_>>().join(",")
}

#[test]
fn rtc_replay() {
    let inp = std::env::var("VERIF_IN").expect("VERIF_IN");
    let outp = std::env::var("VERIF_OUT").expect("VERIF_OUT");
    let mut out = std::io::BufWriter::new(std::fs::File::create(outp).unwrap());
    let mut m = RtcState::new();
    for line in std::io::BufReader::new(std::fs::File::open(inp).unwrap()).lines() {
        let line = line.unwrap();
        let t: Vec<&str> = line.split_whitespace().collect();
        if t.is_empty() {
            continue;
        }
        if t[0] == "new" {
            m = RtcState::new();
            writeln!(out, "{{\"new\":true}}").unwrap();
            continue;
        }
        if t[0] == "filter" {
            let mut paths: Vec<SoftResetPath> = Vec::new();
            for p in t[1].split(',').filter(|x| *x != "-" && !x.is_empty()) {
                let (st, m) = p.split_once(':').unwrap();
                let match_type = match m {
                    "wild" => MatchType::Wildcard,
                    "aswild" => MatchType::AsWildcard { origin_as: 65001 },
                    x => MatchType::ExactMatch { origin_as: 65001, route_target: rt(x) },
                };
                let src = Arc::new(rustybgp_table::Source::new(
                    "192.0.2.1".parse().unwrap(),
                    "192.0.2.254".parse().unwrap(),
                    65001,
                    65000,
                    "192.0.2.1".parse().unwrap(),
                    rustybgp_table::PeerRole::Ebgp,
                ));
                if st == "s" {
                    src.mark_stale();
                }
                paths.push((Family::RTC, Nlri::Rtc(rustybgp_packet::rtc::RtcNlri { match_type }), 0, None, src, Arc::new(vec![]), 0));
            }
            let mut data = Vec::new();
            for r in t[2].split(',').filter(|x| *x != "-" && !x.is_empty()) {
                data.extend_from_slice(&rt(r));
            }
            let mut attrs = vec![Attribute::new_with_value(Attribute::ORIGIN, 0).unwrap()];
            if !data.is_empty() {
                attrs.push(Attribute::new_with_bin(Attribute::EXTENDED_COMMUNITY, data).unwrap());
            }
            let f = RtcFilter::from_paths(&paths);
            writeln!(out, "{{\"allows\":{}}}", f.allows(&attrs)).unwrap();
            continue;
        }
        let input = match t[0] {
            "established" => RtcInput::SessionEstablished {
                negotiated_families: t.get(1).map(|s| s.split(',').filter(|x| !x.is_empty() && *x != "-").map(fam).collect()).unwrap_or_default(),
            },
            "eor" => RtcInput::EorReceived,
            "timer" => RtcInput::TimerExpired,
            "dropped" => RtcInput::SessionDropped,
            "helper" => RtcInput::GrHelperStarted,
            x => panic!("harness: op {x}"),
        };
        let outs = m.process(input);
        let mut tags = Vec::new();
        let mut arg = String::new();
        for o in &outs {
            match o {
                RtcOutput::StartTimer(d) => tags.push(if *d == EOR_TIMER { "\"StartTimer\"".to_string() } else { "\"StartTimer?\"".to_string() }),
                RtcOutput::StopTimer => tags.push("\"StopTimer\"".into()),
                RtcOutput::ExportFamilies(f) => {
                    tags.push("\"Export\"".into());
                    arg = names(f);
                }
            }
        }
        let (st, susp) = match &m.state {
            Inner::Inactive => ("Inactive", String::new()),
            Inner::AwaitingEor { suspended } => ("AwaitingEor", names(suspended)),
            Inner::Active => ("Active", String::new()),
        };
        let agree = (m.is_awaiting_eor() == (st == "AwaitingEor")) && (m.is_active() == (st == "Active"));
        writeln!(out, "{{\"st\":\"{}\",\"suspended\":[{}],\"out\":[{}],\"arg\":[{}],\"queries_agree\":{}}}", st, susp, tags.join(","), arg, agree).unwrap();
    }
}
