// Included into daemon/src/peer_tx.rs as `mod verif_harness` (guard: cfg osrg_rustybgp_verif).
#[allow(unused_imports)]
use super::*;
