// Included into daemon/src/table_manager.rs as `mod verif_harness` (guard: cfg osrg_rustybgp_verif).
//
// C18: a deterministic thread scheduler (`sched_point` is called by the cfg-guarded hooks right before every shard-lock
// acquisition of insert_route / remove_route / unregister_peer / subscribe and at the start of peer_down) and the replay
// of spec/Subscribe/Subscribe.tla behaviours on the real TableManager with real OS threads: every model step is
// "thread T runs from the point where it is parked to its next point".
//
// Input (VERIF_IN ends ".sub.in"):
//   walk <prog: A|B|C> <ends: comma list of sessions or ->
//   <thread> <step>          one line per model step (thread: t1|t2|u1|u2; step: informational)
// Output: per walk {"walk":..}, per step {"at": point reached, "pre": {...}, "post": {...}}, and at the end of the walk
//   {"final": true, "subs": {u: {"pre":{..},"post":{..},"events":n}}, "rib": {...}}
#[allow(unused_imports)]
use super::*;
use std::collections::HashMap;
use std::net::Ipv4Addr;
use std::io::Write as _;
use std::sync::{Condvar, Mutex as StdMutex};

struct Sched {
    parked: HashMap<usize, String>,
    go: std::collections::HashSet<usize>,
    done: std::collections::HashSet<usize>,
}

static SCHED: StdMutex<Option<Sched>> = StdMutex::new(None);
static CV: Condvar = Condvar::new();

thread_local! {
    static TID: std::cell::Cell<usize> = const { std::cell::Cell::new(0) };
}

/// Called from the hooks.  A thread that is not managed by the scheduler passes straight through.
pub(crate) fn sched_point(name: &str) {
    let tid = TID.with(|t| t.get());
    if tid == 0 {
        return;
    }
    let mut g = SCHED.lock().unwrap();
    if g.is_none() {
        return;
    }
    g.as_mut().unwrap().parked.insert(tid, name.to_string());
    CV.notify_all();
    loop {
        match g.as_mut() {
            None => return, // scheduling was switched off: run freely to the end
            Some(s) => {
                if s.go.remove(&tid) {
                    s.parked.remove(&tid);
                    return;
                }
            }
        }
        g = CV.wait(g).unwrap();
    }
}

fn spawn_managed<F: FnOnce() + Send + 'static>(tid: usize, f: F) -> std::thread::JoinHandle<()> {
    std::thread::spawn(move || {
        TID.with(|t| t.set(tid));
        sched_point("start");
        f();
        let mut g = SCHED.lock().unwrap();
        if let Some(s) = g.as_mut() {
            s.done.insert(tid);
        }
        CV.notify_all();
    })
}

/// Wait until `tid` is parked (returns the point) or finished ("done"); None on timeout.
fn wait_parked(tid: usize) -> Option<String> {
    let mut g = SCHED.lock().unwrap();
    let deadline = std::time::Instant::now() + std::time::Duration::from_secs(5);
    loop {
        {
            let Some(s) = g.as_ref() else { return None };
            if let Some(p) = s.parked.get(&tid)
                && !s.go.contains(&tid)
            {
                return Some(p.clone());
            }
            if s.done.contains(&tid) {
                return Some("done".to_string());
            }
        }
        let now = std::time::Instant::now();
        if now >= deadline {
            return None;
        }
        g = CV.wait_timeout(g, deadline - now).unwrap().0;
    }
}

/// One model step: let `tid` run to its next point.
fn advance(tid: usize) -> Option<String> {
    wait_parked(tid)?;
    {
        let mut g = SCHED.lock().unwrap();
        let Some(s) = g.as_mut() else { return None };
        if s.done.contains(&tid) {
            return Some("done".to_string());
        }
        s.go.insert(tid);
        CV.notify_all();
    }
    wait_parked(tid)
}

fn sub_key_nlri(tm: &TableManager, k: &str) -> packet::Nlri {
    // k1, k3 on shard 0; k2 on shard 1 (the model's shards 1 and 2)
    let want = if k == "k2" { 1 } else { 0 };
    let third = match k {
        "k1" => 1u8,
        "k2" => 2,
        _ => 3,
    };
    for x in 0..=255u8 {
        let n = packet::Nlri::V4(packet::bgp::Ipv4Net { addr: Ipv4Addr::new(10, third, x, 0), mask: 24 });
        if tm.dealer(&n) == want {
            return n;
        }
    }
    panic!("harness: no prefix for shard");
}

fn sub_key_of(n: &packet::Nlri) -> &'static str {
    match n {
        packet::Nlri::V4(x) => match x.addr.octets()[1] {
            1 => "k1",
            2 => "k2",
            _ => "k3",
        },
        _ => "?",
    }
}

const REJ_COMM: u32 = (65000 << 16) | 666;

fn sub_attrs(val: u32) -> Arc<Vec<packet::Attribute>> {
    let mut v = vec![
        packet::Attribute::new_with_value(packet::Attribute::ORIGIN, 0).unwrap(),
        packet::Attribute::new_with_bin(packet::Attribute::AS_PATH, vec![2, 1, 0, 0, 0xfd, 0xe9]).unwrap(),
    ];
    if val == 2 {
        v.push(packet::Attribute::new_with_bin(packet::Attribute::COMMUNITY, REJ_COMM.to_be_bytes().to_vec()).unwrap());
    }
    Arc::new(v)
}

fn sub_val(attrs: Option<&Arc<Vec<packet::Attribute>>>) -> u32 {
    match attrs {
        None => 0,
        Some(a) => {
            if a.iter().any(|x| x.code() == packet::Attribute::COMMUNITY) {
                2
            } else {
                1
            }
        }
    }
}

fn sub_rib_json(tm: &TableManager) -> String {
    let mut pre: HashMap<&str, u32> = HashMap::new();
    let mut post: HashMap<&str, u32> = HashMap::new();
    for shard in &tm.shards {
        let t = shard.lock().unwrap();
        for r in t.rtable.iter_reach(Family::IPV4) {
            pre.insert(sub_key_of(&r.net.nlri), sub_val(Some(&r.attr)));
        }
        for r in t.rtable.iter_reach_post(Family::IPV4) {
            post.insert(sub_key_of(&r.net.nlri), sub_val(Some(&r.attr)));
        }
    }
    sub_views_json(&pre, &post)
}

fn sub_views_json(pre: &HashMap<&str, u32>, post: &HashMap<&str, u32>) -> String {
    let f = |m: &HashMap<&str, u32>| {
        format!(
            "{{\"k1\":{},\"k2\":{},\"k3\":{}}}",
            m.get("k1").copied().unwrap_or(0),
            m.get("k2").copied().unwrap_or(0),
            m.get("k3").copied().unwrap_or(0)
        )
    };
    format!("{{\"pre\":{},\"post\":{}}}", f(pre), f(post))
}

fn sub_prog(name: &str, t: &str) -> Vec<(&'static str, u32)> {
    match (name, t) {
        ("A", "t1") => vec![("k1", 1), ("k2", 2), ("k1", 0)],
        ("A", "t2") => vec![("k3", 1), ("k3", 2)],
        ("B", "t1") => vec![("k2", 1), ("k1", 1), ("k2", 2)],
        ("B", "t2") => vec![("k3", 2), ("k3", 1), ("k3", 0)],
        ("C", "t1") => vec![("k1", 1)],
        ("C", "t2") => vec![("k3", 1)],
        _ => panic!("harness: program"),
    }
}

#[test]
fn subscribe_replay() {
    let Ok(inp) = std::env::var("VERIF_IN") else {
        return;
    };
    if !inp.ends_with(".sub.in") {
        return;
    }
    let outp = std::env::var("VERIF_OUT").expect("VERIF_OUT");
    let text = std::fs::read_to_string(&inp).expect("read VERIF_IN");
    let mut out = std::io::BufWriter::new(std::fs::File::create(&outp).expect("create VERIF_OUT"));
    let lines: Vec<&str> = text.lines().collect();
    let mut i = 0;
    while i < lines.len() {
        let head: Vec<&str> = lines[i].split_whitespace().collect();
        if head.is_empty() || head[0] != "walk" {
            i += 1;
            continue;
        }
        let mut j = i + 1;
        while j < lines.len() && !lines[j].starts_with("walk") {
            j += 1;
        }
        let steps: Vec<Vec<&str>> = lines[i + 1..j].iter().map(|l| l.split_whitespace().collect::<Vec<&str>>()).filter(|t| !t.is_empty()).collect();
        i = j;
        let prog = head[1].to_string();
        let ends: Vec<String> = if head[2] == "-" { vec![] } else { head[2].split(',').map(|s| s.to_string()).collect() };
        writeln!(out, "{{\"walk\":true}}").unwrap();

        // fresh world: two shards, an import policy that rejects the marked community
        let tm: Arc<TableManager> = Arc::new(TableManager::new(2));
        {
            let mut pt = table::PolicyTable::new();
            pt.add_defined_set(table::DefinedSetConfig::Community { name: "rej".into(), patterns: vec!["65000:666".into()] }).unwrap();
            pt.add_statement("s", vec![table::ConditionConfig::CommunitySet("rej".into(), table::MatchOption::Any)], Some(table::Disposition::Reject), table::Actions::default()).unwrap();
            pt.add_policy("p", vec!["s".into()]).unwrap();
            let (_, a) = pt.add_assignment("global", table::PolicyDirection::Import, table::Disposition::Accept, vec!["p".into()]).unwrap();
            tm.import_policy.store(Some(a));
        }
        let variant: u32 = head.get(3).and_then(|x| x.parse().ok()).unwrap_or(0);
        if variant & 1 != 0 {
            // peer p1's next hop is unreachable for the whole behaviour
            tm.update_nexthop_validity(IpAddr::V4(Ipv4Addr::new(192, 0, 2, 1)), false);
        }
        if variant & 2 != 0 {
            // the speaker is restarting: route selection for the family is deferred for the whole behaviour (the
            // Adj-RIB-In is what it is all the same)
            tm.start_deferral_families(&[Family::IPV4]);
        }
        *SCHED.lock().unwrap() = Some(Sched { parked: HashMap::new(), go: Default::default(), done: Default::default() });
        let tids: HashMap<&str, usize> = [("t1", 1usize), ("t2", 2), ("u1", 3), ("u2", 4)].into_iter().collect();
        let mut handles = Vec::new();
        let (sub_tx, sub_rx) = std::sync::mpsc::channel::<(String, Subscription)>();
        for (t, peer_last) in [("t1", 1u8), ("t2", 2u8)] {
            let tm2 = tm.clone();
            let prog2 = prog.clone();
            let ends2 = ends.iter().any(|e| e == t);
            let tname = t.to_string();
            handles.push(spawn_managed(tids[t], move || {
                let addr = IpAddr::V4(Ipv4Addr::new(192, 0, 2, peer_last));
                let source = Arc::new(table::Source::new(addr, IpAddr::V4(Ipv4Addr::new(192, 0, 2, 254)), 65000 + peer_last as u32, 65000, Ipv4Addr::new(9, 9, 9, peer_last), table::PeerRole::Ebgp));
                for (k, v) in sub_prog(&prog2, &tname) {
                    let net = packet::PathNlri { path_id: 0, nlri: sub_key_nlri(&tm2, k) };
                    if v == 0 {
                        tm2.remove_route(source.clone(), Family::IPV4, net, None, 0);
                    } else {
                        // peer p2's routes carry no next hop (as Flowspec routes do)
                        let nh = if peer_last == 2 { None } else { Some(bgp::Nexthop::V4(Ipv4Addr::new(192, 0, 2, peer_last))) };
                        tm2.insert_route(source.clone(), Family::IPV4, net, nh, sub_attrs(v), None, 0);
                    }
                    sched_point("between calls");
                }
                if ends2 {
                    tm2.unregister_peer(addr, &[Family::IPV4], &[]);
                    tm2.peer_down(PeerDownData { peer_addr: addr, peer_asn: 65000 + peer_last as u32, peer_id: 0, uptime: 0, reason: crate::bmp::session_down_to_bmp(None) });
                }
            }));
        }
        // variant bit 4: the observers are NEIGHBOURS whose session comes up (register_peer: per shard, under the shard's lock,
        // the initial dump is taken and the event channel registered) instead of monitoring subscribers
        let as_peers = variant & 4 != 0;
        let (peer_tx, peer_rx) = std::sync::mpsc::channel::<(String, HashMap<&'static str, u32>, mpsc::UnboundedReceiver<ToPeerEvent>)>();
        for u in ["u1", "u2"] {
            let tm2 = tm.clone();
            let tx = sub_tx.clone();
            let ptx = peer_tx.clone();
            let uname = u.to_string();
            handles.push(spawn_managed(tids[u], move || {
                if as_peers {
                    let addr = IpAddr::V4(Ipv4Addr::new(192, 0, 2, if uname == "u1" { 101 } else { 102 }));
                    let mut dump: HashMap<&'static str, u32> = HashMap::new();
                    let rx = tm2.register_peer(addr, FnvHashSet::default(), |t| {
                        for c in t.collect_loc_rib_paths(&Family::IPV4) {
                            if let Some(b) = c.current_paths.first() {
                                dump.insert(sub_key_of(&c.net), sub_val(Some(&b.attr)));
                            }
                        }
                    });
                    let _ = ptx.send((uname, dump, rx));
                } else {
                    let s = tm2.subscribe(true);
                    let _ = tx.send((uname, s));
                }
            }));
        }
        let mut ok = true;
        for st in &steps {
            let tid = tids[st[0]];
            let at = if ok { advance(tid) } else { None };
            match at {
                Some(p) => writeln!(out, "{{\"at\":\"{}\",\"rib\":{}}}", p, sub_rib_json(&tm)).unwrap(),
                None => {
                    ok = false;
                    writeln!(out, "{{\"at\":\"stuck\",\"rib\":{}}}", "{\"pre\":{\"k1\":0,\"k2\":0,\"k3\":0},\"post\":{\"k1\":0,\"k2\":0,\"k3\":0}}").unwrap()
                }
            }
        }
        // which subscribers took part in this walk
        let used: Vec<&str> = ["u1", "u2"].into_iter().filter(|u| steps.iter().any(|s| s[0] == *u)).collect();
        // let everything that is still parked run to the end (unused threads included), then stop scheduling
        {
            let mut g = SCHED.lock().unwrap();
            *g = None;
            CV.notify_all();
        }
        // parked threads wait on `go`: wake them by making the scheduler inactive
        for h in handles {
            let _ = h.join();
        }
        let mut subs_json = Vec::new();
        let mut got: HashMap<String, Subscription> = HashMap::new();
        while let Ok((u, s)) = sub_rx.try_recv() {
            got.insert(u, s);
        }
        for u in used {
            let Some(mut s) = got.remove(u) else { continue };
            let mut pre: HashMap<&str, u32> = HashMap::new();
            let mut post: HashMap<&str, u32> = HashMap::new();
            // the same events as the daemon's own subscriber folds them: the snapshot phase through the BMP client's
            // apply_snapshot, what follows EndOfSnapshot event by event (as the station does)
            let mut bfold = crate::bmp::verif_harness::SnapFold::new();
            let mut in_snapshot = true;
            let mut down_in_snapshot: Vec<IpAddr> = Vec::new();
            let mut bpre: HashMap<&str, u32> = HashMap::new();
            let mut bpost: HashMap<&str, u32> = HashMap::new();
            let mut n = 0;
            let mut ups_downs = Vec::new();
            while let Ok(ev) = s.rx.try_recv() {
                n += 1;
                match ev {
                    BgpEvent::EndOfSnapshot => {
                        in_snapshot = false;
                        // the client flushes the peers that are established now: not those whose session ended meanwhile
                        for (is_post, m) in [(false, &mut bpre), (true, &mut bpost)] {
                            for (peer, nlri, attrs) in bfold.contents(is_post) {
                                if !down_in_snapshot.contains(&peer) {
                                    m.insert(sub_key_of(&nlri), sub_val(Some(&attrs)));
                                }
                            }
                        }
                    }
                    BgpEvent::AdjRibIn(c) => {
                        for x in &c.nlris {
                            pre.insert(sub_key_of(&x.nlri), sub_val(c.attrs.as_ref()));
                            if !in_snapshot {
                                bpre.insert(sub_key_of(&x.nlri), sub_val(c.attrs.as_ref()));
                            }
                        }
                        if in_snapshot {
                            bfold.apply(false, c);
                        }
                    }
                    BgpEvent::AdjRibInPost(c) => {
                        for x in &c.nlris {
                            post.insert(sub_key_of(&x.nlri), sub_val(c.attrs.as_ref()));
                            if !in_snapshot {
                                bpost.insert(sub_key_of(&x.nlri), sub_val(c.attrs.as_ref()));
                            }
                        }
                        if in_snapshot {
                            bfold.apply(true, c);
                        }
                    }
                    BgpEvent::PeerDown(d) => {
                        let keys: &[&str] = if d.peer_addr == IpAddr::V4(Ipv4Addr::new(192, 0, 2, 1)) { &["k1", "k2"] } else { &["k3"] };
                        if in_snapshot {
                            down_in_snapshot.push(d.peer_addr);
                        }
                        for k in keys {
                            pre.remove(k);
                            post.remove(k);
                            bpre.remove(k);
                            bpost.remove(k);
                        }
                        ups_downs.push(format!("\"down:{}\"", d.peer_addr));
                    }
                    _ => {}
                }
            }
            subs_json.push(format!(
                "\"{}\":{{\"view\":{},\"bmpview\":{},\"eos\":{},\"events\":{}}}",
                u,
                sub_views_json(&pre, &post),
                sub_views_json(&bpre, &bpost),
                !in_snapshot,
                n
            ));
        }
        // neighbours: the initial dump folded with what the channel delivered afterwards, against what a session coming up NOW
        // would be given
        let mut peers_json = Vec::new();
        while let Ok((u, dump, mut rx)) = peer_rx.try_recv() {
            let mut view = dump;
            while let Ok(ev) = rx.try_recv() {
                if let ToPeerEvent::NlriChange(c) = ev {
                    if c.best_changed {
                        match c.current_paths.first() {
                            Some(b) => {
                                view.insert(sub_key_of(&c.net), sub_val(Some(&b.attr)));
                            }
                            None => {
                                view.remove(sub_key_of(&c.net));
                            }
                        }
                    }
                }
            }
            let mut fresh: HashMap<&str, u32> = HashMap::new();
            for shard in &tm.shards {
                let t = shard.lock().unwrap();
                for c in t.rtable.collect_loc_rib_paths(&Family::IPV4) {
                    if let Some(b) = c.current_paths.first() {
                        fresh.insert(sub_key_of(&c.net), sub_val(Some(&b.attr)));
                    }
                }
            }
            let f = |m: &HashMap<&str, u32>| format!("{{\"k1\":{},\"k2\":{},\"k3\":{}}}", m.get("k1").copied().unwrap_or(0), m.get("k2").copied().unwrap_or(0), m.get("k3").copied().unwrap_or(0));
            peers_json.push(format!("\"{}\":{{\"view\":{},\"fresh\":{}}}", u, f(&view), f(&fresh)));
        }
        writeln!(out, "{{\"final\":true,\"completed\":{},\"subs\":{{{}}},\"peers\":{{{}}},\"rib\":{}}}", ok, subs_json.join(","), peers_json.join(","), sub_rib_json(&tm)).unwrap();
    }
    out.flush().unwrap();
}

// ------------------------------------------------------------------------------------------------
// C20: behaviours of spec/Rib/Rib.tla replayed through the real TableManager with a readable kernel handle; after every
// operation the request stream is drained and folded: fib[prefix] = next hops of the last Apply (empty = withdrawn),
// reg[nexthop] = registrations - unregistrations.
//
// Input (VERIF_IN ends ".fib.in"):
//   sess <name> <addr> <ebgp 0|1> <rtr>          prefix <name> <cidr>          nh <name> <addr>
//   cls <name> <lp> <origin> <clen> <oid> <aspath: t:a,b;t:a> <comm: a,b | ->
//   init
//   insert <sess> <p> <rid> <cls> <nh> <filt 0|1> | remove <sess> <p> <rid> | drop|markstale|dropstale|markllgr|dropllgr <sess...>
//   nhflip <nh> <up 0|1>
//   vrf <name> <table id> <rd> <imported rt numbers: a,b>      (configured at every init, before any route exists)
//   a prefix written vpn:<asn>:<n>:<cidr> is a VPNv4 / VPNv6 prefix; a class line may end with the route-target numbers it carries
// Output: per op {"fib":{p:[nh..]},"vfib":{vrf:{p:[nh..]}},"reg":{nh:n},"neg":bool}; vfib = the VRF table's entry for the VPN prefix's
// inner prefix

const FIB_REJ: u32 = (65000 << 16) | 777;

fn fib_rt(n: u32) -> [u8; 8] {
    let mut b = [0u8, 2, 0xfd, 0xe8, 0, 0, 0, 0];
    b[4..8].copy_from_slice(&n.to_be_bytes());
    b
}

fn fib_nlri(s: &str) -> packet::Nlri {
    let Some(rest) = s.strip_prefix("vpn:") else {
        return s.parse().unwrap();
    };
    let mut it = rest.splitn(3, ':');
    let rd: packet::rd::RouteDistinguisher = format!("{}:{}", it.next().unwrap(), it.next().unwrap()).parse().unwrap();
    let labels = packet::mpls::MplsLabelStack::new(vec![packet::mpls::MplsLabel::new(100)]);
    match it.next().unwrap().parse::<packet::IpNet>().unwrap() {
        packet::IpNet::V4(prefix) => packet::Nlri::VpnV4(packet::vpn::VpnV4Nlri { labels, rd, prefix }),
        packet::IpNet::V6(prefix) => packet::Nlri::VpnV6(packet::vpn::VpnV6Nlri { labels, rd, prefix }),
    }
}

fn fib_family(n: &packet::Nlri) -> Family {
    match n {
        packet::Nlri::V4(_) => Family::IPV4,
        packet::Nlri::V6(_) => Family::IPV6,
        packet::Nlri::VpnV4(_) => Family::IPV4_VPN,
        packet::Nlri::VpnV6(_) => Family::IPV6_VPN,
        _ => panic!("harness: family of {n}"),
    }
}

fn fib_attrs(t: &[&str], filt: bool) -> Arc<Vec<packet::Attribute>> {
    let (lp, origin, clen, oid): (u32, u32, u32, u32) = (t[2].parse().unwrap(), t[3].parse().unwrap(), t[4].parse().unwrap(), t[5].parse().unwrap());
    let mut v = vec![packet::Attribute::new_with_value(packet::Attribute::ORIGIN, origin).unwrap()];
    let mut bin = Vec::new();
    for seg in t[6].split(';') {
        let (ty, asns) = seg.split_once(':').unwrap();
        let asns: Vec<u32> = asns.split(',').filter(|x| !x.is_empty()).map(|x| x.parse().unwrap()).collect();
        bin.push(ty.parse::<u8>().unwrap());
        bin.push(asns.len() as u8);
        for a in asns {
            bin.extend_from_slice(&a.to_be_bytes());
        }
    }
    v.push(packet::Attribute::new_with_bin(packet::Attribute::AS_PATH, bin).unwrap());
    v.push(packet::Attribute::new_with_value(packet::Attribute::LOCAL_PREF, lp).unwrap());
    let mut comm: Vec<u32> = if t[7] == "-" { vec![] } else { t[7].split(',').map(|x| x.parse().unwrap()).collect() };
    if filt {
        comm.push(FIB_REJ);
    }
    if !comm.is_empty() {
        let mut b = Vec::new();
        for c in comm {
            b.extend_from_slice(&c.to_be_bytes());
        }
        v.push(packet::Attribute::new_with_bin(packet::Attribute::COMMUNITY, b).unwrap());
    }
    if oid != 0 {
        v.push(packet::Attribute::new_with_value(packet::Attribute::ORIGINATOR_ID, oid).unwrap());
    }
    if clen > 0 {
        let mut b = Vec::new();
        for i in 0..clen {
            b.extend_from_slice(&(0x0a0a0a00u32 + i).to_be_bytes());
        }
        v.push(packet::Attribute::new_with_bin(packet::Attribute::CLUSTER_LIST, b).unwrap());
    }
    if let Some(rts) = t.get(8).filter(|x| **x != "-") {
        let mut b = Vec::new();
        // a non-target extended community first (site of origin), then the route targets
        b.extend_from_slice(&[0u8, 3, 0xfd, 0xe8, 0, 0, 0, 1]);
        for r in rts.split(',') {
            b.extend_from_slice(&fib_rt(r.parse().unwrap()));
        }
        v.push(packet::Attribute::new_with_bin(packet::Attribute::EXTENDED_COMMUNITY, b).unwrap());
    }
    Arc::new(v)
}

#[test]
fn fib_replay() {
    let Ok(inp) = std::env::var("VERIF_IN") else {
        return;
    };
    if !inp.ends_with(".fib.in") {
        return;
    }
    let outp = std::env::var("VERIF_OUT").expect("VERIF_OUT");
    let text = std::fs::read_to_string(&inp).expect("read VERIF_IN");
    let mut out = std::io::BufWriter::new(std::fs::File::create(&outp).expect("create VERIF_OUT"));
    let mut sess_cfg: Vec<(String, IpAddr, bool, u32, String)> = Vec::new();
    let mut prefixes: Vec<(String, packet::Nlri)> = Vec::new();
    let mut nhs: Vec<(String, IpAddr)> = Vec::new();
    let mut classes: HashMap<(String, bool), Arc<Vec<packet::Attribute>>> = HashMap::new();
    let mut tm: Arc<TableManager> = Arc::new(TableManager::new(2));
    let mut rx: Option<kernel::verif::VerifReceiver> = None;
    let mut sources: HashMap<String, Arc<table::Source>> = HashMap::new();
    let mut fib: HashMap<String, Vec<String>> = HashMap::new();
    let mut vfib: HashMap<(u32, String), Vec<String>> = HashMap::new();
    let mut vrfs: Vec<(String, u32, String, Vec<u32>)> = Vec::new();
    let mut reg: HashMap<String, i64> = HashMap::new();
    let mut observers: Vec<(String, mpsc::UnboundedReceiver<ToPeerEvent>, bool)> = Vec::new();
    // C18, sequential half: monitoring subscribers (one from the start, others wherever the behaviour says `subscribe`) fold
    // the Adj-RIB-In events into (peer, prefix, path id) -> (class, next hop), before and after import policy
    type AdjView = std::collections::BTreeMap<(String, String, u32), (String, String)>;
    let mut monitors: Vec<(String, Subscription, AdjView, AdjView, bool)> = Vec::new();
    for line in text.lines() {
        let t: Vec<&str> = line.split_whitespace().collect();
        if t.is_empty() {
            continue;
        }
        let peer_addr = |name: &str| sess_cfg.iter().find(|s| s.0 == name).unwrap().1;
        match t[0] {
            "sess" => {
                sess_cfg.push((t[1].to_string(), t[2].parse().unwrap(), t[3] == "1", t[4].parse().unwrap(), t.get(5).unwrap_or(&"").to_string()));
                continue;
            }
            "prefix" => {
                prefixes.push((t[1].to_string(), fib_nlri(t[2])));
                continue;
            }
            "nh" => {
                nhs.push((t[1].to_string(), t[2].parse().unwrap()));
                continue;
            }
            "vrf" => {
                vrfs.push((t[1].to_string(), t[2].parse().unwrap(), t[3].to_string(), t[4].split(',').map(|x| x.parse().unwrap()).collect()));
                continue;
            }
            "cls" => {
                classes.insert((t[1].to_string(), false), fib_attrs(&t, false));
                classes.insert((t[1].to_string(), true), fib_attrs(&t, true));
                continue;
            }
            "init" => {
                tm = Arc::new(TableManager::new(2));
                let mut pt = table::PolicyTable::new();
                pt.add_defined_set(table::DefinedSetConfig::Community { name: "rej".into(), patterns: vec!["65000:777".into()] }).unwrap();
                pt.add_statement("s", vec![table::ConditionConfig::CommunitySet("rej".into(), table::MatchOption::Any)], Some(table::Disposition::Reject), table::Actions::default()).unwrap();
                pt.add_policy("p", vec!["s".into()]).unwrap();
                let (_, a) = pt.add_assignment("global", table::PolicyDirection::Import, table::Disposition::Accept, vec!["p".into()]).unwrap();
                tm.import_policy.store(Some(a));
                let (h, r) = kernel::verif::handle();
                tm.kernel_handle.store(Some(Arc::new(h)));
                rx = Some(r);
                for (name, id, rd, imp) in &vrfs {
                    tm.add_vrf(name.clone(), rd.parse().unwrap(), imp.iter().map(|n| fib_rt(*n)).collect(), vec![], *id).unwrap();
                }
                // C06 at the level of the TableManager: registered neighbours receive the change stream the shards fan out.
                // Two addresses that are nobody's session and every source peer's own address (a neighbour is both).
                observers.clear();
                let mut oaddrs: Vec<IpAddr> = vec![IpAddr::V4(Ipv4Addr::new(10, 0, 9, 1)), IpAddr::V4(Ipv4Addr::new(10, 0, 9, 2))];
                for (_, addr, _, _, _) in &sess_cfg {
                    if !oaddrs.contains(addr) {
                        oaddrs.push(*addr);
                    }
                }
                for a in oaddrs {
                    let rx = tm.register_peer(a, FnvHashSet::default(), |_| {});
                    observers.push((a.to_string(), rx, false));
                }
                monitors.clear();
                monitors.push(("m0".to_string(), tm.subscribe(true), AdjView::new(), AdjView::new(), false));
                sources.clear();
                for (name, addr, ebgp, rtr, role) in &sess_cfg {
                    let (role, rasn) = match role.as_str() {
                        "RsClient" => (table::PeerRole::RsClient, 65003),
                        "IbgpRrClient" => (table::PeerRole::IbgpRrClient, 65000),
                        "ConfedEbgp" => (table::PeerRole::ConfedEbgp, 65002),
                        _ if *ebgp => (table::PeerRole::Ebgp, 65001),
                        _ => (table::PeerRole::Ibgp, 65000),
                    };
                    sources.insert(name.clone(), Arc::new(table::Source::new(*addr, IpAddr::V4(Ipv4Addr::new(10, 0, 0, 254)), rasn, 65000, Ipv4Addr::from(*rtr), role)));
                }
                fib.clear();
                vfib.clear();
                reg.clear();
                writeln!(out, "{{\"init\":true}}").unwrap();
                continue;
            }
            _ => {}
        }
        let mut fams: Vec<Family> = Vec::new();
        for p in &prefixes {
            if !fams.contains(&fib_family(&p.1)) {
                fams.push(fib_family(&p.1));
            }
        }
        let fams = &fams[..];
        match t[0] {
            "insert" => {
                let src = sources[t[1]].clone();
                let net = packet::PathNlri { path_id: t[3].parse().unwrap(), nlri: prefixes.iter().find(|p| p.0 == t[2]).unwrap().1.clone() };
                let fam = fib_family(&net.nlri);
                let nh = nhs.iter().find(|n| n.0 == t[5]).unwrap().1;
                let nh = match nh {
                    IpAddr::V4(a) => bgp::Nexthop::V4(a),
                    IpAddr::V6(a) => bgp::Nexthop::V6(a),
                };
                let attr = classes[&(t[4].to_string(), t[6] == "1")].clone();
                tm.insert_route(src, fam, net, Some(nh), attr, None, 0);
            }
            "remove" => {
                let src = sources[t[1]].clone();
                let net = packet::PathNlri { path_id: t[3].parse().unwrap(), nlri: prefixes.iter().find(|p| p.0 == t[2]).unwrap().1.clone() };
                let fam = fib_family(&net.nlri);
                tm.remove_route(src, fam, net, None, 0);
            }
            "drop" => {
                tm.unregister_peer(peer_addr(t[1]), fams, &[]);
                // the session that ends reports it to the monitors, as PeerSession does
                tm.peer_down(PeerDownData { peer_addr: peer_addr(t[1]), peer_asn: 0, peer_id: 0, uptime: 0, reason: crate::bmp::session_down_to_bmp(None) });
            }
            "subscribe" => {
                monitors.push((t[1].to_string(), tm.subscribe(true), AdjView::new(), AdjView::new(), false));
            }
            "markstale" => tm.unregister_peer(peer_addr(t[1]), &[], fams),
            "dropstale" => tm.drop_stale_families(peer_addr(t[1]), fams),
            "markllgr" => tm.mark_llgr_stale(peer_addr(t[1]), fams),
            "dropllgr" => tm.drop_llgr_stale_families(peer_addr(t[1]), fams),
            "nhflip" => {
                let nh = nhs.iter().find(|n| n.0 == t[1]).unwrap().1;
                tm.update_nexthop_validity(nh, t[2] == "1");
            }
            "softreset" => {
                // soft reset IN under an import policy that (besides rejecting what it rejected before) sets the next hop;
                // such a policy can only be built as an export-direction assignment (build_assignment refuses next-hop actions
                // for the import direction).  The plain policy is put back afterwards so that later announcements are not
                // rewritten.
                let plain = tm.import_policy.load_full();
                if t[2] != "keep" {
                    let to = nhs.iter().find(|n| n.0 == t[2]).unwrap().1;
                    let mut pt = table::PolicyTable::new();
                    pt.add_defined_set(table::DefinedSetConfig::Community { name: "rej".into(), patterns: vec!["65000:777".into()] }).unwrap();
                    pt.add_statement("s", vec![table::ConditionConfig::CommunitySet("rej".into(), table::MatchOption::Any)], Some(table::Disposition::Reject), table::Actions::default()).unwrap();
                    let acts = table::Actions { nexthop: Some(table::NexthopAction::Address(to)), ..Default::default() };
                    pt.add_statement("n", vec![], None, acts).unwrap();
                    pt.add_policy("p", vec!["s".into(), "n".into()]).unwrap();
                    let (_, a) = pt.add_assignment("global", table::PolicyDirection::Export, table::Disposition::Accept, vec!["p".into()]).unwrap();
                    tm.import_policy.store(Some(a));
                }
                tm.soft_reset_in(peer_addr(t[1]));
                tm.import_policy.store(plain);
            }
            x => panic!("harness: op {x}"),
        }
        let mut neg = false;
        while let Some(r) = rx.as_mut().unwrap().try_recv() {
            match r {
                kernel::verif::VerifRequest::Apply(c) => {
                    let mut v: Vec<String> = c.nexthops.iter().map(|n| nhs.iter().find(|x| x.1 == n.addr()).map(|x| x.0.clone()).unwrap_or_else(|| "?".into())).collect();
                    v.sort();
                    v.dedup();
                    match c.table_id {
                        None => {
                            let p = prefixes.iter().find(|p| p.1 == c.net).map(|p| p.0.clone()).unwrap_or_else(|| "?".into());
                            fib.insert(p, v);
                        }
                        Some(id) => {
                            // a VRF table holds the VPN prefix's inner prefix
                            let p = prefixes.iter().find(|p| table::vpn_to_local_nlri(&p.1).as_ref() == Some(&c.net)).map(|p| p.0.clone()).unwrap_or_else(|| "?".into());
                            vfib.insert((id, p), v);
                        }
                    }
                }
                kernel::verif::VerifRequest::RegisterNexthop(a) => {
                    *reg.entry(nhs.iter().find(|x| x.1 == a).map(|x| x.0.clone()).unwrap_or_else(|| "?".into())).or_insert(0) += 1;
                }
                kernel::verif::VerifRequest::UnregisterNexthop(a) => {
                    let e = reg.entry(nhs.iter().find(|x| x.1 == a).map(|x| x.0.clone()).unwrap_or_else(|| "?".into())).or_insert(0);
                    *e -= 1;
                    if *e < 0 {
                        neg = true;
                    }
                }
                kernel::verif::VerifRequest::Other => {}
            }
        }
        let mut notifs = String::new();
        let mut closed: Vec<String> = Vec::new();
        for (oi, (oname, orx, gone)) in observers.iter_mut().enumerate() {
            let mut items: Vec<String> = Vec::new();
            loop {
                match orx.try_recv() {
                    Ok(ToPeerEvent::NlriChange(u)) => {
                        let pn = prefixes.iter().find(|p| p.1 == u.net).map(|p| p.0.clone()).unwrap_or_else(|| "?".into());
                        let paths: Vec<String> = u
                            .current_paths
                            .iter()
                            .map(|path| {
                                let sess = sources.iter().find(|(_, v)| Arc::ptr_eq(v, &path.source)).map(|(k, _)| k.clone()).unwrap_or_else(|| "?".into());
                                let cls = classes.iter().find(|(k, v)| !k.1 && ***v == *path.attr).map(|(k, _)| k.0.clone()).unwrap_or_else(|| "?".into());
                                let nh = path.nexthop.and_then(|n| nhs.iter().find(|x| x.1 == n.addr()).map(|x| x.0.clone())).unwrap_or_else(|| "?".into());
                                format!("{{\"sess\":\"{}\",\"cls\":\"{}\",\"nh\":\"{}\",\"lid\":{}}}", sess, cls, nh, path.local_path_id)
                            })
                            .collect();
                        items.push(format!(
                            "{{\"p\":\"{}\",\"id\":{},\"bc\":{},\"ac\":{},\"replaced\":{},\"paths\":[{}]}}",
                            pn,
                            u.dest_id,
                            u.best_changed,
                            u.any_changed,
                            u.replaced_path_id.map(|x| x.to_string()).unwrap_or_else(|| "null".into()),
                            paths.join(",")
                        ));
                    }
                    Ok(_) => {}
                    Err(mpsc::error::TryRecvError::Empty) => break,
                    Err(mpsc::error::TryRecvError::Disconnected) => {
                        *gone = true;
                        break;
                    }
                }
            }
            if *gone {
                closed.push(format!("\"{}\"", oname));
            }
            if oi > 0 {
                notifs.push(',');
            }
            notifs.push_str(&format!("\"{}\":[{}]", oname, items.join(",")));
        }
        let mut adj = String::new();
        for (mi, (mname, sub, pre, post, eos)) in monitors.iter_mut().enumerate() {
            while let Ok(ev) = sub.rx.try_recv() {
                let (c, is_post) = match ev {
                    BgpEvent::AdjRibIn(c) => (c, false),
                    BgpEvent::AdjRibInPost(c) => (c, true),
                    BgpEvent::EndOfSnapshot => {
                        *eos = true;
                        continue;
                    }
                    BgpEvent::PeerDown(d) => {
                        let who = d.peer_addr.to_string();
                        pre.retain(|k, _| k.0 != who);
                        post.retain(|k, _| k.0 != who);
                        continue;
                    }
                    _ => continue,
                };
                let view = if is_post { &mut *post } else { &mut *pre };
                for x in &c.nlris {
                    let pn = prefixes.iter().find(|p| p.1 == x.nlri).map(|p| p.0.clone()).unwrap_or_else(|| "?".into());
                    let key = (c.source.remote_addr.to_string(), pn, x.path_id);
                    match &c.attrs {
                        None => {
                            view.remove(&key);
                        }
                        Some(a) => {
                            // the class of the attributes as announced (the rejected variant carries one more community)
                            let cls = classes.iter().find(|(_, v)| ***v == **a).map(|(k, _)| k.0.clone()).unwrap_or_else(|| "?".into());
                            let nh = c.nexthop.and_then(|n| nhs.iter().find(|y| y.1 == n.addr()).map(|y| y.0.clone())).unwrap_or_else(|| "?".into());
                            view.insert(key, (cls, nh));
                        }
                    }
                }
            }
            let f = |v: &AdjView| v.iter().map(|(k, x)| format!("[\"{}\",\"{}\",{},\"{}\",\"{}\"]", k.0, k.1, k.2, x.0, x.1)).collect::<Vec<_>>().join(",");
            if mi > 0 {
                adj.push(',');
            }
            adj.push_str(&format!("\"{}\":{{\"eos\":{},\"pre\":[{}],\"post\":[{}]}}", mname, eos, f(pre), f(post)));
        }
        let mut s = format!("{{\"adj\":{{{}}},\"notifs\":{{{}}},\"closed\":[{}],\"fib\":{{", adj, notifs, closed.join(","));
        for (i, (p, _)) in prefixes.iter().enumerate() {
            if i > 0 {
                s.push(',');
            }
            let v = fib.get(p).cloned().unwrap_or_default();
            s.push_str(&format!("\"{}\":[{}]", p, v.iter().map(|x| format!("\"{}\"", x)).collect::<Vec<_>>().join(",")));
        }
        s.push_str("},\"vfib\":{");
        for (i, (name, id, _, _)) in vrfs.iter().enumerate() {
            if i > 0 {
                s.push(',');
            }
            s.push_str(&format!("\"{}\":{{", name));
            let mut first = true;
            for (p, n) in prefixes.iter() {
                if table::vpn_to_local_nlri(n).is_none() {
                    continue;
                }
                if !first {
                    s.push(',');
                }
                first = false;
                let v = vfib.get(&(*id, p.clone())).cloned().unwrap_or_default();
                s.push_str(&format!("\"{}\":[{}]", p, v.iter().map(|x| format!("\"{}\"", x)).collect::<Vec<_>>().join(",")));
            }
            s.push('}');
        }
        if vfib.keys().any(|(id, p)| p == "?" || !vrfs.iter().any(|v| v.1 == *id)) {
            s.push_str(&format!("{}\"?\":{{}}", if vrfs.is_empty() { "" } else { "," }));
        }
        s.push_str("},\"reg\":{");
        for (i, (n, _)) in nhs.iter().enumerate() {
            if i > 0 {
                s.push(',');
            }
            s.push_str(&format!("\"{}\":{}", n, reg.get(n).copied().unwrap_or(0)));
        }
        s.push_str(&format!("}},\"neg\":{}}}", neg));
        writeln!(out, "{}", s).unwrap();
    }
    out.flush().unwrap();
}

// ------------------------------------------------------------------------------------------------
// C12, "the validation state USED BY POLICY and SHOWN BY THE API": VRP sets of spec/Rov/Rov.tla with the state the
// specification computes for every route, on the real TableManager: (1) an import policy "reject when the RPKI state is X"
// evaluated through TableManager::apply_import (the gate `needs_rpki` decides whether the VRP table is consulted at all) for
// X in Valid / Invalid / NotFound and three ways of building the assignment (both policies in one call; the RPKI policy
// first and another policy added by a second call; the other way round); (2) the annotation collect_paths puts on every path.
//
// Input (VERIF_IN ends ".rovuse.in"):  emb <v4|v6> <off>   routes <len>:<val>:<o> ...   state <exp chars> <c>:<len>:<val>:<m>:<a> ...
// Output: one line per state that has a mismatch: {"i":n,"emb":"..","bad":[..]} and a final {"summary":{..}}

fn rov_embed(v6: bool, off: u32, len: u32, val: u32) -> (IpAddr, u8) {
    if v6 {
        let base: u128 = 0x2001_0db8_5a5a_a5a5_3c3c_c3c3_0f0f_f0f0;
        let keep = if off == 0 { 0 } else { base & (u128::MAX << (128 - off)) };
        let v = if len == 0 { 0 } else { (val as u128) << (128 - off - len) };
        (IpAddr::V6(std::net::Ipv6Addr::from(keep | v)), (off + len) as u8)
    } else {
        let base: u32 = 0xAC5A_A53C;
        let keep = if off == 0 { 0 } else { base & (u32::MAX << (32 - off)) };
        let v = if len == 0 { 0 } else { val << (32 - off - len) };
        (IpAddr::V4(Ipv4Addr::from(keep | v)), (off + len) as u8)
    }
}

fn rov_asn(a: u32) -> u32 {
    if a == 0 { 0 } else { 64500 + a }
}

fn rov_attr(o: u32) -> Arc<Vec<packet::Attribute>> {
    let mut bin = Vec::new();
    match o {
        99 => {
            bin.extend_from_slice(&[2, 1]);
            bin.extend_from_slice(&65000u32.to_be_bytes());
            bin.extend_from_slice(&[1, 2]);
            bin.extend_from_slice(&64501u32.to_be_bytes());
            bin.extend_from_slice(&64502u32.to_be_bytes());
        }
        98 => {
            // AS_SEQUENCE [65000, AS 1] then an AS_SET as the final segment: origin NONE all the same
            bin.extend_from_slice(&[2, 2]);
            bin.extend_from_slice(&65000u32.to_be_bytes());
            bin.extend_from_slice(&rov_asn(1).to_be_bytes());
            bin.extend_from_slice(&[1, 2]);
            bin.extend_from_slice(&64502u32.to_be_bytes());
            bin.extend_from_slice(&64503u32.to_be_bytes());
        }
        5 => {
            // an AS_SET in front, AS_SEQUENCE [AS 1] as the final segment: the origin is AS 1
            bin.extend_from_slice(&[1, 1]);
            bin.extend_from_slice(&64502u32.to_be_bytes());
            bin.extend_from_slice(&[2, 1]);
            bin.extend_from_slice(&rov_asn(1).to_be_bytes());
        }
        3 => {}
        a => {
            bin.extend_from_slice(&[2, 2]);
            bin.extend_from_slice(&65000u32.to_be_bytes());
            bin.extend_from_slice(&rov_asn(a).to_be_bytes());
        }
    }
    Arc::new(vec![
        packet::Attribute::new_with_value(packet::Attribute::ORIGIN, 0).unwrap(),
        packet::Attribute::new_with_bin(packet::Attribute::AS_PATH, bin).unwrap(),
    ])
}

fn rov_assignment(order: u8, st: table::RpkiValidationState) -> Arc<table::PolicyAssignment> {
    let mut pt = table::PolicyTable::new();
    pt.add_defined_set(table::DefinedSetConfig::Community { name: "never".into(), patterns: vec!["65000:4242".into()] }).map_err(|_| ()).unwrap();
    pt.add_statement("sx", vec![table::ConditionConfig::Rpki(st)], Some(table::Disposition::Reject), table::Actions::default()).map_err(|_| ()).unwrap();
    pt.add_statement("sc", vec![table::ConditionConfig::CommunitySet("never".into(), table::MatchOption::Any)], Some(table::Disposition::Reject), table::Actions::default())
        .map_err(|_| ())
        .unwrap();
    pt.add_policy("px", vec!["sx".into()]).map_err(|_| ()).unwrap();
    pt.add_policy("pc", vec!["sc".into()]).map_err(|_| ()).unwrap();
    let mut add = |names: Vec<&str>| {
        pt.add_assignment("global", table::PolicyDirection::Import, table::Disposition::Accept, names.into_iter().map(|s| s.into()).collect())
            .map_err(|_| ())
            .unwrap()
            .1
    };
    match order {
        0 => add(vec!["px", "pc"]),
        1 => {
            add(vec!["px"]);
            add(vec!["pc"])
        }
        _ => {
            add(vec!["pc"]);
            add(vec!["px"])
        }
    }
}

#[test]
fn rov_use_replay() {
    let Ok(inp) = std::env::var("VERIF_IN") else {
        return;
    };
    if !inp.ends_with(".rovuse.in") {
        return;
    }
    let outp = std::env::var("VERIF_OUT").expect("VERIF_OUT");
    let text = std::fs::read_to_string(&inp).expect("read VERIF_IN");
    let mut out = std::io::BufWriter::new(std::fs::File::create(&outp).expect("create VERIF_OUT"));
    let src = Arc::new(table::Source::new(
        IpAddr::V4(Ipv4Addr::new(10, 0, 0, 1)),
        IpAddr::V4(Ipv4Addr::new(10, 0, 0, 254)),
        65000,
        rov_asn(3),
        Ipv4Addr::new(1, 1, 1, 1),
        table::PeerRole::Ebgp,
    ));
    let caches: HashMap<String, Arc<IpAddr>> =
        ["k1", "k2", "k3"].iter().enumerate().map(|(i, c)| (c.to_string(), Arc::new(IpAddr::V4(Ipv4Addr::new(192, 0, 2, i as u8 + 1))))).collect();
    let kinds = [('V', table::RpkiValidationState::Valid), ('I', table::RpkiValidationState::Invalid), ('N', table::RpkiValidationState::NotFound)];
    let mut assigns = Vec::new();
    for (ch, _) in kinds.iter() {
        for order in 0..3u8 {
            let st = match ch {
                'V' => table::RpkiValidationState::Valid,
                'I' => table::RpkiValidationState::Invalid,
                _ => table::RpkiValidationState::NotFound,
            };
            assigns.push((*ch, order, rov_assignment(order, st)));
        }
    }
    let (mut v6, mut off) = (false, 0u32);
    let mut routes: Vec<(u32, u32, u32)> = Vec::new();
    let (mut nstates, mut nevals, mut idx) = (0u64, 0u64, 0u64);
    for line in text.lines() {
        let t: Vec<&str> = line.split_whitespace().collect();
        if t.is_empty() {
            continue;
        }
        match t[0] {
            "emb" => {
                v6 = t[1] == "v6";
                off = t[2].parse().unwrap();
            }
            "routes" => {
                routes = t[1..]
                    .iter()
                    .map(|r| {
                        let f: Vec<u32> = r.split(':').map(|x| x.parse().unwrap()).collect();
                        (f[0], f[1], f[2])
                    })
                    .collect();
            }
            "state" => {
                idx += 1;
                nstates += 1;
                let exp: Vec<char> = t[1].chars().collect();
                let tm = TableManager::new(2);
                let mut roas = Vec::new();
                for v in &t[2..] {
                    let f: Vec<&str> = v.split(':').collect();
                    let (len, val, m, a): (u32, u32, u32, u32) = (f[1].parse().unwrap(), f[2].parse().unwrap(), f[3].parse().unwrap(), f[4].parse().unwrap());
                    let (addr, mask) = rov_embed(v6, off, len, val);
                    roas.push((packet::IpNet::new(addr, mask), Arc::new(table::Roa::new((off + m) as u8, rov_asn(a), caches[f[0]].clone()))));
                }
                tm.rpki_insert(roas);
                let fam = if v6 { Family::IPV6 } else { Family::IPV4 };
                let nh = bgp::Nexthop::V4(Ipv4Addr::new(192, 0, 2, 77));
                let mut bad: Vec<String> = Vec::new();
                for (ri, (len, val, o)) in routes.iter().enumerate() {
                    let (addr, mask) = rov_embed(v6, off, *len, *val);
                    let net = match addr {
                        IpAddr::V4(a) => packet::Nlri::V4(bgp::Ipv4Net { addr: a, mask }),
                        IpAddr::V6(a) => packet::Nlri::V6(bgp::Ipv6Net { addr: a, mask }),
                    };
                    let attr = rov_attr(*o);
                    for (ch, order, a) in &assigns {
                        let mut n = Some(nh);
                        let (filtered, _) = tm.apply_import(Some(a), &src, &net, &attr, &mut n);
                        nevals += 1;
                        if filtered != (exp[ri] == *ch) && bad.len() < 6 {
                            bad.push(format!(
                                "{{\"kind\":\"policy\",\"route\":[{},{},{}],\"state\":\"{}\",\"reject_when\":\"{}\",\"assignment_built\":{},\"rejected\":{}}}",
                                len, val, o, exp[ri], ch, order, filtered
                            ));
                        }
                    }
                    tm.insert_route(src.clone(), fam, packet::PathNlri { path_id: *o, nlri: net }, Some(nh), attr, None, 0);
                }
                let dests = tm.collect_paths(table::TableQuery::AdjIn(src.remote_addr), fam, vec![], false);
                let mut seen = 0usize;
                for d in &dests {
                    for p in &d.paths {
                        let Some(ri) = routes.iter().position(|(len, val, o)| {
                            let (addr, mask) = rov_embed(v6, off, *len, *val);
                            *o == p.remote_path_id
                                && match (&d.net, addr) {
                                    (packet::Nlri::V4(n), IpAddr::V4(a)) => n.addr == a && n.mask == mask,
                                    (packet::Nlri::V6(n), IpAddr::V6(a)) => n.addr == a && n.mask == mask,
                                    _ => false,
                                }
                        }) else {
                            continue;
                        };
                        seen += 1;
                        nevals += 1;
                        let got = match &p.validation {
                            None => 'N',
                            Some(v) => match v.state {
                                table::RpkiValidationState::NotFound => 'N',
                                table::RpkiValidationState::Valid => 'V',
                                table::RpkiValidationState::Invalid => 'I',
                            },
                        };
                        if got != exp[ri] && bad.len() < 6 {
                            bad.push(format!("{{\"kind\":\"api\",\"route\":[{},{},{}],\"state\":\"{}\",\"shown\":\"{}\"}}", routes[ri].0, routes[ri].1, routes[ri].2, exp[ri], got));
                        }
                    }
                }
                if seen != routes.len() && bad.len() < 6 {
                    bad.push(format!("{{\"kind\":\"api\",\"what\":\"{} of {} inserted paths listed\"}}", seen, routes.len()));
                }
                // per-cache reset through the manager: the cache's VRPs are replaced by the new snapshot - an empty one or one
                // VRP - and nobody else's are touched; then the old set is put back the same way
                let vrps: Vec<(String, u32, u32, u32, u32)> = t[2..]
                    .iter()
                    .map(|v| {
                        let f: Vec<&str> = v.split(':').collect();
                        (f[0].to_string(), f[1].parse().unwrap(), f[2].parse().unwrap(), f[3].parse().unwrap(), f[4].parse().unwrap())
                    })
                    .collect();
                let mk = |c: &str, len: u32, val: u32, m: u32, a: u32| {
                    let (addr, mask) = rov_embed(v6, off, len, val);
                    (packet::IpNet::new(addr, mask), Arc::new(table::Roa::new((off + m) as u8, rov_asn(a), caches[c].clone())))
                };
                let contents = |tm: &TableManager| {
                    let mut v: Vec<String> = tm
                        .collect_roa(fam)
                        .iter()
                        .map(|(net, roa)| {
                            let who = caches.iter().find(|(_, a)| Arc::ptr_eq(a, &roa.source)).map(|(k, _)| k.clone()).unwrap_or_else(|| "?".into());
                            format!("{}/{}/{}/{}", who, net, roa.max_length, roa.as_number)
                        })
                        .collect();
                    v.sort();
                    v
                };
                let want = |set: &[(String, u32, u32, u32, u32)]| {
                    let mut v: Vec<String> = set
                        .iter()
                        .map(|(c, len, val, m, a)| {
                            let (addr, mask) = rov_embed(v6, off, *len, *val);
                            format!("{}/{}/{}/{}", c, packet::IpNet::new(addr, mask), off + m, rov_asn(*a))
                        })
                        .collect();
                    v.sort();
                    v.dedup();
                    v
                };
                for c in ["k1", "k2"] {
                    for snap in [vec![], vec![(c.to_string(), 1u32, 1u32, 2u32, 1u32)]] {
                        tm.rpki_reset(caches[c].clone(), snap.iter().map(|(c, l, v, m, a)| mk(c, *l, *v, *m, *a)).collect());
                        nevals += 1;
                        let mut exp: Vec<(String, u32, u32, u32, u32)> = vrps.iter().filter(|v| v.0 != c).cloned().collect();
                        exp.extend(snap.iter().cloned());
                        let (got, wanted) = (contents(&tm), want(&exp));
                        if got != wanted && bad.len() < 6 {
                            bad.push(format!(
                                "{{\"kind\":\"reset\",\"cache\":\"{}\",\"snapshot_size\":{},\"expected\":{:?},\"actual\":{:?}}}",
                                c,
                                snap.len(),
                                wanted,
                                got
                            ));
                        }
                        let back: Vec<(String, u32, u32, u32, u32)> = vrps.iter().filter(|v| v.0 == c).cloned().collect();
                        tm.rpki_reset(caches[c].clone(), back.iter().map(|(c, l, v, m, a)| mk(c, *l, *v, *m, *a)).collect());
                    }
                }
                if !bad.is_empty() {
                    writeln!(out, "{{\"i\":{},\"emb\":\"{}{}\",\"line\":\"{}\",\"bad\":[{}]}}", idx, if v6 { "v6/" } else { "v4/" }, off, line, bad.join(",")).unwrap();
                }
            }
            x => panic!("harness: {x}"),
        }
    }
    writeln!(out, "{{\"summary\":{{\"states\":{},\"evaluations\":{}}}}}", nstates, nevals).unwrap();
    out.flush().unwrap();
}

// ------------------------------------------------------------------------------------------------
// Atomicity of the manager's lock-free / read-modify-write critical sections under REAL concurrency, without scheduling
// hooks (the specifications treat each of these as one atomic action; a hook can only sit where the code has a step
// boundary today, so a change that SPLITS an action has no hook inside the new window):
//   C18  the subscriber list: subscribe() of new monitors concurrently with unsubscribe() of others and with dead
//        (receiver dropped, never unsubscribed) monitors in the list; afterwards every live monitor must see every change
//        and no unsubscribed one may;
//   C13  the VRP table: one cache installing large snapshots (rpki_reset) while another cache's session announces /
//        withdraws single VRPs and a third one's goes away; the operations of different caches commute, so the final
//        content is known whatever the interleaving.
// Input (VERIF_IN ends ".atom.in"): "subs <rounds> <n>" / "vrps <rounds> <snapshot size> <singles>".
// Output: one JSON line per round.
// ------------------------------------------------------------------------------------------------
#[test]
fn atomicity_stress() {
    let Ok(inp) = std::env::var("VERIF_IN") else {
        return;
    };
    if !inp.ends_with(".atom.in") {
        return;
    }
    let outp = std::env::var("VERIF_OUT").expect("VERIF_OUT");
    let text = std::fs::read_to_string(&inp).expect("read VERIF_IN");
    let mut out = std::io::BufWriter::new(std::fs::File::create(&outp).expect("create VERIF_OUT"));
    let src = Arc::new(table::Source::new(
        IpAddr::V4(Ipv4Addr::new(10, 0, 0, 1)),
        IpAddr::V4(Ipv4Addr::new(10, 0, 0, 9)),
        65001,
        65000,
        Ipv4Addr::new(1, 1, 1, 1),
        table::PeerRole::Ebgp,
    ));
    let saw = |rx: &mut mpsc::UnboundedReceiver<BgpEvent>| -> (usize, usize) {
        // (pre-policy reach events, post-policy reach events) for the probe prefix
        let (mut pre, mut post) = (0, 0);
        while let Ok(ev) = rx.try_recv() {
            match ev {
                BgpEvent::AdjRibIn(c) if c.attrs.is_some() => pre += c.nlris.len(),
                BgpEvent::AdjRibInPost(c) if c.attrs.is_some() => post += c.nlris.len(),
                _ => {}
            }
        }
        (pre, post)
    };
    for line in text.lines() {
        let t: Vec<&str> = line.split_whitespace().collect();
        if t.is_empty() {
            continue;
        }
        let rounds: usize = t[1].parse().unwrap();
        if t[0] == "subs" {
            let n: usize = t[2].parse().unwrap();
            for r in 0..rounds {
                let tm: Arc<TableManager> = Arc::new(TableManager::new(2));
                // a dead monitor first in the list (its receiver is gone, nobody unsubscribed it), then the old ones
                let dead = tm.subscribe(false);
                drop(dead.rx);
                let mut old: Vec<Subscription> = (0..n).map(|_| tm.subscribe(false)).collect();
                let old_ids: Vec<SubscriptionId> = old.iter().map(|s| s.id).collect();
                let (tm_a, tm_b, tm_c) = (tm.clone(), tm.clone(), tm.clone());
                let half = n / 2;
                let ids_a: Vec<SubscriptionId> = old_ids[..half].to_vec();
                let ids_b: Vec<SubscriptionId> = old_ids[half..].to_vec();
                let ha = std::thread::spawn(move || {
                    for id in ids_a {
                        tm_a.unsubscribe(id);
                    }
                });
                let hb = std::thread::spawn(move || {
                    for id in ids_b {
                        tm_b.unsubscribe(id);
                    }
                });
                let hc = std::thread::spawn(move || (0..n).map(|i| tm_c.subscribe(i % 2 == 0)).collect::<Vec<Subscription>>());
                let mut new2: Vec<Subscription> = (0..n).map(|_| tm.subscribe(false)).collect();
                ha.join().unwrap();
                hb.join().unwrap();
                let mut new1 = hc.join().unwrap();
                // drain what the subscriptions themselves produced, then one change
                for s in new1.iter_mut().chain(new2.iter_mut()).chain(old.iter_mut()) {
                    let _ = saw(&mut s.rx);
                }
                let net = packet::Nlri::V4(packet::bgp::Ipv4Net { addr: Ipv4Addr::new(10, 7, r as u8, 0), mask: 24 });
                let _ = tm.insert_route(src.clone(), Family::IPV4, packet::PathNlri::new(net), Some(bgp::Nexthop::V4(Ipv4Addr::new(192, 0, 2, 1))), sub_attrs(1), None, 0);
                let mut new_pre = 0;
                let mut new_post = 0;
                for s in new1.iter_mut().chain(new2.iter_mut()) {
                    let (a, b) = saw(&mut s.rx);
                    new_pre += (a == 1) as usize;
                    new_post += (b == 1) as usize;
                }
                let mut old_saw = 0;
                for s in old.iter_mut() {
                    let (a, b) = saw(&mut s.rx);
                    old_saw += a + b;
                }
                let listed = tm.subscribers.load().len();
                writeln!(out, "{{\"kind\":\"subs\",\"round\":{r},\"new\":{},\"new_pre\":{new_pre},\"new_post\":{new_post},\"old_saw\":{old_saw},\"listed\":{listed}}}", 2 * n).unwrap();
            }
        } else if t[0] == "vrps" {
            let size: u32 = t[2].parse().unwrap();
            let singles: u32 = t[3].parse().unwrap();
            let ca = Arc::new(IpAddr::V4(Ipv4Addr::new(192, 0, 2, 101)));
            let cb = Arc::new(IpAddr::V4(Ipv4Addr::new(192, 0, 2, 102)));
            let cc = Arc::new(IpAddr::V4(Ipv4Addr::new(192, 0, 2, 103)));
            let vrp = |base: u8, i: u32, cache: &Arc<IpAddr>| (packet::IpNet::new(IpAddr::V4(Ipv4Addr::new(base, (i >> 16) as u8, (i >> 8) as u8, i as u8)), 32), Arc::new(table::Roa::new(32, 65000 + (i % 7), cache.clone())));
            for r in 0..rounds {
                let tm: Arc<TableManager> = Arc::new(TableManager::new(1));
                // cache C holds some VRPs and goes away during the round; cache B starts with the first third of its singles
                tm.rpki_insert((0..100).map(|i| vrp(30, i, &cc)).collect());
                tm.rpki_insert((0..singles / 3).map(|i| vrp(20, i, &cb)).collect());
                let (tm_a, tm_b, tm_c) = (tm.clone(), tm.clone(), tm.clone());
                let (ca2, cb2, cc2) = (ca.clone(), cb.clone(), cc.clone());
                let ha = std::thread::spawn(move || {
                    // three snapshots, the last one is what must stay
                    for k in 0..3u32 {
                        let snap = (0..size).map(|i| vrp(10 + k as u8, i, &ca2)).collect();
                        tm_a.rpki_reset(ca2.clone(), snap);
                    }
                });
                let hb = std::thread::spawn(move || {
                    for i in singles / 3..singles {
                        tm_b.rpki_insert(vec![vrp(20, i, &cb2)]);
                        if i % 3 == 0 {
                            tm_b.rpki_withdraw(vec![vrp(20, i - singles / 3, &cb2)]);
                        }
                    }
                });
                let hc = std::thread::spawn(move || {
                    std::thread::yield_now();
                    tm_c.rpki_drop_all(cc2);
                });
                ha.join().unwrap();
                hb.join().unwrap();
                hc.join().unwrap();
                let (mut a_last, mut a_other, mut b, mut c) = (0u32, 0u32, Vec::new(), 0u32);
                for (net, roa) in tm.collect_roa(Family::IPV4) {
                    let o = match net {
                        packet::IpNet::V4(x) => x.addr.octets(),
                        _ => [0; 4],
                    };
                    if *roa.source == *ca {
                        if o[0] == 12 {
                            a_last += 1;
                        } else {
                            a_other += 1;
                        }
                    } else if *roa.source == *cb {
                        b.push(((o[1] as u32) << 16) | ((o[2] as u32) << 8) | o[3] as u32);
                    } else {
                        c += 1;
                    }
                }
                b.sort();
                let exp_b: Vec<u32> = (0..singles).filter(|i| !(*i < singles - singles / 3 && (i + singles / 3) % 3 == 0 && i + singles / 3 < singles)).collect();
                let b_ok = b == exp_b;
                writeln!(out, "{{\"kind\":\"vrps\",\"round\":{r},\"a_last\":{a_last},\"a_expected\":{size},\"a_other\":{a_other},\"b\":{},\"b_expected\":{},\"b_ok\":{b_ok},\"c\":{c}}}", b.len(), exp_b.len()).unwrap();
            }
        }
    }
    out.flush().unwrap();
}

