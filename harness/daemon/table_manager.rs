// Included into daemon/src/table_manager.rs as `mod verif_harness` (guard: cfg osrg_rustybgp_verif).
//
// C18: a deterministic thread scheduler (`sched_point` is called by the cfg-guarded hooks right before every shard-lock
// acquisition of insert_route / remove_route / unregister_peer / subscribe and at the start of peer_down) and the replay
// of spec/Subscribe/Subscribe.tla behaviours on the real TableManager with real OS threads: every model step is
// "thread T runs from the point where it is parked to its next point".
//
// Input (VERIF_IN ends ".sub.in"):
//   walk <prog: A|B|C> <ends: comma list of sessions or ->
//   <thread> <step>          one line per model step (thread: t1|t2|u1|u2; step: informational)
// Output: per walk {"walk":..}, per step {"at": point reached, "pre": {...}, "post": {...}}, and at the end of the walk
//   {"final": true, "subs": {u: {"pre":{..},"post":{..},"events":n}}, "rib": {...}}
#[allow(unused_imports)]
use super::*;
use std::collections::HashMap;
use std::net::Ipv4Addr;
use std::io::Write as _;
use std::sync::{Condvar, Mutex as StdMutex};

struct Sched {
    parked: HashMap<usize, String>,
    go: std::collections::HashSet<usize>,
    done: std::collections::HashSet<usize>,
}

static SCHED: StdMutex<Option<Sched>> = StdMutex::new(None);
static CV: Condvar = Condvar::new();

thread_local! {
    static TID: std::cell::Cell<usize> = const { std::cell::Cell::new(0) };
}

/// Called from the hooks.  A thread that is not managed by the scheduler passes straight through.
pub(crate) fn sched_point(name: &str) {
    let tid = TID.with(|t| t.get());
    if tid == 0 {
        return;
    }
    let mut g = SCHED.lock().unwrap();
    if g.is_none() {
        return;
    }
    g.as_mut().unwrap().parked.insert(tid, name.to_string());
    CV.notify_all();
    loop {
        match g.as_mut() {
            None => return, // scheduling was switched off: run freely to the end
            Some(s) => {
                if s.go.remove(&tid) {
                    s.parked.remove(&tid);
                    return;
                }
            }
        }
        g = CV.wait(g).unwrap();
    }
}

fn spawn_managed<F: FnOnce() + Send + 'static>(tid: usize, f: F) -> std::thread::JoinHandle<()> {
    std::thread::spawn(move || {
        TID.with(|t| t.set(tid));
        sched_point("start");
        f();
        let mut g = SCHED.lock().unwrap();
        if let Some(s) = g.as_mut() {
            s.done.insert(tid);
        }
        CV.notify_all();
    })
}

/// Wait until `tid` is parked (returns the point) or finished ("done"); None on timeout.
fn wait_parked(tid: usize) -> Option<String> {
    let mut g = SCHED.lock().unwrap();
    let deadline = std::time::Instant::now() + std::time::Duration::from_secs(5);
    loop {
        {
            let Some(s) = g.as_ref() else { return None };
            if let Some(p) = s.parked.get(&tid)
                && !s.go.contains(&tid)
            {
                return Some(p.clone());
            }
            if s.done.contains(&tid) {
                return Some("done".to_string());
            }
        }
        let now = std::time::Instant::now();
        if now >= deadline {
            return None;
        }
        g = CV.wait_timeout(g, deadline - now).unwrap().0;
    }
}

/// One model step: let `tid` run to its next point.
fn advance(tid: usize) -> Option<String> {
    wait_parked(tid)?;
    {
        let mut g = SCHED.lock().unwrap();
        let Some(s) = g.as_mut() else { return None };
        if s.done.contains(&tid) {
            return Some("done".to_string());
        }
        s.go.insert(tid);
        CV.notify_all();
    }
    wait_parked(tid)
}

fn sub_key_nlri(tm: &TableManager, k: &str) -> packet::Nlri {
    // k1, k3 on shard 0; k2 on shard 1 (the model's shards 1 and 2)
    let want = if k == "k2" { 1 } else { 0 };
    let third = match k {
        "k1" => 1u8,
        "k2" => 2,
        _ => 3,
    };
    for x in 0..=255u8 {
        let n = packet::Nlri::V4(packet::bgp::Ipv4Net { addr: Ipv4Addr::new(10, third, x, 0), mask: 24 });
        if tm.dealer(&n) == want {
            return n;
        }
    }
    panic!("harness: no prefix for shard");
}

fn sub_key_of(n: &packet::Nlri) -> &'static str {
    match n {
        packet::Nlri::V4(x) => match x.addr.octets()[1] {
            1 => "k1",
            2 => "k2",
            _ => "k3",
        },
        _ => "?",
    }
}

const REJ_COMM: u32 = (65000 << 16) | 666;

fn sub_attrs(val: u32) -> Arc<Vec<packet::Attribute>> {
    let mut v = vec![
        packet::Attribute::new_with_value(packet::Attribute::ORIGIN, 0).unwrap(),
        packet::Attribute::new_with_bin(packet::Attribute::AS_PATH, vec![2, 1, 0, 0, 0xfd, 0xe9]).unwrap(),
    ];
    if val == 2 {
        v.push(packet::Attribute::new_with_bin(packet::Attribute::COMMUNITY, REJ_COMM.to_be_bytes().to_vec()).unwrap());
    }
    Arc::new(v)
}

fn sub_val(attrs: Option<&Arc<Vec<packet::Attribute>>>) -> u32 {
    match attrs {
        None => 0,
        Some(a) => {
            if a.iter().any(|x| x.code() == packet::Attribute::COMMUNITY) {
                2
            } else {
                1
            }
        }
    }
}

fn sub_rib_json(tm: &TableManager) -> String {
    let mut pre: HashMap<&str, u32> = HashMap::new();
    let mut post: HashMap<&str, u32> = HashMap::new();
    for shard in &tm.shards {
        let t = shard.lock().unwrap();
        for r in t.rtable.iter_reach(Family::IPV4) {
            pre.insert(sub_key_of(&r.net.nlri), sub_val(Some(&r.attr)));
        }
        for r in t.rtable.iter_reach_post(Family::IPV4) {
            post.insert(sub_key_of(&r.net.nlri), sub_val(Some(&r.attr)));
        }
    }
    sub_views_json(&pre, &post)
}

fn sub_views_json(pre: &HashMap<&str, u32>, post: &HashMap<&str, u32>) -> String {
    let f = |m: &HashMap<&str, u32>| {
        format!(
            "{{\"k1\":{},\"k2\":{},\"k3\":{}}}",
            m.get("k1").copied().unwrap_or(0),
            m.get("k2").copied().unwrap_or(0),
            m.get("k3").copied().unwrap_or(0)
        )
    };
    format!("{{\"pre\":{},\"post\":{}}}", f(pre), f(post))
}

fn sub_prog(name: &str, t: &str) -> Vec<(&'static str, u32)> {
    match (name, t) {
        ("A", "t1") => vec![("k1", 1), ("k2", 2), ("k1", 0)],
        ("A", "t2") => vec![("k3", 1), ("k3", 2)],
        ("B", "t1") => vec![("k2", 1), ("k1", 1), ("k2", 2)],
        ("B", "t2") => vec![("k3", 2), ("k3", 1), ("k3", 0)],
        ("C", "t1") => vec![("k1", 1)],
        ("C", "t2") => vec![("k3", 1)],
        _ => panic!("harness: program"),
    }
}

#[test]
fn subscribe_replay() {
    let Ok(inp) = std::env::var("VERIF_IN") else {
        return;
    };
    if !inp.ends_with(".sub.in") {
        return;
    }
    let outp = std::env::var("VERIF_OUT").expect("VERIF_OUT");
    let text = std::fs::read_to_string(&inp).expect("read VERIF_IN");
    let mut out = std::io::BufWriter::new(std::fs::File::create(&outp).expect("create VERIF_OUT"));
    let lines: Vec<&str> = text.lines().collect();
    let mut i = 0;
    while i < lines.len() {
        let head: Vec<&str> = lines[i].split_whitespace().collect();
        if head.is_empty() || head[0] != "walk" {
            i += 1;
            continue;
        }
        let mut j = i + 1;
        while j < lines.len() && !lines[j].starts_with("walk") {
            j += 1;
        }
        let steps: Vec<Vec<&str>> = lines[i + 1..j].iter().map(|l| l.split_whitespace().collect::<Vec<&str>>()).filter(|t| !t.is_empty()).collect();
        i = j;
        let prog = head[1].to_string();
        let ends: Vec<String> = if head[2] == "-" { vec![] } else { head[2].split(',').map(|s| s.to_string()).collect() };
        writeln!(out, "{{\"walk\":true}}").unwrap();

        // fresh world: two shards, an import policy that rejects the marked community
        let tm: Arc<TableManager> = Arc::new(TableManager::new(2));
        {
            let mut pt = table::PolicyTable::new();
            pt.add_defined_set(table::DefinedSetConfig::Community { name: "rej".into(), patterns: vec!["65000:666".into()] }).unwrap();
            pt.add_statement("s", vec![table::ConditionConfig::CommunitySet("rej".into(), table::MatchOption::Any)], Some(table::Disposition::Reject), table::Actions::default()).unwrap();
            pt.add_policy("p", vec!["s".into()]).unwrap();
            let (_, a) = pt.add_assignment("global", table::PolicyDirection::Import, table::Disposition::Accept, vec!["p".into()]).unwrap();
            tm.import_policy.store(Some(a));
        }
        *SCHED.lock().unwrap() = Some(Sched { parked: HashMap::new(), go: Default::default(), done: Default::default() });
        let tids: HashMap<&str, usize> = [("t1", 1usize), ("t2", 2), ("u1", 3), ("u2", 4)].into_iter().collect();
        let mut handles = Vec::new();
        let (sub_tx, sub_rx) = std::sync::mpsc::channel::<(String, Subscription)>();
        for (t, peer_last) in [("t1", 1u8), ("t2", 2u8)] {
            let tm2 = tm.clone();
            let prog2 = prog.clone();
            let ends2 = ends.iter().any(|e| e == t);
            let tname = t.to_string();
            handles.push(spawn_managed(tids[t], move || {
                let addr = IpAddr::V4(Ipv4Addr::new(192, 0, 2, peer_last));
                let source = Arc::new(table::Source::new(addr, IpAddr::V4(Ipv4Addr::new(192, 0, 2, 254)), 65000 + peer_last as u32, 65000, Ipv4Addr::new(9, 9, 9, peer_last), table::PeerRole::Ebgp));
                for (k, v) in sub_prog(&prog2, &tname) {
                    let net = packet::PathNlri { path_id: 0, nlri: sub_key_nlri(&tm2, k) };
                    if v == 0 {
                        tm2.remove_route(source.clone(), Family::IPV4, net, None, 0);
                    } else {
                        tm2.insert_route(source.clone(), Family::IPV4, net, Some(bgp::Nexthop::V4(Ipv4Addr::new(192, 0, 2, peer_last))), sub_attrs(v), None, 0);
                    }
                    sched_point("between calls");
                }
                if ends2 {
                    tm2.unregister_peer(addr, &[Family::IPV4], &[]);
                    tm2.peer_down(PeerDownData { peer_addr: addr, peer_asn: 65000 + peer_last as u32, peer_id: 0, uptime: 0, reason: crate::bmp::session_down_to_bmp(None) });
                }
            }));
        }
        for u in ["u1", "u2"] {
            let tm2 = tm.clone();
            let tx = sub_tx.clone();
            let uname = u.to_string();
            handles.push(spawn_managed(tids[u], move || {
                let s = tm2.subscribe(true);
                let _ = tx.send((uname, s));
            }));
        }
        let mut ok = true;
        for st in &steps {
            let tid = tids[st[0]];
            let at = if ok { advance(tid) } else { None };
            match at {
                Some(p) => writeln!(out, "{{\"at\":\"{}\",\"rib\":{}}}", p, sub_rib_json(&tm)).unwrap(),
                None => {
                    ok = false;
                    writeln!(out, "{{\"at\":\"stuck\",\"rib\":{}}}", "{\"pre\":{\"k1\":0,\"k2\":0,\"k3\":0},\"post\":{\"k1\":0,\"k2\":0,\"k3\":0}}").unwrap()
                }
            }
        }
        // which subscribers took part in this walk
        let used: Vec<&str> = ["u1", "u2"].into_iter().filter(|u| steps.iter().any(|s| s[0] == *u)).collect();
        // let everything that is still parked run to the end (unused threads included), then stop scheduling
        {
            let mut g = SCHED.lock().unwrap();
            *g = None;
            CV.notify_all();
        }
        // parked threads wait on `go`: wake them by making the scheduler inactive
        for h in handles {
            let _ = h.join();
        }
        let mut subs_json = Vec::new();
        let mut got: HashMap<String, Subscription> = HashMap::new();
        while let Ok((u, s)) = sub_rx.try_recv() {
            got.insert(u, s);
        }
        for u in used {
            let Some(mut s) = got.remove(u) else { continue };
            let mut pre: HashMap<&str, u32> = HashMap::new();
            let mut post: HashMap<&str, u32> = HashMap::new();
            let mut n = 0;
            let mut ups_downs = Vec::new();
            while let Ok(ev) = s.rx.try_recv() {
                n += 1;
                match ev {
                    BgpEvent::AdjRibIn(c) => {
                        for x in &c.nlris {
                            pre.insert(sub_key_of(&x.nlri), sub_val(c.attrs.as_ref()));
                        }
                    }
                    BgpEvent::AdjRibInPost(c) => {
                        for x in &c.nlris {
                            post.insert(sub_key_of(&x.nlri), sub_val(c.attrs.as_ref()));
                        }
                    }
                    BgpEvent::PeerDown(d) => {
                        let keys: &[&str] = if d.peer_addr == IpAddr::V4(Ipv4Addr::new(192, 0, 2, 1)) { &["k1", "k2"] } else { &["k3"] };
                        for k in keys {
                            pre.remove(k);
                            post.remove(k);
                        }
                        ups_downs.push(format!("\"down:{}\"", d.peer_addr));
                    }
                    _ => {}
                }
            }
            subs_json.push(format!("\"{}\":{{\"view\":{},\"events\":{}}}", u, sub_views_json(&pre, &post), n));
        }
        writeln!(out, "{{\"final\":true,\"completed\":{},\"subs\":{{{}}},\"rib\":{}}}", ok, subs_json.join(","), sub_rib_json(&tm)).unwrap();
    }
    out.flush().unwrap();
}
