// Included into daemon/src/bmp.rs as `mod verif_harness` (guard: cfg osrg_rustybgp_verif).
//
// C19, BMP half: every BMP case of spec/MonitorRecord/MonitorRecord.tla is turned into the monitored event it stands for,
// converted by the real converters of this module (adj_rib_in_to_bmp_update, adj_rib_out_to_bmp_update, loc_rib_to_bmp,
// loc_rib_peer_up, flush_peer_snapshot, session_down_to_bmp), encoded by the real BmpCodec, and read back by an independent
// structural reader (harness/common/monitor_reader.rs); embedded PDUs go through the repository's BGP parser.
//
//   VERIF_IN : one case per line (tab separated, see parse_case);  VERIF_OUT : {"i": n, "obs": {...}} per BMP case.
#[allow(unused_imports)]
use super::*;
use std::io::{BufRead, Write as _};
use tokio_util::codec::Encoder;

include!(concat!(env!("OSRG_RUSTYBGP_VERIF_DIR"), "/../common/monitor_cases.rs"));

const ROUTER_ID: Ipv4Addr = Ipv4Addr::new(192, 0, 2, 254);
const LOCAL_ASN: u32 = 65001;

fn panic_text(e: Box<dyn std::any::Any + Send>) -> String {
    if let Some(s) = e.downcast_ref::<&str>() {
        s.to_string()
    } else if let Some(s) = e.downcast_ref::<String>() {
        s.clone()
    } else {
        "panic".to_string()
    }
}

fn open_msg(asn: u32, id: Ipv4Addr, caps: &str) -> bgp::Message {
    let capability = match caps {
        "nocaps" => vec![],
        "caps" => vec![packet::Capability::MultiProtocol(Family::IPV4), packet::Capability::FourOctetAsNumber(asn), packet::Capability::RouteRefresh],
        x if x.starts_with("caps2") => {
            // capabilities of exactly N octets: the four-octet-AS capability (6) and one unknown capability (2 + N - 8)
            let n: usize = x[4..].parse().unwrap();
            vec![packet::Capability::FourOctetAsNumber(asn), packet::Capability::Unknown { code: 200, bin: vec![0xab; n - 8] }]
        }
        _ => {
            let (l, _) = samples::capability_lists(&samples::families(), true, true, true, true);
            l
        }
    };
    bgp::Message::Open(bgp::Open { as_number: asn, holdtime: bgp::HoldTime::new(90).unwrap(), router_id: u32::from(id), capability })
}

struct Built {
    msgs: Vec<bmp::Message>,
    /// monitored content per message, for the comparison
    fam: Family,
    entries: Vec<packet::PathNlri>,
    attrs: Arc<Vec<packet::Attribute>>,
    nexthop: Option<bgp::Nexthop>,
    opens: Vec<(u32, u32)>,
    /// number of capabilities in each OPEN, when the case fixes it
    ncaps: Option<usize>,
    reason: u8,
}

fn build(c: &Case) -> Built {
    let fam = mc_family(&c.fam);
    let src = mc_source(&c.peer, &c.local);
    let mut b = Built { msgs: vec![], fam, entries: vec![], attrs: Arc::new(vec![]), nexthop: None, opens: vec![], ncaps: None, reason: 0 };
    match c.k.as_str() {
        "rm" => {
            b.entries = mc_entries(fam, &c.count, c.addpath);
            b.attrs = mc_attrs(&c.attrs);
            b.nexthop = if c.dir == "reach" { mc_nexthop(fam, &c.nh) } else { None };
            let reach = c.dir == "reach";
            match c.view.as_str() {
                "pre" | "post" => {
                    let flags = if c.view == "post" { bmp::Message::PEER_FLAG_POST_POLICY } else { 0 };
                    let change = AdjRibInChange {
                        source: src.clone(),
                        family: fam,
                        addpath: c.addpath,
                        nlris: b.entries.clone(),
                        attrs: if c.dir == "unreach" { None } else { Some(b.attrs.clone()) },
                        nexthop: b.nexthop,
                        timestamp: 1_700_000_000,
                    };
                    if c.dir == "eor" {
                        // the End-of-RIB marker closing a snapshot: the real flush_peer_snapshot, last message
                        let mut snap: SnapshotMap = FnvHashMap::default();
                        let mut ch = change;
                        ch.attrs = Some(mc_attrs("small"));
                        ch.nexthop = mc_nexthop(fam, "v4").or(ch.nexthop);
                        apply_snapshot(&mut snap, ch);
                        let hdr = bmp::PerPeerHeader::new(flags, src.remote_asn, Ipv4Addr::from(src.router_id), 0, src.remote_addr, 5);
                        let mut v = flush_peer_snapshot(&mut snap, src.remote_addr, &hdr, flags);
                        if let Some(last) = v.pop() {
                            b.msgs.push(last);
                        }
                    } else {
                        // live path (BmpClient::serve builds exactly this header around the real converter)
                        let update = adj_rib_in_to_bmp_update(&change);
                        b.msgs.push(bmp::Message::RouteMonitoring {
                            header: bmp::PerPeerHeader::new(flags, src.remote_asn, Ipv4Addr::from(src.router_id), 0, src.remote_addr, change.timestamp),
                            update,
                            addpath: c.addpath,
                        });
                    }
                }
                "out_pre" | "out_post" => {
                    let mut flags = bmp::Message::PEER_FLAG_ADJ_RIB_OUT;
                    if c.view == "out_post" {
                        flags |= bmp::Message::PEER_FLAG_POST_POLICY;
                    }
                    let change = AdjRibOutChange {
                        peer_addr: src.remote_addr,
                        peer_asn: src.remote_asn,
                        peer_id: src.router_id,
                        family: fam,
                        addpath: c.addpath,
                        nlri: b.entries[0].clone(),
                        attrs: if reach { Some(b.attrs.clone()) } else { None },
                        nexthop: b.nexthop,
                        timestamp: 1_700_000_000,
                    };
                    let update = if c.dir == "eor" { bgp::Message::eor(fam) } else { adj_rib_out_to_bmp_update(&change) };
                    b.msgs.push(bmp::Message::RouteMonitoring {
                        header: bmp::PerPeerHeader::new(flags, change.peer_asn, Ipv4Addr::from(change.peer_id), 0, change.peer_addr, change.timestamp),
                        update,
                        addpath: c.addpath,
                    });
                }
                _ => {
                    let change = LocRibChange {
                        family: fam,
                        net: b.entries[0].nlri.clone(),
                        attr: if reach { Some(b.attrs.clone()) } else { None },
                        nexthop: b.nexthop,
                        timestamp: 1_700_000_000,
                    };
                    if c.dir == "eor" {
                        let hdr = bmp::PerPeerHeader::new(0, LOCAL_ASN, ROUTER_ID, 0, IpAddr::V4(Ipv4Addr::UNSPECIFIED), 0).with_peer_type(bmp::Message::PEER_TYPE_LOC_RIB);
                        b.msgs.push(bmp::Message::RouteMonitoring { header: hdr, update: bgp::Message::eor(fam), addpath: false });
                    } else {
                        b.msgs.push(loc_rib_to_bmp(&change, ROUTER_ID, LOCAL_ASN));
                    }
                }
            }
        }
        "peerup" => {
            if c.x == "locrib" {
                b.msgs.push(loc_rib_peer_up(ROUTER_ID, LOCAL_ASN));
                b.opens = vec![(LOCAL_ASN, u32::from(ROUTER_ID)), (LOCAL_ASN, u32::from(ROUTER_ID))];
            } else {
                // a four-octet AS number in an OPEN needs the capability that carries it
                let src = if c.x == "nocaps" {
                    Arc::new(rustybgp_table::Source::new(src.remote_addr, src.local_addr, 65077, 65001, Ipv4Addr::from(src.router_id), rustybgp_table::PeerRole::Ebgp))
                } else {
                    src
                };
                let rid = Ipv4Addr::from(src.router_id);
                b.msgs.push(bmp::Message::PeerUp {
                    header: bmp::PerPeerHeader::new(0, src.remote_asn, rid, 0, src.remote_addr, 7),
                    local_addr: mc_addr(&c.local, 254),
                    local_port: 179,
                    remote_port: 40000,
                    local_open: open_msg(LOCAL_ASN, ROUTER_ID, &c.x),
                    remote_open: open_msg(src.remote_asn, rid, &c.x),
                });
                b.opens = vec![(LOCAL_ASN, u32::from(ROUTER_ID)), (src.remote_asn, src.router_id)];
                if let bgp::Message::Open(o) = open_msg(LOCAL_ASN, ROUTER_ID, &c.x) {
                    b.ncaps = Some(o.capability.len());
                }
            }
        }
        "peerdown" => {
            let notif = bgp::Message::Notification(bgp::Notification::CeaseAdminShutdown);
            let (reason, code) = match c.x.as_str() {
                "localnotif" => (session_down_to_bmp(Some(crate::fsm::SessionDownReason::LocalNotification(notif))), 1),
                "localfsm" => (session_down_to_bmp(Some(crate::fsm::SessionDownReason::HoldTimerExpired)), 2),
                "remotenotif" => (session_down_to_bmp(Some(crate::fsm::SessionDownReason::RemoteNotification(notif))), 3),
                "remoteunexpected" => (session_down_to_bmp(Some(crate::fsm::SessionDownReason::IoError)), 4),
                _ => (bmp::PeerDownReason::Deconfigured, 5),
            };
            b.reason = code;
            b.msgs.push(bmp::Message::PeerDown {
                header: bmp::PerPeerHeader::new(0, src.remote_asn, Ipv4Addr::from(src.router_id), 0, src.remote_addr, 9),
                reason,
            });
        }
        "initiation" => {
            let tlvs = match c.x.as_str() {
                "none" => vec![],
                "long" => vec![(bmp::Message::INFO_TYPE_SYSDESCR, vec![b'x'; 3000]), (bmp::Message::INFO_TYPE_SYSNAME, b"r1".to_vec())],
                _ => vec![(bmp::Message::INFO_TYPE_SYSDESCR, b"RustyBGP".to_vec()), (bmp::Message::INFO_TYPE_SYSNAME, b"r1".to_vec())],
            };
            b.msgs.push(bmp::Message::Initiation(tlvs));
        }
        x => panic!("harness: kind {x}"),
    }
    b
}

/// A Route Monitoring message of the same family with the OPPOSITE add-path setting: the history that would show if the
/// codec carried per-family state from one message into the next.
fn adverse(c: &Case) -> Option<bmp::Message> {
    if c.k != "rm" {
        return None;
    }
    let fam = mc_family(&c.fam);
    let src = mc_source(&c.peer, &c.local);
    let entries = mc_entries(fam, "one", !c.addpath);
    Some(bmp::Message::RouteMonitoring {
        header: bmp::PerPeerHeader::new(0, src.remote_asn, Ipv4Addr::from(src.router_id), 0, src.remote_addr, 1),
        update: bgp::Message::Update(bgp::Update::Reach { family: fam, entries, nexthop: mc_nexthop(fam, if fam == Family::IPV6 { "v6" } else { "v4" }), attr: mc_attrs("small") }),
        addpath: !c.addpath,
    })
}

fn observe(c: &Case, shared: &mut bmp::BmpCodec) -> reader::Obs {
    let built = match catch_unwind(AssertUnwindSafe(|| build(c))) {
        Ok(b) => b,
        Err(e) => return reader::Obs::failed("panic", &format!("converter: {}", panic_text(e))),
    };
    let mut codec = bmp::BmpCodec::new();
    let mut bufs: Vec<Vec<u8>> = Vec::new();
    let mut fresh_bytes: Vec<u8> = Vec::new();
    let mut shared_bytes: Vec<u8> = Vec::new();
    // the same messages through the long-lived codec of a BMP session, right after an adverse one
    let _ = catch_unwind(AssertUnwindSafe(|| {
        if let Some(a) = adverse(c) {
            let mut scratch = bytes::BytesMut::new();
            let _ = shared.encode(&a, &mut scratch);
        }
        for m in &built.msgs {
            let mut b = bytes::BytesMut::new();
            if shared.encode(m, &mut b).is_ok() {
                shared_bytes.extend_from_slice(&b);
            }
        }
    }));
    for m in &built.msgs {
        let mut buf = bytes::BytesMut::new();
        match catch_unwind(AssertUnwindSafe(|| codec.encode(m, &mut buf))) {
            Err(e) => return reader::Obs::failed("panic", &format!("BmpCodec::encode: {}", panic_text(e))),
            Ok(Err(e)) => return reader::Obs::failed("error", &format!("{e:?}")),
            Ok(Ok(())) => {
                fresh_bytes.extend_from_slice(&buf);
                // one monitored event may take several BMP messages: walk them by their length fields; they have to tile
                // what was written exactly
                let raw = buf.to_vec();
                let mut off = 0usize;
                while off < raw.len() {
                    let len = if raw.len() - off >= 6 { u32::from_be_bytes([raw[off + 1], raw[off + 2], raw[off + 3], raw[off + 4]]) as usize } else { 0 };
                    if len < 6 || off + len > raw.len() {
                        bufs.push(raw[off..].to_vec()); // the reader reports the inconsistent length
                        break;
                    }
                    bufs.push(raw[off..off + len].to_vec());
                    off += len;
                }
            }
        }
    }
    let mut o = reader::Obs::new();
    o.nrec = bufs.len();
    o.stateless = fresh_bytes == shared_bytes;
    let mut all_pdus: Vec<Vec<u8>> = Vec::new();
    let mut v_all = true;
    let mut v_any = false;
    let mut l_all = true;
    let mut l_any = false;
    let mut o_all = true;
    let mut o_any = false;
    for raw in &bufs {
        let r = match reader::read_bmp(raw) {
            Ok(r) => r,
            Err(e) => {
                if e.starts_with("LENGTH") {
                    o.lenok = false;
                } else {
                    o.parse = format!("error: {e}");
                }
                o.note = e;
                continue;
            }
        };
        reader::Obs::merge_i(&mut o.typ, r.typ as i64);
        if matches!(r.typ, 0 | 2 | 3) {
            reader::Obs::merge_i(&mut o.peertype, r.peer_type as i64);
            let v = r.flags & 0x80 != 0;
            v_all &= v;
            v_any |= v;
            l_all &= r.flags & 0x40 != 0;
            l_any |= r.flags & 0x40 != 0;
            o_all &= r.flags & 0x10 != 0;
            o_any |= r.flags & 0x10 != 0;
            // RFC 7854 4.2: an IPv4 address sits in the last four octets, the first twelve are zero
            let v4_shape = r.addr[..12].iter().all(|x| *x == 0);
            let want: [u8; 16] = if r.peer_type == 3 {
                [0; 16]
            } else {
                match mc_addr(&c.peer, 77) {
                    IpAddr::V4(a) => {
                        let mut x = [0u8; 16];
                        x[12..].copy_from_slice(&a.octets());
                        x
                    }
                    IpAddr::V6(a) => a.octets(),
                }
            };
            if (v && v4_shape && r.peer_type != 3) || (!v && !v4_shape) || r.addr != want {
                o.addrok = false;
            }
        }
        match r.typ {
            0 => {
                let (pdus, left) = reader::split_pdus(&r.body);
                o.minpdus = o.minpdus.min(pdus.len());
                o.maxpdus = o.maxpdus.max(pdus.len());
                o.leftover |= left;
                all_pdus.extend(pdus);
            }
            3 => {
                // local address (16), local port, remote port, sent OPEN, received OPEN, information TLVs
                if r.body.len() < 20 {
                    o.parse = "error: peer up body truncated".into();
                    continue;
                }
                let la = &r.body[..16];
                let want = match if r.peer_type == 3 { IpAddr::V4(Ipv4Addr::UNSPECIFIED) } else { mc_addr(&c.local, 254) } {
                    IpAddr::V4(a) => {
                        let mut x = [0u8; 16];
                        x[12..].copy_from_slice(&a.octets());
                        x
                    }
                    IpAddr::V6(a) => a.octets(),
                };
                if la != want {
                    o.content = "diff: local address".into();
                }
                // take exactly two PDUs, the rest must be information TLVs
                let (pdus, _) = reader::split_pdus(&r.body[20..]);
                let used: usize = pdus.iter().take(2).map(|p| p.len()).sum();
                let rest = &r.body[20 + used..];
                let mut off = 0;
                let mut tlv_ok = true;
                while off < rest.len() {
                    if off + 4 > rest.len() {
                        tlv_ok = false;
                        break;
                    }
                    let l = u16::from_be_bytes([rest[off + 2], rest[off + 3]]) as usize;
                    if off + 4 + l > rest.len() {
                        tlv_ok = false;
                        break;
                    }
                    off += 4 + l;
                }
                let n = pdus.len().min(2) + if pdus.len() > 2 { pdus.len() - 2 } else { 0 };
                o.minpdus = o.minpdus.min(n);
                o.maxpdus = o.maxpdus.max(n);
                o.leftover |= !tlv_ok && pdus.len() <= 2;
                if pdus.iter().any(|p| p[18] != 1) {
                    o.parse = "error: a Peer Up PDU is not an OPEN".into();
                }
                all_pdus.extend(pdus.into_iter().take(2));
            }
            2 => {
                if r.body.is_empty() {
                    o.parse = "error: peer down without a reason".into();
                    continue;
                }
                let reason = r.body[0];
                let data = &r.body[1..];
                let ok = match reason {
                    1 | 3 => {
                        let (pdus, left) = reader::split_pdus(data);
                        let good = pdus.len() == 1 && !left && pdus[0][18] == 3;
                        all_pdus.extend(pdus);
                        good
                    }
                    2 => data.len() == 2,
                    4 | 5 => data.is_empty(),
                    _ => false,
                };
                if !ok {
                    o.parse = format!("error: peer down reason {reason} with {} data bytes", data.len());
                }
                if reason != built.reason {
                    o.content = format!("diff: reason {} expected, {} found", built.reason, reason);
                }
            }
            4 => {
                let mut off = 0;
                let mut n = 0;
                while off < r.body.len() {
                    if off + 4 > r.body.len() {
                        o.parse = "error: initiation TLV header truncated".into();
                        break;
                    }
                    let l = u16::from_be_bytes([r.body[off + 2], r.body[off + 3]]) as usize;
                    if off + 4 + l > r.body.len() {
                        o.parse = "error: initiation TLV overruns".into();
                        break;
                    }
                    off += 4 + l;
                    n += 1;
                }
                let want = match c.x.as_str() {
                    "none" => 0,
                    _ => 2,
                };
                if n != want {
                    o.content = format!("diff: {want} TLVs expected, {n} found");
                }
            }
            _ => {}
        }
    }
    o.v = v_all && v_any;
    if v_any != v_all {
        o.addrok = false;
    }
    o.l = l_all && l_any;
    o.o = o_all && o_any;
    if (l_any != l_all) || (o_any != o_all) {
        o.l = !l_all; // mixed flags across the records of one event: force a mismatch
    }
    if o.parse == "ok" && !all_pdus.is_empty() {
        match mc_decode(&all_pdus, c.addpath) {
            Err(e) => o.parse = format!("error: {e}"),
            Ok(d) => {
                if c.k == "rm" {
                    let cmp = mc_compare(&d, &c.dir, built.fam, &built.entries, &built.attrs, built.nexthop);
                    if o.content == "same" {
                        o.content = cmp;
                    }
                } else if c.k == "peerup" {
                    let got: Vec<(u32, u32)> = d.opens.iter().map(|x| (x.0, x.1)).collect();
                    if got != built.opens && o.content == "same" {
                        o.content = format!("diff: OPENs (asn, id) {:?} expected in the order sent, received; found {:?}", built.opens, got);
                    }
                    if let Some(n) = built.ncaps
                        && d.opens.iter().any(|x| x.3 != n)
                        && o.content == "same"
                    {
                        o.content = format!("diff: OPENs with {n} capabilities each monitored, found {:?}", d.opens.iter().map(|x| x.3).collect::<Vec<_>>());
                    }
                } else if c.k == "peerdown" && d.notifications != 1 {
                    o.parse = "error: the peer down data is not a NOTIFICATION".into();
                }
            }
        }
    }
    o
}

#[test]
fn c19_bmp_records() {
    let inp = std::env::var("VERIF_IN").expect("VERIF_IN");
    let outp = std::env::var("VERIF_OUT").expect("VERIF_OUT");
    let mut out = std::io::BufWriter::new(std::fs::File::create(outp).unwrap());
    let hook = std::panic::take_hook();
    std::panic::set_hook(Box::new(|_| {}));
    let mut shared = bmp::BmpCodec::new();
    for line in std::io::BufReader::new(std::fs::File::open(inp).unwrap()).lines() {
        let line = line.unwrap();
        let Some(c) = parse_case(&line) else { continue };
        if !matches!(c.k.as_str(), "rm" | "peerup" | "peerdown" | "initiation") || c.x == "established" {
            continue;
        }
        let o = observe(&c, &mut shared);
        writeln!(out, "{{\"i\":{},\"obs\":{}}}", c.i, o.to_json()).unwrap();
    }
    std::panic::set_hook(hook);
}

/// The real BmpClient::serve on `stream` (used by the session harness in event.rs).
pub(crate) fn serve_for_test(
    stream: TcpStream,
    cancel: CancellationToken,
    global: GlobalHandle,
    tables: TableHandle,
    policy: &str,
) -> tokio::task::JoinHandle<()> {
    let policy = match policy {
        "pre" => BmpPolicy::Pre,
        "post" => BmpPolicy::Post,
        "both" => BmpPolicy::Both,
        "local" => BmpPolicy::Local,
        _ => BmpPolicy::All,
    };
    tokio::spawn(BmpClient::serve(stream, cancel, global, tables, policy))
}

// ------------------------------------------------------------------------------------------------
// C18: the BMP client is one of the daemon's real monitoring subscribers.  Its fold of the snapshot phase
// (`apply_snapshot`, private to this module) is exposed to the subscribe replay of the table_manager harness, which feeds it
// the very events a subscriber received before EndOfSnapshot.
// ------------------------------------------------------------------------------------------------
pub(crate) struct SnapFold {
    pre: SnapshotMap,
    post: SnapshotMap,
}

impl SnapFold {
    pub(crate) fn new() -> Self {
        SnapFold { pre: SnapshotMap::default(), post: SnapshotMap::default() }
    }

    pub(crate) fn apply(&mut self, post: bool, change: crate::table_manager::AdjRibInChange) {
        apply_snapshot(if post { &mut self.post } else { &mut self.pre }, change);
    }

    /// (peer, nlri, attributes) of everything the snapshot holds
    pub(crate) fn contents(&self, post: bool) -> Vec<(IpAddr, packet::Nlri, Arc<Vec<packet::Attribute>>)> {
        let m = if post { &self.post } else { &self.pre };
        let mut v = Vec::new();
        for (peer, routes) in m {
            for ((_, n), c) in routes {
                if let Some(a) = &c.attrs {
                    v.push((*peer, n.nlri.clone(), a.clone()));
                }
            }
        }
        v
    }
}
