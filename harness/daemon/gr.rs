// Included into daemon/src/gr.rs as `mod verif_harness` (guard: cfg osrg_rustybgp_verif).
// Replays model operation sequences on the two pure GR machines:
//   * RestartingDeferral (spec Deferral.tla, property C11)
//   * GrState            (spec GrHelper.tla, property C10)
//
// Input (env VERIF_IN): lines
//   dseq <id> <peer>=<fam,fam|-> ...        new RestartingDeferral from that configuration
//   d est <peer> <fam,fam|->  |  d eor <peer> <fam>  |  d withdrawn <peer>  |  d timer
//   gseq <id>                               new GrState
//   g drop <grfams|-> <llgrfams|->  |  g est <fams|->  |  g eor <fam>  |  g timer  |  g llgrtimer <fam>
// Output (env VERIF_OUT): one JSON object per op line.

use super::*;
use std::fmt::Write as _;
use std::io::Write as _;

pub(crate) fn fam(s: &str) -> Family {
    match s {
        "v4" => Family::IPV4,
        "v6" => Family::IPV6,
        "vpn4" => Family::IPV4_VPN,
        x => panic!("harness: family {x}"),
    }
}

pub(crate) fn fam_name(f: Family) -> &'static str {
    if f == Family::IPV4 {
        "v4"
    } else if f == Family::IPV6 {
        "v6"
    } else if f == Family::IPV4_VPN {
        "vpn4"
    } else {
        "?"
    }
}

pub(crate) fn fams(s: &str) -> Vec<Family> {
    if s == "-" { vec![] } else { s.split(',').map(fam).collect() }
}

fn peer_addr(s: &str) -> IpAddr {
    let n = (s.as_bytes()[0] - b'A' + 1) as u8;
    IpAddr::V4(std::net::Ipv4Addr::new(10, 0, 0, n))
}

fn peer_name(a: &IpAddr) -> String {
    match a {
        IpAddr::V4(v) => ((b'A' + v.octets()[3] - 1) as char).to_string(),
        _ => "?".into(),
    }
}

fn jlist(mut v: Vec<String>) -> String {
    v.sort();
    format!("[{}]", v.iter().map(|x| format!("\"{}\"", x)).collect::<Vec<_>>().join(","))
}

fn famset<'a, I: Iterator<Item = &'a Family>>(it: I) -> String {
    jlist(it.map(|f| fam_name(*f).to_string()).collect())
}

fn proj_deferral(d: &RestartingDeferral, peers: &[String]) -> String {
    let (st, pending): (&str, Option<&FnvHashMap<IpAddr, FnvHashSet<Family>>>) = match &d.state {
        RestartingInner::AwaitingStart { pending, .. } => ("Awaiting", Some(pending)),
        RestartingInner::Deferring { pending } => ("Deferring", Some(pending)),
        RestartingInner::Completed => ("Completed", None),
    };
    let mut parts = Vec::new();
    for p in peers {
        let set = pending.and_then(|m| m.get(&peer_addr(p)));
        let s = match set {
            Some(s) => famset(s.iter()),
            None => "[]".to_string(),
        };
        parts.push(format!("\"{}\":{}", p, s));
    }
    format!("{{\"st\":\"{}\",\"pending\":{{{}}}}}", st, parts.join(","))
}

/// Projection of the deferral machine for a caller that names the peers itself (the C11 glue replay in event.rs).
pub(crate) fn proj_deferral_named(d: &RestartingDeferral, peers: &[(String, IpAddr)]) -> String {
    let (st, pending): (&str, Option<&FnvHashMap<IpAddr, FnvHashSet<Family>>>) = match &d.state {
        RestartingInner::AwaitingStart { pending, .. } => ("Awaiting", Some(pending)),
        RestartingInner::Deferring { pending } => ("Deferring", Some(pending)),
        RestartingInner::Completed => ("Completed", None),
    };
    let mut parts = Vec::new();
    for (name, addr) in peers {
        let s = match pending.and_then(|m| m.get(addr)) {
            Some(s) => famset(s.iter()),
            None => "[]".to_string(),
        };
        parts.push(format!("\"{}\":{}", name, s));
    }
    format!("{{\"st\":\"{}\",\"pending\":{{{}}}}}", st, parts.join(","))
}

fn proj_rout(outs: &[RestartingOutput]) -> String {
    let mut complete = Vec::new();
    let mut start = false;
    let mut end = false;
    let mut rest = Vec::new();
    let mut defer = Vec::new();
    for o in outs {
        match o {
            RestartingOutput::DeferFamilies(f) => defer.extend(f.iter().map(|x| fam_name(*x).to_string())),
            RestartingOutput::StartDeferralTimer(_) => start = true,
            RestartingOutput::FamilyDeferralComplete(f) => complete.push(fam_name(*f).to_string()),
            RestartingOutput::EndDeferral(r) => {
                end = true;
                rest.extend(r.iter().map(|x| fam_name(*x).to_string()));
            }
        }
    }
    format!(
        "{{\"complete\":{},\"start\":{},\"end\":{},\"rest\":{},\"defer\":{}}}",
        jlist(complete),
        start,
        end,
        jlist(rest),
        jlist(defer)
    )
}

pub(crate) fn gr_variant(g: &GrState) -> &'static str {
    match &g.state {
        Inner::Idle => "Idle",
        Inner::PeerRestarting { .. } => "PeerRestarting",
        Inner::LlgrStaling { .. } => "LlgrStaling",
        Inner::PeerReconnected { .. } => "PeerReconnected",
    }
}

pub(crate) fn proj_gr(g: &GrState) -> String {
    match &g.state {
        Inner::Idle => "{\"st\":\"Idle\",\"fams\":[],\"llgr\":[],\"from_llgr\":false}".to_string(),
        Inner::PeerRestarting { stale_families, llgr } => format!(
            "{{\"st\":\"PeerRestarting\",\"fams\":{},\"llgr\":{},\"from_llgr\":false}}",
            famset(stale_families.iter()),
            match llgr {
                Some(l) => jlist(l.families.iter().map(|(f, _)| fam_name(*f).to_string()).collect()),
                None => "[]".into(),
            }
        ),
        Inner::LlgrStaling { remaining } => format!(
            "{{\"st\":\"LlgrStaling\",\"fams\":{},\"llgr\":[],\"from_llgr\":false}}",
            famset(remaining.iter())
        ),
        Inner::PeerReconnected { pending, from_llgr } => format!(
            "{{\"st\":\"PeerReconnected\",\"fams\":{},\"llgr\":[],\"from_llgr\":{}}}",
            famset(pending.iter()),
            from_llgr
        ),
    }
}

fn proj_gout(outs: &[GrOutput]) -> String {
    let mut v = Vec::new();
    for o in outs {
        v.push(match o {
            GrOutput::StartTimer(_) => "{\"t\":\"start_timer\",\"f\":[]}".to_string(),
            GrOutput::StopTimer => "{\"t\":\"stop_timer\",\"f\":[]}".to_string(),
            GrOutput::DeleteStaleRoutes(f) => format!("{{\"t\":\"delete_stale\",\"f\":{}}}", famset(f.iter())),
            GrOutput::StartLlgrTimers(f) => format!(
                "{{\"t\":\"start_llgr\",\"f\":{}}}",
                jlist(f.iter().map(|(x, _)| fam_name(*x).to_string()).collect())
            ),
            GrOutput::StopLlgrTimers => "{\"t\":\"stop_llgr\",\"f\":[]}".to_string(),
            GrOutput::DeleteLlgrStaleRoutes(f) => format!("{{\"t\":\"delete_llgr\",\"f\":{}}}", famset(f.iter())),
        });
    }
    format!("[{}]", v.join(","))
}

#[test]
fn replay() {
    let Ok(inp) = std::env::var("VERIF_IN") else {
        return;
    };
    let outp = std::env::var("VERIF_OUT").expect("VERIF_OUT");
    let text = std::fs::read_to_string(&inp).expect("read VERIF_IN");
    let mut out = std::io::BufWriter::new(std::fs::File::create(&outp).expect("create VERIF_OUT"));
    let mut def: Option<RestartingDeferral> = None;
    let mut peers: Vec<String> = Vec::new();
    let mut gr: Option<GrState> = None;
    let mut seq = String::new();
    let mut step = 0usize;
    for line in text.lines() {
        let tok: Vec<&str> = line.split_whitespace().collect();
        if tok.is_empty() {
            continue;
        }
        let mut rec = String::new();
        match tok[0] {
            "dseq" => {
                seq = tok[1].to_string();
                step = 0;
                peers.clear();
                let mut cfg: FnvHashMap<IpAddr, Vec<Family>> = FnvHashMap::default();
                for kv in &tok[2..] {
                    let (p, f) = kv.split_once('=').unwrap();
                    peers.push(p.to_string());
                    cfg.insert(peer_addr(p), fams(f));
                }
                let (d, outs) = RestartingDeferral::new(cfg, Some(Duration::from_secs(360)));
                write!(
                    rec,
                    "{{\"seq\":\"{}\",\"step\":0,\"state\":{},\"obs\":{}}}",
                    seq,
                    proj_deferral(&d, &peers),
                    proj_rout(&outs)
                )
                .unwrap();
                def = Some(d);
            }
            "d" => {
                step += 1;
                let d = def.as_mut().unwrap();
                let input = match tok[1] {
                    "est" => RestartingInput::PeerEstablished(peer_addr(tok[2]), fams(tok[3])),
                    "eor" => RestartingInput::EorReceived(peer_addr(tok[2]), fam(tok[3])),
                    "withdrawn" => RestartingInput::PeerWithdrawn(peer_addr(tok[2])),
                    "timer" => RestartingInput::TimerExpired,
                    x => panic!("harness: op {x}"),
                };
                let outs = d.process(input);
                write!(
                    rec,
                    "{{\"seq\":\"{}\",\"step\":{},\"state\":{},\"obs\":{}}}",
                    seq,
                    step,
                    proj_deferral(d, &peers),
                    proj_rout(&outs)
                )
                .unwrap();
            }
            "gseq" => {
                seq = tok[1].to_string();
                step = 0;
                gr = Some(GrState::new());
                continue;
            }
            "g" => {
                step += 1;
                let g = gr.as_mut().unwrap();
                let input = match tok[1] {
                    "drop" => {
                        let gf = fams(tok[2]);
                        let lf = fams(tok[3]);
                        GrInput::SessionDropped {
                            gr: if tok[2] == "-" {
                                None
                            } else {
                                Some(GrParams { families: gf, restart_time: Duration::from_secs(120) })
                            },
                            llgr: if tok[3] == "-" {
                                None
                            } else {
                                Some(LlgrParams {
                                    families: lf.into_iter().map(|f| (f, Duration::from_secs(3600))).collect(),
                                })
                            },
                        }
                    }
                    "est" => GrInput::SessionEstablished { gr_families: fams(tok[2]) },
                    "eor" => GrInput::EorReceived(fam(tok[2])),
                    "timer" => GrInput::TimerExpired,
                    "llgrtimer" => GrInput::LlgrTimerExpired(fam(tok[2])),
                    x => panic!("harness: op {x}"),
                };
                let outs = g.process(input);
                write!(
                    rec,
                    "{{\"seq\":\"{}\",\"step\":{},\"state\":{},\"obs\":{},\"restarting\":{}}}",
                    seq,
                    step,
                    proj_gr(g),
                    proj_gout(&outs),
                    g.is_peer_restarting()
                )
                .unwrap();
            }
            x => panic!("harness: line kind {x}"),
        }
        let _ = peer_name;
        writeln!(out, "{}", rec).unwrap();
    }
    out.flush().unwrap();
}
