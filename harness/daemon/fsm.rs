// Included into daemon/src/fsm.rs as `mod verif_harness` (guard: cfg osrg_rustybgp_verif).
// Replays operation sequences produced from the TLA+ model PeerFsm/HoldTimer against the
// real `PeerFsm` and prints, per step, the projection of the real state and the real outputs.
//
// Input  (env VERIF_IN):  lines
//     seq <id> <local_id> <local_hold> <expected_asn>
//     <role A|P> connected
//     <role> open <asn> <rid> <hold>
//     <role> keepalive|update|notification|refresh|katimer|holdtimer|disconnected|admin|updatesent
// Output (env VERIF_OUT): one JSON object per op line.

use super::*;
use std::fmt::Write as _;
use std::io::Write as _;

fn st_name(s: State) -> &'static str {
    match s {
        State::Idle => "Idle",
        State::Connect => "Connect",
        State::Active => "Active",
        State::OpenSent => "OpenSent",
        State::OpenConfirm => "OpenConfirm",
        State::Established => "Established",
    }
}

fn proj_conn(c: Option<&Connection>) -> String {
    match c {
        None => "{\"st\":\"None\",\"rid\":0,\"hold\":0,\"ka\":0}".to_string(),
        Some(c) => format!(
            "{{\"st\":\"{}\",\"rid\":{},\"hold\":{},\"ka\":{}}}",
            st_name(c.state),
            c.remote_id,
            c.negotiated_holdtime,
            c.keepalive_interval
        ),
    }
}

pub(crate) fn proj(f: &PeerFsm) -> String {
    format!(
        "{{\"A\":{},\"P\":{}}}",
        proj_conn(f.active.as_ref()),
        proj_conn(f.passive.as_ref())
    )
}

fn notif_code(m: &bgp::Message) -> u32 {
    match m {
        bgp::Message::Notification(n) => {
            (n.notification_code() as u32) * 256 + n.notification_subcode() as u32
        }
        _ => 0,
    }
}

fn role_name(r: Role) -> &'static str {
    match r {
        Role::Active => "A",
        Role::Passive => "P",
    }
}

fn o(r: &str, t: &str, v: u64, n: u32) -> String {
    format!("{{\"r\":\"{}\",\"t\":\"{}\",\"v\":{},\"n\":{}}}", r, t, v, n)
}

pub(crate) fn proj_out(outs: &[PeerFsmOutput]) -> String {
    let mut v = Vec::new();
    for out in outs {
        match out {
            PeerFsmOutput::CloseConnection => v.push(o("-", "close", 0, 0)),
            PeerFsmOutput::StopActiveConnect => v.push(o("-", "stop_active", 0, 0)),
            PeerFsmOutput::Connection(role, out) => {
                let r = role_name(*role);
                v.push(match out {
                    Output::SendMessage(bgp::Message::Open(op)) => {
                        o(r, "send_open", op.holdtime.seconds() as u64, 0)
                    }
                    Output::SendMessage(bgp::Message::Keepalive) => o(r, "send_keepalive", 0, 0),
                    Output::SendMessage(m @ bgp::Message::Notification(_)) => {
                        o(r, "send_notif", 0, notif_code(m))
                    }
                    Output::SendMessage(_) => o(r, "send_other", 0, 0),
                    Output::SetKeepaliveTimer(s) => o(r, "setka", *s, 0),
                    Output::SetHoldTimer(s) => o(r, "sethold", *s, 0),
                    Output::SessionNegotiated(_) => o(r, "negotiated", 0, 0),
                    Output::SessionEstablished { .. } => o(r, "established", 0, 0),
                    Output::SessionDown(reason, notif) => {
                        let rc = match reason {
                            SessionDownReason::HoldTimerExpired => 1,
                            SessionDownReason::RemoteNotification(_) => 2,
                            SessionDownReason::LocalNotification(_) => 3,
                            SessionDownReason::FsmError => 4,
                            SessionDownReason::AdminShutdown => 5,
                            SessionDownReason::IoError => 6,
                        };
                        o(r, "down", rc, notif.as_ref().map(notif_code).unwrap_or(0))
                    }
                    Output::StateChanged(s) => o(r, "state", u8::from(*s) as u64, 0),
                    Output::RouteRefresh(_) => o(r, "refresh", 0, 0),
                });
            }
        }
    }
    format!("[{}]", v.join(","))
}

pub(crate) fn parse_role(s: &str) -> Role {
    if s == "A" { Role::Active } else { Role::Passive }
}

pub(crate) fn parse_input(tok: &[&str]) -> Input {
    match tok[1] {
        "connected" => Input::Connected(false),
        "open" => {
            let asn: u32 = tok[2].parse().unwrap();
            let rid: u32 = tok[3].parse().unwrap();
            let hold: u16 = tok[4].parse().unwrap();
            Input::MessageReceived(bgp::Message::Open(bgp::Open {
                as_number: asn,
                holdtime: HoldTime::new(hold).expect("harness: hold time 1|2 never reaches the FSM"),
                router_id: rid,
                capability: vec![
                    Capability::MultiProtocol(Family::IPV4),
                    Capability::FourOctetAsNumber(asn),
                ],
            }))
        }
        "keepalive" => Input::MessageReceived(bgp::Message::Keepalive),
        "update" => Input::MessageReceived(bgp::Message::Update(bgp::Update::EndOfRib(
            Family::IPV4,
        ))),
        "notification" => Input::MessageReceived(bgp::Message::Notification(
            rustybgp_packet::Notification::CeaseAdministrativeReset,
        )),
        "refresh" => Input::MessageReceived(bgp::Message::RouteRefresh {
            family: Family::IPV4,
        }),
        "katimer" => Input::KeepaliveTimerExpired,
        "holdtimer" => Input::HoldTimerExpired,
        "disconnected" => Input::Disconnected,
        "admin" => Input::AdminShutdown,
        "updatesent" => Input::UpdateSent,
        x => panic!("harness: unknown op {x}"),
    }
}

pub(crate) fn new_fsm(local_id: u32, local_hold: u64, expected_asn: u32) -> PeerFsm {
    PeerFsm::new(
        local_id,
        65001,
        vec![Capability::MultiProtocol(Family::IPV4)],
        local_hold,
        expected_asn,
        FnvHashMap::default(),
    )
}

#[test]
fn replay() {
    let Ok(inp) = std::env::var("VERIF_IN") else {
        return;
    };
    let outp = std::env::var("VERIF_OUT").expect("VERIF_OUT");
    let text = std::fs::read_to_string(&inp).expect("read VERIF_IN");
    let mut out = std::io::BufWriter::new(std::fs::File::create(&outp).expect("create VERIF_OUT"));
    let mut fsm: Option<PeerFsm> = None;
    let mut seq = String::new();
    let mut step = 0usize;
    let mut dead = false;
    for line in text.lines() {
        let tok: Vec<&str> = line.split_whitespace().collect();
        if tok.is_empty() {
            continue;
        }
        if tok[0] == "seq" {
            seq = tok[1].to_string();
            fsm = Some(new_fsm(
                tok[2].parse().unwrap(),
                tok[3].parse().unwrap(),
                tok[4].parse().unwrap(),
            ));
            step = 0;
            dead = false;
            continue;
        }
        step += 1;
        if dead {
            continue;
        }
        let role = parse_role(tok[0]);
        let input = parse_input(&tok);
        let f = fsm.as_mut().unwrap();
        let res = std::panic::catch_unwind(std::panic::AssertUnwindSafe(|| f.process(role, input)));
        let mut line = String::new();
        match res {
            Ok(outs) => {
                write!(
                    line,
                    "{{\"seq\":\"{}\",\"step\":{},\"state\":{},\"obs\":{}}}",
                    seq,
                    step,
                    proj(f),
                    proj_out(&outs)
                )
                .unwrap();
            }
            Err(_) => {
                write!(line, "{{\"seq\":\"{}\",\"step\":{},\"panic\":true}}", seq, step).unwrap();
                dead = true;
            }
        }
        writeln!(out, "{}", line).unwrap();
    }
    out.flush().unwrap();
}

// ---- implementation -> specification: seeded random driver, one record per call ----
struct Lcg(u64);
impl Lcg {
    fn next(&mut self) -> u64 {
        self.0 = self.0.wrapping_mul(6364136223846793005).wrapping_add(1442695040888963407);
        self.0 >> 33
    }
    fn below(&mut self, n: u64) -> u64 {
        self.next() % n
    }
}

#[test]
fn random() {
    let Ok(outp) = std::env::var("VERIF_OUT") else {
        return;
    };
    if std::env::var("VERIF_IN").is_ok() {
        return;
    }
    let seed: u64 = std::env::var("VERIF_SEED").ok().and_then(|s| s.parse().ok()).unwrap_or(0);
    let nseq: usize = std::env::var("VERIF_NSEQ").ok().and_then(|s| s.parse().ok()).unwrap_or(50);
    let len: usize = std::env::var("VERIF_LEN").ok().and_then(|s| s.parse().ok()).unwrap_or(200);
    let rids: Vec<u32> = std::env::var("VERIF_RIDS")
        .expect("VERIF_RIDS")
        .split(',')
        .map(|x| x.parse().unwrap())
        .collect();
    let holds: Vec<u16> = std::env::var("VERIF_HOLDS")
        .expect("VERIF_HOLDS")
        .split(',')
        .map(|x| x.parse().unwrap())
        .collect();
    let local_id: u32 = std::env::var("VERIF_LOCAL_ID").unwrap().parse().unwrap();
    let local_hold: u64 = std::env::var("VERIF_LOCAL_HOLD").unwrap().parse().unwrap();
    let mut out = std::io::BufWriter::new(std::fs::File::create(&outp).unwrap());
    let mut rng = Lcg(seed.wrapping_mul(0x9E3779B97F4A7C15) ^ 0xD1B54A32D192ED03);
    let kinds = [
        "keepalive", "update", "notification", "refresh", "katimer", "holdtimer", "disconnected",
        "admin", "updatesent",
    ];
    for s in 0..nseq {
        let mut f = new_fsm(local_id, local_hold, 65002);
        for step in 1..=len {
            let role = if rng.below(2) == 0 { "A" } else { "P" };
            let st = f.state(parse_role(role));
            // half of the time push the connection forward, otherwise anything
            let line = if rng.below(2) == 0 {
                match st {
                    State::OpenSent => format!(
                        "{role} open 65002 {} {}",
                        rids[rng.below(rids.len() as u64) as usize],
                        holds[rng.below(holds.len() as u64) as usize]
                    ),
                    State::OpenConfirm => format!("{role} keepalive"),
                    State::Established => {
                        format!("{role} {}", ["keepalive", "update", "updatesent", "katimer"][rng.below(4) as usize])
                    }
                    _ => format!("{role} connected"),
                }
            } else {
                match rng.below(12) {
                    0 => format!("{role} connected"),
                    1 | 2 => format!(
                        "{role} open {} {} {}",
                        if rng.below(4) == 0 { 65099 } else { 65002 },
                        rids[rng.below(rids.len() as u64) as usize],
                        holds[rng.below(holds.len() as u64) as usize]
                    ),
                    _ => format!("{role} {}", kinds[rng.below(kinds.len() as u64) as usize]),
                }
            };
            let tok: Vec<&str> = line.split_whitespace().collect();
            let outs = f.process(parse_role(tok[0]), parse_input(&tok));
            writeln!(
                out,
                "{{\"seq\":\"{}\",\"step\":{},\"opline\":\"{}\",\"state\":{},\"obs\":{}}}",
                s,
                step,
                line,
                proj(&f),
                proj_out(&outs)
            )
            .unwrap();
        }
    }
    out.flush().unwrap();
}
