// Included into daemon/src/convert.rs as `mod verif_harness` (guard: cfg osrg_rustybgp_verif).
//
// C17, value half.  Three tests, all driven by files named in the environment:
//
//   c17_cases      VERIF_IN: one API input case per line, tab separated, as concretised by checks/C17.py from the
//                  cases TLC printed for spec/ApiValue/ApiValue.tla
//                      A <i> <kind> <a> <b> <t:n,t:n,...>        attribute case
//                      N <i> <kind> <family> <a> <b>             NLRI case
//                  VERIF_OUT: one JSON object per case: what attr_from_api / net_from_api did, the projection of
//                  the accepted value, and whether it survives display (round trip), the wire and use.
//   c17_roundtrip  VERIF_OUT: every sample value and every value decoded from the wire goes to its API form and back.
//
// A panic in the code under test is caught and reported as data.
#[allow(unused_imports)]
use super::*;
use std::io::{BufRead, Write as _};
use std::panic::{AssertUnwindSafe, catch_unwind};
use std::sync::Arc;

use rustybgp_packet::bgp;
use rustybgp_table as table;

#[allow(dead_code)]
mod samples {
    include!(concat!(env!("OSRG_RUSTYBGP_VERIF_DIR"), "/../lib/src/samples.rs"));
}

fn esc(s: &str) -> String {
    let mut o = String::new();
    for ch in s.chars() {
        match ch {
            '"' => o.push_str("\\\""),
            '\\' => o.push_str("\\\\"),
            '\n' => o.push_str("\\n"),
            c if (c as u32) < 0x20 => o.push(' '),
            c => o.push(c),
        }
    }
    o
}

fn panic_msg(e: Box<dyn std::any::Any + Send>) -> String {
    if let Some(s) = e.downcast_ref::<&str>() {
        s.to_string()
    } else if let Some(s) = e.downcast_ref::<String>() {
        s.clone()
    } else {
        "panic".to_string()
    }
}

// ------------------------------------------------------------------------------------------ concretisation

fn addr(tag: &str) -> String {
    match tag {
        "v4" => "192.0.2.1",
        "v6" => "2001:db8::1",
        "empty" => "",
        "garbage" => "not-an-address",
        "v4space" => " 192.0.2.1",
        "v4mapped" => "::ffff:192.0.2.1",
        x => panic!("harness: addr tag {x}"),
    }
    .to_string()
}

fn num(tag: &str) -> u32 {
    match tag {
        "u32max" => u32::MAX,
        x => x.parse().unwrap_or_else(|_| panic!("harness: num tag {x}")),
    }
}

fn wrap(a: api::attribute::Attr) -> api::Attribute {
    api::Attribute { attr: Some(a) }
}

fn ext(kind: &str, fault: &str) -> api::ExtendedCommunity {
    use api::extended_community::Extcom as E;
    let sub = if fault == "subtype256" { 256 } else { 2 };
    let asn = if fault == "asn65536" { 65536 } else { 65001 };
    let admin16 = if fault == "admin65536" { 65536 } else { 77 };
    let a4 = if fault == "badaddr" { "300.1.1.1".to_string() } else { "192.0.2.7".to_string() };
    let e = match kind {
        "twoas" => E::TwoOctetAsSpecific(api::TwoOctetAsSpecificExtended {
            is_transitive: true,
            sub_type: sub,
            asn,
            local_admin: if fault == "admin65536" { 65536 } else { 100 },
        }),
        "ipv4" => E::Ipv4AddressSpecific(api::IPv4AddressSpecificExtended {
            is_transitive: true,
            sub_type: sub,
            address: a4,
            local_admin: admin16,
        }),
        "fouras" => E::FourOctetAsSpecific(api::FourOctetAsSpecificExtended {
            is_transitive: false,
            sub_type: sub,
            asn: 4_200_000_001,
            local_admin: admin16,
        }),
        "mup" => E::Mup(api::MupExtended { sub_type: if fault == "subtype256" { 256 } else { 0 }, segment_id2: admin16, segment_id4: 9 }),
        "unknown" => E::Unknown(api::UnknownExtended {
            r#type: 0x43,
            value: match fault {
                "len7" => vec![0x43, 1, 2, 3, 4, 5, 6],
                "len9" => vec![0x43, 1, 2, 3, 4, 5, 6, 7, 8],
                _ => vec![0x43, 1, 2, 3, 4, 5, 6, 7],
            },
        }),
        "rate" => E::TrafficRate(api::TrafficRateExtended { asn, rate: 1000.0 }),
        "action" => E::TrafficAction(api::TrafficActionExtended { terminal: true, sample: false }),
        "redirect2" => E::RedirectTwoOctetAsSpecific(api::RedirectTwoOctetAsSpecificExtended { asn, local_admin: 5 }),
        "remark" => E::TrafficRemark(api::TrafficRemarkExtended { dscp: 46 }),
        "redirect4addr" => E::RedirectIpv4AddressSpecific(api::RedirectIPv4AddressSpecificExtended { address: a4, local_admin: admin16 }),
        "redirect4as" => E::RedirectFourOctetAsSpecific(api::RedirectFourOctetAsSpecificExtended { asn: 4_200_000_001, local_admin: admin16 }),
        "unsupported" => E::Color(api::ColorExtended { color: 7 }),
        "none" => return api::ExtendedCommunity { extcom: None },
        x => panic!("harness: ext kind {x}"),
    };
    api::ExtendedCommunity { extcom: Some(e) }
}

fn build_attr(kind: &str, a: &str, b: &str, segs: &[(u32, u32)]) -> api::Attribute {
    use api::attribute::Attr as A;
    match kind {
        "origin" => wrap(A::Origin(api::OriginAttribute { origin: num(a) })),
        "aspath" => wrap(A::AsPath(api::AsPathAttribute {
            segments: segs
                .iter()
                .map(|(t, n)| api::AsSegment { r#type: *t as i32, numbers: (0..*n).map(|i| 65001 + i).collect() })
                .collect(),
        })),
        "nexthop" => wrap(A::NextHop(api::NextHopAttribute { next_hop: addr(a) })),
        "med" => wrap(A::MultiExitDisc(api::MultiExitDiscAttribute { med: num(a) })),
        "localpref" => wrap(A::LocalPref(api::LocalPrefAttribute { local_pref: num(a) })),
        "atomic" => wrap(A::AtomicAggregate(api::AtomicAggregateAttribute {})),
        "aggregator" => wrap(A::Aggregator(api::AggregatorAttribute { asn: num(a), address: addr(b) })),
        "communities" => wrap(A::Communities(api::CommunitiesAttribute { communities: (0..num(a)).map(|i| (65001 << 16) | i).collect() })),
        "originator" => wrap(A::OriginatorId(api::OriginatorIdAttribute { id: addr(a) })),
        "clusterlist" => {
            let n = num(a);
            let ids = (0..n).map(|i| if i + 1 == n { addr(b) } else { "192.0.2.200".to_string() }).collect();
            wrap(A::ClusterList(api::ClusterListAttribute { ids }))
        }
        "largecomm" => wrap(A::LargeCommunities(api::LargeCommunitiesAttribute {
            communities: (0..num(a)).map(|i| api::LargeCommunity { global_admin: 4_200_000_001, local_data1: i, local_data2: u32::MAX }).collect(),
        })),
        "extcomm" => wrap(A::ExtendedCommunities(api::ExtendedCommunitiesAttribute { communities: vec![ext(a, b)] })),
        "unknown" => wrap(A::Unknown(api::UnknownAttribute { flags: 0xc0, r#type: num(a), value: (0..num(b)).map(|i| i as u8 + 1).collect() })),
        // a known type code with a three-octet value (malformed for each of them) under every flag octet class
        "unknownflags" => wrap(A::Unknown(api::UnknownAttribute { flags: num(b), r#type: num(a), value: vec![1, 2, 3] })),
        "mpreach" => {
            let family = match a {
                "none" => None,
                "ipv4" => Some(api::Family { afi: 1, safi: 1 }),
                "ipv6" => Some(api::Family { afi: 2, safi: 1 }),
                "fs4" => Some(api::Family { afi: 1, safi: 133 }),
                _ => Some(api::Family { afi: 70000, safi: 300 }),
            };
            let next_hops = match b {
                "none" => vec![],
                "v4" => vec![addr("v4")],
                "v6" => vec![addr("v6")],
                "garbage" => vec![addr("garbage")],
                _ => vec![addr("v4"), addr("v6")],
            };
            wrap(A::MpReach(api::MpReachNlriAttribute { family, next_hops, nlris: vec![] }))
        }
        "missing" => api::Attribute { attr: None },
        "unsupported" => match a {
            "as4path" => wrap(A::As4Path(api::As4PathAttribute { segments: vec![api::AsSegment { r#type: 2, numbers: vec![65001] }] })),
            "as4aggregator" => wrap(A::As4Aggregator(api::As4AggregatorAttribute { asn: 65001, address: addr("v4") })),
            "aigp" => wrap(A::Aigp(api::AigpAttribute::default())),
            "pmsi" => wrap(A::PmsiTunnel(api::PmsiTunnelAttribute::default())),
            "ip6ext" => wrap(A::Ip6ExtendedCommunities(api::Ip6ExtendedCommunitiesAttribute::default())),
            _ => wrap(A::MpUnreach(api::MpUnreachNlriAttribute::default())),
        },
        x => panic!("harness: attr kind {x}"),
    }
}

// ------------------------------------------------------------------------------------------ projection of an Attribute

/// pi(Attribute) as the JSON record of spec/ApiValue (WellFormed is evaluated there, not here).
fn desc(a: &Attribute) -> String {
    let (kind, len, val) = match (a.value(), a.binary()) {
        (Some(v), _) => ("val", 0usize, v.to_string()),
        (None, Some(b)) => ("bin", b.len(), String::new()),
        (None, None) => ("none", 0, String::new()),
    };
    let mut segs = Vec::new();
    let mut exact = true;
    if let Some(b) = a.binary() {
        if a.code() == Attribute::AS_PATH || a.code() == Attribute::AS4_PATH {
            let mut pos = 0usize;
            while pos < b.len() {
                if pos + 2 > b.len() {
                    exact = false;
                    break;
                }
                let (t, n) = (b[pos], b[pos + 1] as usize);
                segs.push(format!("{{\"t\":{},\"n\":{}}}", t, n));
                pos += 2 + 4 * n;
                if pos > b.len() {
                    exact = false;
                }
            }
        } else if a.code() == Attribute::MP_REACH {
            exact = b.len() >= 5 && b.len() == 5 + b[3] as usize;
        }
    }
    format!(
        "{{\"code\":{},\"kind\":\"{}\",\"len\":{},\"val\":\"{}\",\"segs\":[{}],\"exact\":{}}}",
        a.code(),
        kind,
        len,
        val,
        segs.join(","),
        exact
    )
}

const NO_DESC: &str = "{\"code\":0,\"kind\":\"none\",\"len\":0,\"val\":\"\",\"segs\":[],\"exact\":false}";

// ------------------------------------------------------------------------------------------ behavioural monitors

fn attr_payload(a: &Attribute) -> (u8, Vec<u8>) {
    (a.code(), match a.binary() {
        Some(b) => b.clone(),
        None => a.value().map(|v| v.to_be_bytes().to_vec()).unwrap_or_default(),
    })
}

/// attrs of a complete announcement that carries `a` (ORIGIN / AS_PATH supplied when `a` is neither)
fn with_base(a: &Attribute) -> Vec<Attribute> {
    let mut v = Vec::new();
    if a.code() != Attribute::ORIGIN {
        v.push(Attribute::new_with_value(Attribute::ORIGIN, 0).unwrap());
    }
    if a.code() != Attribute::AS_PATH {
        v.push(Attribute::new_with_bin(Attribute::AS_PATH, vec![2, 1, 0, 0, 0xfd, 0xe9]).unwrap());
    }
    v.push(a.clone());
    v
}

/// Announce `net` of `family` with `attrs` and decode it with the codec negotiated from the opposite side.
fn over_the_wire(
    family: Family,
    net: &Nlri,
    nexthop: Option<bgp::Nexthop>,
    attrs: Vec<Attribute>,
) -> Result<(Vec<Nlri>, Vec<(u8, Vec<u8>)>), String> {
    let fams = vec![family, Family::IPV4];
    let (mut tx, mut rx) = samples::codec_pair(&fams, true, false, false, false);
    let msg = bgp::Message::Update(bgp::Update::Reach {
        family,
        entries: vec![packet::PathNlri { path_id: 0, nlri: net.clone() }],
        nexthop,
        attr: Arc::new(attrs),
    });
    let mut buf = bytes::BytesMut::new();
    tx.encode_to(&msg, &mut buf).map_err(|e| format!("encoder refuses: {e:?}"))?;
    let mut nets = Vec::new();
    let mut got = Vec::new();
    while !buf.is_empty() {
        let parsed = rx
            .try_parse(&mut buf)
            .map_err(|n| format!("peer answers NOTIFICATION {}/{}", n.notification_code(), n.notification_subcode()))?
            .ok_or_else(|| "peer cannot frame what was sent".to_string())?;
        let msgs = bgp::validate_message(parsed, false)
            .map_err(|n| format!("peer's validation answers NOTIFICATION {}/{}", n.notification_code(), n.notification_subcode()))?;
        for m in msgs {
            match m {
                bgp::Message::Update(bgp::Update::Reach { entries, attr, .. }) => {
                    nets.extend(entries.into_iter().map(|e| e.nlri));
                    got = attr.iter().map(attr_payload).collect();
                }
                bgp::Message::Update(bgp::Update::Unreach { .. }) => return Err("peer treats the announcement as a withdrawal".into()),
                _ => {}
            }
        }
    }
    Ok((nets, got))
}

fn wire_attr(a: &Attribute) -> String {
    if matches!(a.code(), Attribute::NEXTHOP | Attribute::MP_REACH | Attribute::MP_UNREACH | Attribute::AS4_PATH | Attribute::AS4_AGGREGATOR) {
        return "na".into(); // carried in the message's own fields / synthesized by the encoder, never stored
    }
    let net = Nlri::V4(Ipv4Net { addr: Ipv4Addr::new(198, 51, 100, 0), mask: 24 });
    let r = catch_unwind(AssertUnwindSafe(|| over_the_wire(Family::IPV4, &net, Some(samples::nexthop_v4()), with_base(a))));
    match r {
        Err(e) => format!("panic: {}", panic_msg(e)),
        Ok(Err(e)) => format!("error: {e}"),
        Ok(Ok((_, got))) => {
            if got.contains(&attr_payload(a)) {
                "same".into()
            } else {
                "diff".into()
            }
        }
    }
}

fn rt_attr(a: &Attribute) -> String {
    if a.code() == Attribute::MP_REACH {
        return "na".into(); // the API form of MP_REACH carries NLRI the internal form deliberately omits
    }
    match catch_unwind(AssertUnwindSafe(|| attr_from_api(attr_to_api(a)))) {
        Err(e) => format!("panic: {}", panic_msg(e)),
        Ok(Err(_)) => "rejected".into(),
        Ok(Ok(b)) => {
            if &b == a {
                "same".into()
            } else if a.code() == Attribute::LS {
                "known-ls-attr".into() // known finding `ls-attribute-api-form-lossy`
            } else {
                "diff".into()
            }
        }
    }
}

fn peer_source() -> Arc<table::Source> {
    Arc::new(table::Source::new(
        "192.0.2.77".parse().unwrap(),
        "192.0.2.254".parse().unwrap(),
        65002,
        65001,
        Ipv4Addr::new(192, 0, 2, 77),
        table::PeerRole::Ebgp,
    ))
}

/// A policy that looks at and rewrites every attribute kind it can.
fn kitchen_sink() -> Arc<table::PolicyAssignment> {
    use table::{Actions, ConditionConfig as CC, DefinedSetConfig as DS, MatchOption as MO};
    let mut t = table::PolicyTable::new();
    let ok = |r: Result<(), table::TableError>| r.map_err(|_| ()).expect("harness policy");
    ok(t.add_defined_set(DS::AsPath { name: "as".into(), patterns: vec!["_65001$".into(), "^65002_".into(), "_65003_".into()] }));
    ok(t.add_defined_set(DS::Community { name: "cs".into(), patterns: vec!["65001:1".into()] }));
    ok(t.add_defined_set(DS::ExtCommunity { name: "es".into(), patterns: vec!["rt:65001:100".into()] }));
    ok(t.add_defined_set(DS::LargeCommunity { name: "ls".into(), patterns: vec!["4200000001:1:2".into()] }));
    let conds: Vec<CC> = vec![
        CC::AsPathSet("as".into(), MO::Any),
        CC::AsPathSet("as".into(), MO::All),
        CC::AsPathSet("as".into(), MO::Invert),
        CC::CommunitySet("cs".into(), MO::Any),
        CC::ExtCommunitySet("es".into(), MO::Any),
        CC::LargeCommunitySet("ls".into(), MO::Any),
        CC::AsPathLength(table::Comparison::Ge, 2),
        CC::LocalPrefEq(100),
        CC::MedEq(0),
        CC::Origin(0),
        CC::CommunityCount(table::Comparison::Ge, 1),
    ];
    let mut names = Vec::new();
    for (i, c) in conds.into_iter().enumerate() {
        let n = format!("c{i}");
        ok(t.add_statement(&n, vec![c], None, Actions::default()));
        names.push(n);
    }
    let acts = Actions {
        community: Some(table::CommunityAction { action_type: table::CommunityActionType::Add, communities: vec![(65001 << 16) | 9] }),
        local_pref: Some(table::LocalPrefAction { value: 300 }),
        med: Some(table::MedAction { action_type: table::MedActionType::Mod, value: 5 }),
        as_prepend: Some(table::AsPrependAction { asn: 65009, repeat: 2, use_left_most: true }),
        ext_community: Some(table::ExtCommunityAction { action_type: table::CommunityActionType::Add, communities: vec![[0, 2, 0xfd, 0xe9, 0, 0, 0, 9]] }),
        large_community: Some(table::LargeCommunityAction { action_type: table::CommunityActionType::Add, communities: vec![(1, 2, 3)] }),
        origin: None,
        nexthop: None,
    };
    ok(t.add_statement("acts", vec![], None, acts));
    names.push("acts".into());
    ok(t.add_policy("pol", names));
    let (_, a) = t
        .add_assignment("global", table::PolicyDirection::Import, table::Disposition::Accept, vec!["pol".into()])
        .map_err(|_| ())
        .expect("harness assignment");
    a
}

/// selection next to another path, policy evaluation, encoding: "ok" or "panic: ..."
fn use_value(family: Family, net: &Nlri, nexthop: Option<bgp::Nexthop>, attrs: Vec<Attribute>, pol: &Arc<table::PolicyAssignment>) -> String {
    let attrs = Arc::new(attrs);
    let step = |name: &str, f: &mut dyn FnMut()| -> Option<String> {
        catch_unwind(AssertUnwindSafe(f)).err().map(|e| format!("panic in {name}: {}", panic_msg(e)))
    };
    // 1. best-path selection: the value next to a peer-learned path, inserted before and after it
    let other = Arc::new(vec![
        Attribute::new_with_value(Attribute::ORIGIN, 0).unwrap(),
        Attribute::new_with_bin(Attribute::AS_PATH, vec![2, 1, 0, 0, 0xfd, 0xea]).unwrap(),
        Attribute::new_with_value(Attribute::MULTI_EXIT_DESC, 10).unwrap(),
        Attribute::new_with_value(Attribute::LOCAL_PREF, 100).unwrap(),
        Attribute::new_with_value(Attribute::ORIGINATOR_ID, 7).unwrap(),
        Attribute::new_with_bin(Attribute::CLUSTER_LIST, vec![1, 1, 1, 1]).unwrap(),
    ]);
    for first_local in [true, false] {
        let mut t = table::Table::new(0);
        let mut f = || {
            let ins_local = |t: &mut table::Table| {
                let _ = t.insert(table::Source::local(), family, net.clone(), 0, nexthop, attrs.clone(), None, false, false, None, 0);
            };
            let ins_peer = |t: &mut table::Table| {
                let _ = t.insert(peer_source(), family, net.clone(), 0, nexthop.or(Some(samples::nexthop_v4())), other.clone(), None, false, false, None, 0);
            };
            if first_local {
                ins_local(&mut t);
                ins_peer(&mut t);
            } else {
                ins_peer(&mut t);
                ins_local(&mut t);
            }
            let _ = t.collect_loc_rib_paths(&family);
            let d = t.destinations(table::TableQuery::Global, family, vec![], true);
            for e in d {
                for p in e.paths {
                    for a in p.attr.iter() {
                        let _ = attr_to_api(a);
                    }
                }
                let _ = nlri_to_api(&e.net);
            }
        };
        if let Some(e) = step("best-path selection / listing", &mut f) {
            return e;
        }
    }
    // 2. policy evaluation
    let mut nh = nexthop;
    let src = peer_source();
    if let Some(e) = step("policy evaluation", &mut || {
        let _ = table::apply_import(pol, None, &src, net, &attrs, &mut nh);
    }) {
        return e;
    }
    // 3. encoding (4-octet and 2-octet AS sessions, add-path on and off)
    for as4 in [true, false] {
        for addpath in [false, true] {
            let mut f = || {
                let (mut tx, _) = samples::codec_pair(&[family, Family::IPV4], as4, addpath, false, false);
                let msg = bgp::Message::Update(bgp::Update::Reach {
                    family,
                    entries: vec![packet::PathNlri { path_id: 1, nlri: net.clone() }],
                    nexthop,
                    attr: attrs.clone(),
                });
                let mut buf = bytes::BytesMut::new();
                let _ = tx.encode_to(&msg, &mut buf);
                let wd = bgp::Message::Update(bgp::Update::Unreach { family, entries: vec![packet::PathNlri { path_id: 1, nlri: net.clone() }] });
                let _ = tx.encode_to(&wd, &mut buf);
            };
            if let Some(e) = step("encoding", &mut f) {
                return e;
            }
        }
    }
    "ok".into()
}

// ------------------------------------------------------------------------------------------ NLRI cases

fn fam(tag: &str) -> Family {
    for f in samples::families() {
        if samples::family_name(f) == tag {
            return f;
        }
    }
    panic!("harness: family {tag}")
}

fn prefix(tag: &str) -> (String, u32) {
    match tag {
        "v4/24" => ("198.51.100.0".into(), 24),
        "v4/0" => ("0.0.0.0".into(), 0),
        "v4/32" => ("198.51.100.7".into(), 32),
        "v4/33" => ("198.51.100.0".into(), 33),
        "v4/300" => ("198.51.100.0".into(), 300),
        "v4/host" => ("198.51.100.77".into(), 24),
        "v6/64" => ("2001:db8:1:2::".into(), 64),
        "v6/128" => ("2001:db8::7".into(), 128),
        "v6/129" => ("2001:db8::".into(), 129),
        "v6/host" => ("2001:db8::7".into(), 64),
        "garbage" => ("not-a-prefix".into(), 24),
        "empty" => (String::new(), 0),
        "nord" | "badrd" => ("198.51.100.0".into(), 24),
        x => panic!("harness: prefix tag {x}"),
    }
}

fn labels(tag: &str) -> Vec<u32> {
    match tag {
        "none" => vec![],
        "one" => vec![100],
        "two" => vec![100, 200],
        _ => vec![1 << 20],
    }
}

fn rd_ok() -> Option<api::RouteDistinguisher> {
    Some(api::RouteDistinguisher {
        rd: Some(api::route_distinguisher::Rd::TwoOctetAsn(api::RouteDistinguisherTwoOctetAsn { admin: 65001, assigned: 100 })),
    })
}

fn rd_for(tag: &str) -> Option<api::RouteDistinguisher> {
    match tag {
        "nord" => None,
        "badrd" => Some(api::RouteDistinguisher {
            rd: Some(api::route_distinguisher::Rd::TwoOctetAsn(api::RouteDistinguisherTwoOctetAsn { admin: 65536, assigned: 100 })),
        }),
        _ => rd_ok(),
    }
}

fn esi_ok() -> Option<api::EthernetSegmentIdentifier> {
    Some(api::EthernetSegmentIdentifier { r#type: 0, value: vec![1, 2, 3, 4, 5, 6, 7, 8, 9] })
}

fn build_nlri(kind: &str, a: &str, b: &str) -> api::Nlri {
    use api::nlri::Nlri as N;
    let n = match kind {
        "prefix" => {
            let (p, l) = prefix(a);
            N::Prefix(api::IpAddressPrefix { prefix: p, prefix_len: l })
        }
        "labeled" => {
            let (p, l) = prefix(a);
            N::LabeledPrefix(api::LabeledIpAddressPrefix { labels: labels(b), prefix: p, prefix_len: l })
        }
        "vpn" => {
            let (p, l) = prefix(a);
            N::LabeledVpnIpPrefix(api::LabeledVpnipAddressPrefix { labels: labels(b), rd: rd_for(a), prefix: p, prefix_len: l })
        }
        "evpn-macadv" => N::EvpnMacadv(api::EvpnmacipAdvertisementRoute {
            rd: if a == "nord" { None } else { rd_ok() },
            esi: match a {
                "noesi" => None,
                "esi-short" => Some(api::EthernetSegmentIdentifier { r#type: 0, value: vec![1, 2, 3] }),
                "esi-long" => Some(api::EthernetSegmentIdentifier { r#type: 300, value: vec![0; 10] }),
                _ => esi_ok(),
            },
            ethernet_tag: 5,
            mac_address: match a {
                "badmac" => "zz:00:00:00:00:01".into(),
                "shortmac" => "00:11:22".into(),
                _ => "00:11:22:33:44:55".into(),
            },
            ip_address: if a == "badip" { "999.1.1.1".into() } else { "192.0.2.9".into() },
            labels: if a == "nolabel" { vec![] } else { vec![100] },
            ..Default::default()
        }),
        "evpn-prefix" => N::EvpnIpPrefix(api::EvpnipPrefixRoute {
            rd: rd_ok(),
            esi: esi_ok(),
            ethernet_tag: 1,
            ip_prefix: if a == "len129" { "2001:db8::".into() } else { "198.51.100.0".into() },
            ip_prefix_len: match a {
                "len33v4" => 33,
                "len129" => 129,
                "len200" => 200,
                _ => 24,
            },
            gw_address: match a {
                "badgw" => "nope".into(),
                "gwmix" => "2001:db8::1".into(),
                _ => "192.0.2.1".into(),
            },
            label: 100,
            ..Default::default()
        }),
        "evpn-multicast" => N::EvpnMulticast(api::EvpnInclusiveMulticastEthernetTagRoute {
            rd: if a == "nord" { None } else { rd_ok() },
            ethernet_tag: 1,
            ip_address: if a == "badip" { "x".into() } else { "192.0.2.1".into() },
        }),
        "srpolicy" => N::SrPolicy(api::SrPolicyNlri {
            length: 96,
            distinguisher: 1,
            color: 2,
            endpoint: match a {
                "ep4" => vec![192, 0, 2, 1],
                "ep16" => vec![0x20, 1, 0xd, 0xb8, 0, 0, 0, 0, 0, 0, 0, 0, 0, 0, 0, 1],
                "ep0" => vec![],
                _ => vec![1, 2, 3, 4, 5],
            },
        }),
        "rtc" => N::RouteTargetMembership(api::RouteTargetMembershipNlri {
            asn: if a == "wildcard" { 0 } else { 65001 },
            rt: match a {
                "exact" => Some(api::RouteTarget {
                    rt: Some(api::route_target::Rt::TwoOctetAsSpecific(api::TwoOctetAsSpecificExtended {
                        is_transitive: true,
                        sub_type: 2,
                        asn: 65001,
                        local_admin: 100,
                    })),
                }),
                "badrt" => Some(api::RouteTarget {
                    rt: Some(api::route_target::Rt::TwoOctetAsSpecific(api::TwoOctetAsSpecificExtended {
                        is_transitive: true,
                        sub_type: 2,
                        asn: 70000,
                        local_admin: 100,
                    })),
                }),
                _ => None,
            },
        }),
        "flowspec" => N::FlowSpec(api::FlowSpecNlri {
            rules: match a {
                "empty" => vec![],
                _ => vec![api::FlowSpecRule {
                    rule: Some(api::flow_spec_rule::Rule::IpPrefix(api::FlowSpecIpPrefix {
                        r#type: if a == "badtype" { 77 } else { 1 },
                        prefix_len: if a == "len300" { 300 } else if a == "len40" { 40 } else { 24 },
                        prefix: if a == "badprefix" {
                            "nope".into()
                        } else if b == "v6" {
                            "2001:db8::".into()
                        } else {
                            "198.51.100.0".into()
                        },
                        offset: if a == "offset200" { 200 } else { 0 },
                    })),
                }],
            },
        }),
        "vpnflowspec" => N::VpnFlowSpec(api::VpnFlowSpecNlri {
            rd: if a == "nord" { None } else { rd_ok() },
            rules: match a {
                "empty" => vec![],
                _ => vec![api::FlowSpecRule {
                    rule: Some(api::flow_spec_rule::Rule::IpPrefix(api::FlowSpecIpPrefix {
                        r#type: if a == "badtype" { 77 } else { 1 },
                        prefix_len: if a == "len300" { 300 } else if a == "len40" { 40 } else { 24 },
                        prefix: if a == "badprefix" {
                            "nope".into()
                        } else if b == "v6" {
                            "2001:db8::".into()
                        } else {
                            "198.51.100.0".into()
                        },
                        offset: if a == "offset200" { 200 } else { 0 },
                    })),
                }],
            },
        }),
        "mup-isd" => N::MupInterworkSegmentDiscovery(api::MupInterworkSegmentDiscoveryRoute {
            rd: if a == "nord" { None } else { rd_ok() },
            prefix: match a {
                "noslash" => "198.51.100.0".into(),
                "len300" => "198.51.100.0/300".into(),
                _ => "198.51.100.0/24".into(),
            },
        }),
        "mup-t1st" => N::MupType1SessionTransformed(api::MupType1SessionTransformedRoute {
            rd: rd_ok(),
            prefix: "198.51.100.7/32".into(),
            teid: 1,
            qfi: if a == "qfi256" { 256 } else { 9 },
            endpoint_address_length: 32,
            endpoint_address: if a == "badep" { "x".into() } else { "192.0.2.1".into() },
            ..Default::default()
        }),
        "none" => return api::Nlri { nlri: None },
        x => panic!("harness: nlri kind {x}"),
    };
    api::Nlri { nlri: Some(n) }
}

fn host_bits4(a: Ipv4Addr, m: u8) -> bool {
    m < 32 && (u32::from(a) & (u32::MAX >> m)) != 0
}

fn host_bits6(a: Ipv6Addr, m: u8) -> bool {
    m < 128 && (u128::from(a) & (u128::MAX >> m)) != 0
}

fn ip_mask(a: std::net::IpAddr, m: u8) -> (u8, u8, bool) {
    match a {
        std::net::IpAddr::V4(x) => (m, 32, m <= 32 && host_bits4(x, m)),
        std::net::IpAddr::V6(x) => (m, 128, m <= 128 && host_bits6(x, m)),
    }
}

/// (mask, max, host bits) of the prefix component of an IPv6 flowspec NLRI; an offset beyond the length counts as a bad mask
fn fs6_mask(components: &[flowspec::FlowspecV6Component]) -> (u8, u8, bool) {
    let mut m = (0u8, 128u8, false);
    for c in components {
        if let flowspec::FlowspecV6Component::DstPrefix { prefix, offset } | flowspec::FlowspecV6Component::SrcPrefix { prefix, offset } = c {
            m = (if *offset > prefix.mask { 255 } else { prefix.mask }, 128, false);
        }
    }
    m
}

/// pi(Nlri) for spec/ApiValue NlriWellFormed
fn nlri_desc(n: &Nlri, family: Family) -> String {
    let famok = samples::nlri_samples(family).first().map(|s| std::mem::discriminant(s) == std::mem::discriminant(n)).unwrap_or(false);
    let lab_ok = |l: &packet::mpls::MplsLabelStack| !l.labels().is_empty() && l.labels().iter().all(|x| x.value() < (1 << 20));
    let (variant, (mask, maxmask, host), labelsok) = match n {
        Nlri::V4(p) => ("V4", (p.mask, 32, p.mask <= 32 && host_bits4(p.addr, p.mask)), true),
        Nlri::V6(p) => ("V6", (p.mask, 128, p.mask <= 128 && host_bits6(p.addr, p.mask)), true),
        Nlri::LabeledV4(p) => ("LabeledV4", (p.prefix.mask, 32, p.prefix.mask <= 32 && host_bits4(p.prefix.addr, p.prefix.mask)), lab_ok(&p.labels)),
        Nlri::LabeledV6(p) => ("LabeledV6", (p.prefix.mask, 128, p.prefix.mask <= 128 && host_bits6(p.prefix.addr, p.prefix.mask)), lab_ok(&p.labels)),
        Nlri::VpnV4(p) => ("VpnV4", (p.prefix.mask, 32, p.prefix.mask <= 32 && host_bits4(p.prefix.addr, p.prefix.mask)), lab_ok(&p.labels)),
        Nlri::VpnV6(p) => ("VpnV6", (p.prefix.mask, 128, p.prefix.mask <= 128 && host_bits6(p.prefix.addr, p.prefix.mask)), lab_ok(&p.labels)),
        // the EVPN type-5 decoder takes the address family from the route length and does not bound the prefix length by it
        Nlri::Evpn(packet::evpn::EvpnNlri::EthernetIpPrefix(r)) => ("EvpnPrefix", (r.prefix_len, 128, ip_mask(r.ip_prefix, r.prefix_len).2), true),
        Nlri::Evpn(_) => ("Evpn", (0, 0, false), true),
        Nlri::Mup(mup::MupNlri::InterworkSegmentDiscovery(r)) => ("MupIsd", ip_mask(r.prefix_addr, r.prefix_len), true),
        Nlri::Mup(mup::MupNlri::Type1SessionTransformed(r)) => ("MupT1st", ip_mask(r.prefix_addr, r.prefix_len), true),
        Nlri::Mup(_) => ("Mup", (0, 0, false), true),
        Nlri::FlowspecV4(f) => {
            let mut m = (0u8, 32u8, false);
            for c in &f.components {
                if let flowspec::FlowspecV4Component::DstPrefix(p) | flowspec::FlowspecV4Component::SrcPrefix(p) = c {
                    m = (p.mask, 32, p.mask <= 32 && host_bits4(p.addr, p.mask));
                }
            }
            ("FlowspecV4", m, true)
        }
        Nlri::FlowspecV6(f) => ("FlowspecV6", fs6_mask(&f.components), true),
        Nlri::FlowspecVpnV4(f) => {
            let mut m = (0u8, 32u8, false);
            for c in &f.components {
                if let flowspec::FlowspecV4Component::DstPrefix(p) | flowspec::FlowspecV4Component::SrcPrefix(p) = c {
                    m = (p.mask, 32, p.mask <= 32 && host_bits4(p.addr, p.mask));
                }
            }
            ("FlowspecVpnV4", m, true)
        }
        Nlri::FlowspecVpnV6(f) => ("FlowspecVpnV6", fs6_mask(&f.components), true),
        Nlri::Ls(_) => ("Ls", (0, 0, false), true),
        Nlri::SrPolicy(_) => ("SrPolicy", (0, 0, false), true),
        Nlri::Rtc(_) => ("Rtc", (0, 0, false), true),
    };
    format!(
        "{{\"variant\":\"{}\",\"famok\":{},\"mask\":{},\"maxmask\":{},\"host\":{},\"labelsok\":{}}}",
        variant, famok, mask, maxmask, host, labelsok
    )
}

const NO_NDESC: &str = "{\"variant\":\"\",\"famok\":false,\"mask\":0,\"maxmask\":0,\"host\":false,\"labelsok\":false}";

/// What the GoBGP-compatible API schema cannot express about a BGP-LS NLRI (known finding
/// `ls-nlri-api-form-lossy`): node-descriptor numbers whose value is 0 are indistinguishable from absent ones, and link /
/// prefix descriptors have no Multi-Topology-ID field.  Returns the NLRI with exactly that information removed.
fn ls_schema_view(n: &Nlri) -> Nlri {
    let nd = |d: &ls::NodeDescriptor| {
        let z = |v: Option<u32>| v.filter(|x| *x != 0);
        ls::NodeDescriptor {
            asn: z(d.asn),
            bgp_ls_id: z(d.bgp_ls_id),
            ospf_area_id: z(d.ospf_area_id),
            igp_router_id: d.igp_router_id.clone(),
            bgp_router_id: d.bgp_router_id,
            bgp_confederation_member: z(d.bgp_confederation_member),
        }
    };
    match n {
        Nlri::Ls(ls::BgpLsNlri::Node(x)) => {
            Nlri::Ls(ls::BgpLsNlri::Node(ls::BgpLsNodeNlri { protocol_id: x.protocol_id, identifier: x.identifier, local_node: nd(&x.local_node) }))
        }
        Nlri::Ls(ls::BgpLsNlri::Link(x)) => Nlri::Ls(ls::BgpLsNlri::Link(ls::BgpLsLinkNlri {
            protocol_id: x.protocol_id,
            identifier: x.identifier,
            local_node: nd(&x.local_node),
            remote_node: nd(&x.remote_node),
            link_desc: x.link_desc.iter().filter(|t| !matches!(t, ls::LinkDescTlv::MultiTopoId(_))).cloned().collect(),
        })),
        Nlri::Ls(ls::BgpLsNlri::PrefixV4(x)) => Nlri::Ls(ls::BgpLsNlri::PrefixV4(ls::BgpLsPrefixNlri {
            protocol_id: x.protocol_id,
            identifier: x.identifier,
            local_node: nd(&x.local_node),
            prefix_desc: x.prefix_desc.iter().filter(|t| !matches!(t, ls::PrefixDescTlv::MultiTopoId(_))).cloned().collect(),
        })),
        Nlri::Ls(ls::BgpLsNlri::PrefixV6(x)) => Nlri::Ls(ls::BgpLsNlri::PrefixV6(ls::BgpLsPrefixNlri {
            protocol_id: x.protocol_id,
            identifier: x.identifier,
            local_node: nd(&x.local_node),
            prefix_desc: x.prefix_desc.iter().filter(|t| !matches!(t, ls::PrefixDescTlv::MultiTopoId(_))).cloned().collect(),
        })),
        Nlri::Ls(ls::BgpLsNlri::Srv6Sid(x)) => Nlri::Ls(ls::BgpLsNlri::Srv6Sid(ls::BgpLsSrv6SidNlri {
            protocol_id: x.protocol_id,
            identifier: x.identifier,
            local_node: nd(&x.local_node),
            sids: x.sids.clone(),
            multi_topo_ids: x.multi_topo_ids.clone(),
        })),
        other => other.clone(),
    }
}

/// known finding `rtc-value-not-a-route-target-api-form`: the eight octets of an RTC NLRI are shown through the typed RouteTarget
/// message, which stands for transitive route targets only (type 0x00 / 0x01 / 0x02, sub-type 0x02)
fn rtc_value_is_no_route_target(n: &Nlri) -> bool {
    matches!(n, Nlri::Rtc(r) if matches!(r.match_type, packet::rtc::MatchType::ExactMatch { route_target, .. } if route_target[0] > 2 || route_target[1] != 2))
}

fn rt_nlri(n: &Nlri, family: Family) -> String {
    match catch_unwind(AssertUnwindSafe(|| net_from_api(nlri_to_api(n), family))) {
        Err(e) => format!("panic: {}", panic_msg(e)),
        Ok(Err(_)) if rtc_value_is_no_route_target(n) => "known-rtc-value".into(),
        Ok(Err(_)) => "rejected".into(),
        Ok(Ok(m)) => {
            if &m == n {
                "same".into()
            } else if matches!(n, Nlri::Ls(_)) && m == ls_schema_view(n) {
                "known-ls-schema".into()
            } else if matches!(n, Nlri::Rtc(r) if r.match_type == packet::rtc::MatchType::AsWildcard { origin_as: 0 })
                && matches!(&m, Nlri::Rtc(r) if r.match_type == packet::rtc::MatchType::Wildcard)
            {
                // known finding `rtc-as0-api-form-ambiguous`: RouteTargetMembershipNlri{asn: 0, rt: none} stands for both
                "known-rtc-as0".into()
            } else if rtc_value_is_no_route_target(n) {
                "known-rtc-value".into()
            } else {
                "diff".into()
            }
        }
    }
}

fn wire_nlri(n: &Nlri, family: Family) -> String {
    let r = catch_unwind(AssertUnwindSafe(|| over_the_wire(family, n, samples::nexthop_for(family), samples::base_attrs())));
    match r {
        Err(e) => format!("panic: {}", panic_msg(e)),
        Ok(Err(e)) => format!("error: {e}"),
        Ok(Ok((nets, _))) => {
            if nets.len() == 1 && &nets[0] == n {
                "same".into()
            } else {
                "diff".into()
            }
        }
    }
}

// ------------------------------------------------------------------------------------------ tests

#[test]
fn c17_cases() {
    let inp = std::env::var("VERIF_IN").expect("VERIF_IN");
    let outp = std::env::var("VERIF_OUT").expect("VERIF_OUT");
    let mut out = std::io::BufWriter::new(std::fs::File::create(outp).unwrap());
    let hook = std::panic::take_hook();
    std::panic::set_hook(Box::new(|_| {}));
    let pol = kitchen_sink();
    for line in std::io::BufReader::new(std::fs::File::open(inp).unwrap()).lines() {
        let line = line.unwrap();
        let t: Vec<&str> = line.split('\t').collect();
        if t.len() < 6 {
            continue;
        }
        let i: usize = t[1].parse().unwrap();
        if t[0] == "A" {
            let segs: Vec<(u32, u32)> = t[5]
                .split(',')
                .filter(|s| !s.is_empty())
                .map(|s| {
                    let (a, b) = s.split_once(':').unwrap();
                    (a.parse().unwrap(), b.parse().unwrap())
                })
                .collect();
            let api_attr = build_attr(t[2], t[3], t[4], &segs);
            let r = catch_unwind(AssertUnwindSafe(|| attr_from_api(api_attr)));
            let s = match r {
                Err(e) => format!(
                    "{{\"i\":{i},\"res\":{{\"outcome\":\"panic\",\"desc\":{NO_DESC},\"rt\":\"na\",\"wire\":\"na\",\"use\":\"na\",\"note\":\"{}\"}}}}",
                    esc(&panic_msg(e))
                ),
                Ok(Err(_)) => format!("{{\"i\":{i},\"res\":{{\"outcome\":\"err\",\"desc\":{NO_DESC},\"rt\":\"na\",\"wire\":\"na\",\"use\":\"na\",\"note\":\"\"}}}}"),
                Ok(Ok(a)) => {
                    let stored = !matches!(a.code(), Attribute::NEXTHOP | Attribute::MP_REACH | Attribute::MP_UNREACH);
                    let net = Nlri::V4(Ipv4Net { addr: Ipv4Addr::new(198, 51, 100, 0), mask: 24 });
                    let u = if stored { use_value(Family::IPV4, &net, Some(samples::nexthop_v4()), with_base(&a), &pol) } else { "ok".to_string() };
                    format!(
                        "{{\"i\":{i},\"res\":{{\"outcome\":\"ok\",\"desc\":{},\"rt\":\"{}\",\"wire\":\"{}\",\"use\":\"{}\",\"note\":\"\"}}}}",
                        desc(&a),
                        esc(&rt_attr(&a)),
                        esc(&wire_attr(&a)),
                        esc(&u)
                    )
                }
            };
            writeln!(out, "{s}").unwrap();
        } else {
            let family = fam(t[3]);
            let api_nlri = build_nlri(t[2], t[4], if (t[2] == "flowspec" || t[2] == "vpnflowspec") && family.afi() == Family::AFI_IP6 { "v6" } else { t[5] });
            let r = catch_unwind(AssertUnwindSafe(|| net_from_api(api_nlri, family)));
            let s = match r {
                Err(e) => format!(
                    "{{\"i\":{i},\"res\":{{\"outcome\":\"panic\",\"desc\":{NO_NDESC},\"rt\":\"na\",\"wire\":\"na\",\"use\":\"na\",\"note\":\"{}\"}}}}",
                    esc(&panic_msg(e))
                ),
                Ok(Err(_)) => format!("{{\"i\":{i},\"res\":{{\"outcome\":\"err\",\"desc\":{NO_NDESC},\"rt\":\"na\",\"wire\":\"na\",\"use\":\"na\",\"note\":\"\"}}}}"),
                Ok(Ok(n)) => {
                    let u = use_value(family, &n, samples::nexthop_for(family), samples::base_attrs(), &pol);
                    format!(
                        "{{\"i\":{i},\"res\":{{\"outcome\":\"ok\",\"desc\":{},\"rt\":\"{}\",\"wire\":\"{}\",\"use\":\"{}\",\"note\":\"{}\"}}}}",
                        nlri_desc(&n, family),
                        esc(&rt_nlri(&n, family)),
                        esc(&wire_nlri(&n, family)),
                        esc(&u),
                        esc(&n.to_string())
                    )
                }
            };
            writeln!(out, "{s}").unwrap();
        }
    }
    std::panic::set_hook(hook);
}

/// Extended communities reachable from the wire: every high type octet x a set of sub-types x three value patterns.
fn extcom_universe() -> Vec<[u8; 8]> {
    let mut v = Vec::new();
    let subs: Vec<u8> = (0..=0x10).chain([0x80, 0xff]).collect();
    for hi in 0..=255u8 {
        for &sub in &subs {
            for pat in [[0u8; 6], [0xff; 6], [1, 2, 3, 4, 5, 6]] {
                let mut b = [0u8; 8];
                b[0] = hi;
                b[1] = sub;
                b[2..].copy_from_slice(&pat);
                v.push(b);
            }
        }
    }
    v
}

#[test]
fn c17_roundtrip() {
    let outp = std::env::var("VERIF_OUT").expect("VERIF_OUT");
    let mut out = std::io::BufWriter::new(std::fs::File::create(outp).unwrap());
    let hook = std::panic::take_hook();
    std::panic::set_hook(Box::new(|_| {}));
    let mut n_attr = 0u64;
    let mut n_nlri = 0u64;
    let mut report = |out: &mut std::io::BufWriter<std::fs::File>, kind: &str, what: &str, res: &str| {
        writeln!(out, "{{\"kind\":\"{}\",\"what\":\"{}\",\"res\":\"{}\"}}", kind, esc(what), esc(res)).unwrap();
    };
    // 1. attribute samples, as built and as decoded from the wire (2- and 4-octet AS sessions)
    let mut attrs: Vec<(String, Attribute)> = samples::attr_samples().into_iter().map(|a| (format!("sample code {}", a.code()), a)).collect();
    for as4 in [true, false] {
        let (mut tx, mut rx) = samples::codec_pair(&[Family::IPV4], as4, false, false, false);
        let all: Vec<Attribute> = samples::attr_samples();
        let msg = bgp::Message::Update(bgp::Update::Reach {
            family: Family::IPV4,
            entries: vec![packet::PathNlri { path_id: 0, nlri: Nlri::V4(Ipv4Net { addr: Ipv4Addr::new(198, 51, 100, 0), mask: 24 }) }],
            nexthop: Some(samples::nexthop_v4()),
            attr: Arc::new(all),
        });
        let mut buf = bytes::BytesMut::new();
        tx.encode_to(&msg, &mut buf).map_err(|_| ()).expect("harness: encode samples");
        while !buf.is_empty() {
            let p = rx.try_parse(&mut buf).map_err(|_| ()).expect("harness: parse samples").expect("frame");
            for m in bgp::validate_message(p, false).map_err(|_| ()).expect("harness: validate samples") {
                if let bgp::Message::Update(bgp::Update::Reach { attr, .. }) = m {
                    for a in attr.iter() {
                        attrs.push((format!("decoded (as4={as4}) code {}", a.code()), a.clone()));
                    }
                }
            }
        }
    }
    // AS_PATH shapes the wire accepts
    for (name, bin) in [
        ("empty AS_PATH", vec![]),
        ("AS_PATH with an empty segment", vec![2u8, 0]),
        ("AS_PATH of all four segment types", vec![2, 1, 0, 0, 0xfd, 0xe9, 1, 2, 0, 0, 0, 1, 0, 0, 0, 2, 3, 1, 0, 0, 0xfd, 0xea, 4, 1, 0, 0, 0xfd, 0xeb]),
        ("AS_PATH with 255 hops", {
            let mut v = vec![2u8, 255];
            for i in 0..255u32 {
                v.extend_from_slice(&(65001 + i).to_be_bytes());
            }
            v
        }),
    ] {
        attrs.push((name.to_string(), Attribute::new_with_bin(Attribute::AS_PATH, bin).unwrap()));
    }
    for (name, val) in [("ORIGIN 0", 0u32), ("ORIGIN 1", 1), ("ORIGIN 2", 2)] {
        attrs.push((name.to_string(), Attribute::new_with_value(Attribute::ORIGIN, val).unwrap()));
    }
    for v in [0u32, 1, u32::MAX] {
        attrs.push((format!("MED {v}"), Attribute::new_with_value(Attribute::MULTI_EXIT_DESC, v).unwrap()));
        attrs.push((format!("LOCAL_PREF {v}"), Attribute::new_with_value(Attribute::LOCAL_PREF, v).unwrap()));
        attrs.push((format!("ORIGINATOR_ID {v}"), Attribute::new_with_value(Attribute::ORIGINATOR_ID, v).unwrap()));
    }
    for (name, code, bin) in [
        ("empty COMMUNITY", Attribute::COMMUNITY, vec![]),
        ("empty CLUSTER_LIST", Attribute::CLUSTER_LIST, vec![]),
        ("empty EXTENDED_COMMUNITY", Attribute::EXTENDED_COMMUNITY, vec![]),
        ("empty LARGE_COMMUNITY", Attribute::LARGE_COMMUNITY, vec![]),
        ("AGGREGATOR AS 0", Attribute::AGGREGATOR, vec![0, 0, 0, 0, 192, 0, 2, 1]),
    ] {
        attrs.push((name.to_string(), Attribute::new_with_bin(code, bin).unwrap()));
    }
    for (what, a) in &attrs {
        n_attr += 1;
        let r = rt_attr(a);
        if r != "same" {
            report(&mut out, "attr", what, &r);
        }
    }
    // 2. extended communities: every type octet
    let mut ec_bad: std::collections::BTreeMap<String, (u64, String)> = Default::default();
    for b in extcom_universe() {
        n_attr += 1;
        let a = Attribute::new_with_bin(Attribute::EXTENDED_COMMUNITY, b.to_vec()).unwrap();
        let r = rt_attr(&a);
        if r != "same" {
            let key = format!("{} type 0x{:02x} sub-type 0x{:02x}", r.split(':').next().unwrap_or(""), b[0], b[1]);
            let e = ec_bad.entry(key).or_insert((0, format!("{:02x?}", b)));
            e.0 += 1;
        }
    }
    // ... and every kind of community as a MEMBER of a list: in front of a route target, and between two (a value that is
    // read with the wrong width shifts everything behind it)
    let rt2: [u8; 8] = [0x00, 0x02, 0xfd, 0xe9, 0x00, 0x00, 0x00, 0x64];
    let rt4: [u8; 8] = [0x02, 0x02, 0xfa, 0x56, 0xea, 0x01, 0x00, 0x07];
    for b in extcom_universe().into_iter().filter(|b| b[2..] == [1, 2, 3, 4, 5, 6]) {
        for list in [vec![b, rt2], vec![rt4, b, rt2]] {
            n_attr += 1;
            let bin: Vec<u8> = list.iter().flat_map(|x| x.iter().copied()).collect();
            let a = Attribute::new_with_bin(Attribute::EXTENDED_COMMUNITY, bin).unwrap();
            let r = rt_attr(&a);
            if r != "same" {
                let key = format!("{} type 0x{:02x} sub-type 0x{:02x} in a list of {}", r.split(':').next().unwrap_or(""), b[0], b[1], list.len());
                let e = ec_bad.entry(key).or_insert((0, format!("{:02x?}", b)));
                e.0 += 1;
            }
        }
    }
    for (k, (n, first)) in ec_bad {
        report(&mut out, "extcom", &format!("{k} ({n} value patterns, first {first})"), "diff");
    }
    // 3. NLRI samples of every family, as built and as decoded from the wire
    for family in samples::families() {
        for n in samples::nlri_samples(family) {
            n_nlri += 1;
            let r = rt_nlri(&n, family);
            if r != "same" {
                report(&mut out, "nlri", &format!("{} {}", samples::family_name(family), n), &r);
            }
            let w = catch_unwind(AssertUnwindSafe(|| over_the_wire(family, &n, samples::nexthop_for(family), samples::base_attrs())));
            if let Ok(Ok((nets, _))) = w {
                for m in nets {
                    n_nlri += 1;
                    let r = rt_nlri(&m, family);
                    if r != "same" {
                        report(&mut out, "nlri", &format!("{} {} (decoded)", samples::family_name(family), m), &r);
                    }
                }
            }
        }
    }
    writeln!(out, "{{\"summary\":{{\"attrs\":{n_attr},\"nlris\":{n_nlri}}}}}").unwrap();
    std::panic::set_hook(hook);
}

