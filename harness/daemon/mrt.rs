// Included into daemon/src/mrt.rs as `mod verif_harness` (guard: cfg osrg_rustybgp_verif).
//
// C19, MRT half: BGP4MP records through the real adj_rib_in_to_mrt + MrtCodec, TABLE_DUMP_V2 through the real dump_table on
// a real TableManager; both read back by the independent reader (harness/common/monitor_reader.rs).
//   VERIF_IN : cases (tab separated);  VERIF_OUT : {"i": n, "obs": {...}} per MRT case;  VERIF_WORK : scratch directory
#[allow(unused_imports)]
use super::*;
use std::io::{BufRead, Write as _};
use std::sync::Arc;

use rustybgp_packet as packet;

include!(concat!(env!("OSRG_RUSTYBGP_VERIF_DIR"), "/../common/monitor_cases.rs"));

fn panic_text(e: Box<dyn std::any::Any + Send>) -> String {
    if let Some(s) = e.downcast_ref::<&str>() {
        s.to_string()
    } else if let Some(s) = e.downcast_ref::<String>() {
        s.clone()
    } else {
        "panic".to_string()
    }
}

fn ip_bytes(a: IpAddr) -> Vec<u8> {
    match a {
        IpAddr::V4(x) => x.octets().to_vec(),
        IpAddr::V6(x) => x.octets().to_vec(),
    }
}

/// zero the timestamps (first four octets of every record) so that two encodings can be compared
fn without_timestamps(raw: &[u8]) -> Vec<u8> {
    let mut v = raw.to_vec();
    let mut off = 0usize;
    while off + 12 <= v.len() {
        let len = u32::from_be_bytes([v[off + 8], v[off + 9], v[off + 10], v[off + 11]]) as usize;
        v[off..off + 4].copy_from_slice(&[0; 4]);
        off += 12 + len;
    }
    v
}

fn observe_mp(c: &Case, shared: &mut mrt::MrtCodec) -> reader::Obs {
    let fam = mc_family(&c.fam);
    let src = mc_source(&c.peer, &c.local);
    let entries = mc_entries(fam, &c.count, c.addpath);
    let attrs = mc_attrs(&c.attrs);
    let nexthop = if c.dir == "reach" { mc_nexthop(fam, &c.nh) } else { None };
    let change = AdjRibInChange {
        source: src.clone(),
        family: fam,
        addpath: c.addpath,
        nlris: entries.clone(),
        attrs: if c.dir == "reach" { Some(attrs.clone()) } else { None },
        nexthop,
        timestamp: 1_700_000_000,
    };
    let mut buf = bytes::BytesMut::new();
    let r = catch_unwind(AssertUnwindSafe(|| {
        let msg = adj_rib_in_to_mrt(&change);
        let mut codec = mrt::MrtCodec::new();
        codec.encode(&msg, &mut buf)
    }));
    match r {
        Err(e) => return reader::Obs::failed("panic", &panic_text(e)),
        Ok(Err(e)) => return reader::Obs::failed("error", &format!("{e:?}")),
        Ok(Ok(())) => {}
    }
    // the same event through the long-lived codec of a dump file, right after an event of the same family with the
    // opposite add-path setting
    let mut shared_buf = bytes::BytesMut::new();
    let _ = catch_unwind(AssertUnwindSafe(|| {
        let adverse = AdjRibInChange {
            source: src.clone(),
            family: fam,
            addpath: !c.addpath,
            nlris: mc_entries(fam, "one", !c.addpath),
            attrs: Some(mc_attrs("small")),
            nexthop: mc_nexthop(fam, if fam == Family::IPV6 { "v6" } else { "v4" }),
            timestamp: 1,
        };
        let mut scratch = bytes::BytesMut::new();
        let _ = shared.encode(&adj_rib_in_to_mrt(&adverse), &mut scratch);
        let _ = shared.encode(&adj_rib_in_to_mrt(&change), &mut shared_buf);
    }));
    // the encoder may write several records for one event: walk them by their length fields
    let mut o = reader::Obs::new();
    let raw = buf.to_vec();
    o.stateless = without_timestamps(&raw) == without_timestamps(&shared_buf);
    let mut off = 0usize;
    let mut all_pdus = Vec::new();
    while off < raw.len() {
        if raw.len() - off < 12 {
            o.lenok = false;
            break;
        }
        let len = u32::from_be_bytes([raw[off + 8], raw[off + 9], raw[off + 10], raw[off + 11]]) as usize;
        if off + 12 + len > raw.len() {
            o.lenok = false;
            break;
        }
        let rec = match reader::read_mrt(&raw[off..off + 12 + len]) {
            Ok(r) => r,
            Err(e) => {
                o.lenok = false;
                o.note = e;
                break;
            }
        };
        off += 12 + len;
        o.nrec += 1;
        reader::Obs::merge_i(&mut o.typ, rec.typ as i64);
        reader::Obs::merge_i(&mut o.subtype, rec.subtype as i64);
        match reader::read_bgp4mp(rec.subtype, &rec.body) {
            Err(e) => {
                o.parse = format!("error: {e}");
                o.addrok = false;
            }
            Ok(h) => {
                reader::Obs::merge_i(&mut o.aswidth, h.aswidth as i64);
                reader::Obs::merge_i(&mut o.afi, h.afi as i64);
                let want_afi = if c.peer == "v4" { 1 } else { 2 };
                if h.afi != want_afi || h.peer_ip != ip_bytes(src.remote_addr) || h.local_ip != ip_bytes(src.local_addr) {
                    o.addrok = false;
                }
                if h.peer_as != src.remote_asn || h.local_as != src.local_asn {
                    o.content = format!("diff: AS numbers {} / {} in the header", h.peer_as, h.local_as);
                }
                let (pdus, left) = reader::split_pdus(&h.message);
                o.minpdus = o.minpdus.min(pdus.len());
                o.maxpdus = o.maxpdus.max(pdus.len());
                o.leftover |= left;
                all_pdus.extend(pdus);
            }
        }
    }
    if o.parse == "ok" && !all_pdus.is_empty() {
        // RFC 8050: the add-path form of the NLRI is announced by the subtype, not by the caller
        let stated_addpath = matches!(o.subtype, 8 | 9 | 10 | 11);
        match mc_decode(&all_pdus, stated_addpath) {
            Err(e) => o.parse = format!("error: {e}"),
            Ok(d) => {
                let cmp = mc_compare(&d, &c.dir, fam, &entries, &attrs, nexthop);
                if o.content == "same" {
                    o.content = cmp;
                }
            }
        }
    }
    o
}

async fn observe_td(c: &Case, work: &str) -> reader::Obs {
    let fam = mc_family(&c.fam);
    let tables: TableHandle = Arc::new(crate::table_manager::TableManager::new(2));
    // sources
    let mk = |addr: IpAddr, asn: u32, id: u8| {
        Arc::new(rustybgp_table::Source::new(addr, mc_addr(if addr.is_ipv4() { "v4" } else { "v6" }, 254), asn, 65001, Ipv4Addr::new(192, 0, 2, id), rustybgp_table::PeerRole::Ebgp))
    };
    let mut sources: Vec<Arc<rustybgp_table::Source>> = match c.x.as_str() {
        "peers1" => vec![mk(mc_addr(&c.peer, 77), 4_200_000_077, 77)],
        "peers3" => vec![mk(mc_addr(&c.peer, 77), 4_200_000_077, 77), mk(mc_addr(&c.peer, 78), 65078, 78), mk(mc_addr(&c.peer, 79), 65079, 79)],
        "peersmixed" => vec![mk(mc_addr("v4", 77), 65077, 77), mk(mc_addr("v6", 78), 4_200_000_078, 78)],
        _ => vec![mk(mc_addr(&c.peer, 77), 65077, 77)],
    };
    if c.x == "localsrc" {
        sources.push(rustybgp_table::Source::local());
    }
    let entries = mc_entries(fam, &c.count, false);
    let attrs = mc_attrs(&c.attrs);
    let nexthop = if c.nh == "none" { None } else { mc_nexthop(fam, &c.nh) };
    // also one prefix of the OTHER unicast family so that both RIB subtypes and the shared peer table are written
    let other = if fam == Family::IPV4 { Family::IPV6 } else { Family::IPV4 };
    let other_entries = mc_entries(other, "one", false);
    let mut expect: Vec<(String, Vec<u8>)> = Vec::new(); // (prefix debug, peer address bytes)
    for (si, s) in sources.iter().enumerate() {
        for (ei, e) in entries.iter().enumerate() {
            if si > 0 && ei % 2 == 1 {
                continue; // not every peer announces every prefix
            }
            tables.insert_route(s.clone(), fam, e.clone(), nexthop, attrs.clone(), None, 1);
            expect.push((format!("{}", e.nlri), ip_bytes(s.remote_addr)));
        }
    }
    tables.insert_route(sources[0].clone(), other, other_entries[0].clone(), mc_nexthop(other, if other == Family::IPV6 { "v6" } else { "v4" }), mc_attrs("small"), None, 1);
    let path = format!("{}/C19.td.{}.mrt", work, c.i);
    let r = {
        let mut file = match tokio::fs::File::create(&path).await {
            Ok(f) => f,
            Err(e) => return reader::Obs::failed("error", &format!("harness: cannot create {path}: {e}")),
        };
        let fut = dump_table(Ipv4Addr::new(192, 0, 2, 254), &tables, &mut file);
        let r = AssertUnwindSafe(fut).catch_unwind().await;
        let _ = tokio::io::AsyncWriteExt::flush(&mut file).await;
        r
    };
    match r {
        Err(e) => return reader::Obs::failed("panic", &panic_text(e)),
        Ok(Err(e)) => return reader::Obs::failed("error", &format!("{e:?}")),
        Ok(Ok(())) => {}
    }
    let raw = std::fs::read(&path).unwrap_or_default();
    let _ = std::fs::remove_file(&path);
    let mut o = reader::Obs::new();
    let mut off = 0usize;
    let mut peers: Vec<reader::TdPeer> = Vec::new();
    let mut got: Vec<(String, Vec<u8>)> = Vec::new();
    let mut first = true;
    let want_attrs: Vec<(u8, Vec<u8>)> = {
        // as they appear in an attribute block: ORIGIN is one octet
        let mut a: Vec<(u8, Vec<u8>)> = attrs.iter().map(mc_attr_key).map(|(c, p)| if c == 1 { (c, p[3..].to_vec()) } else { (c, p) }).collect();
        a.sort();
        a
    };
    while off < raw.len() {
        if raw.len() - off < 12 {
            o.lenok = false;
            break;
        }
        let len = u32::from_be_bytes([raw[off + 8], raw[off + 9], raw[off + 10], raw[off + 11]]) as usize;
        if off + 12 + len > raw.len() {
            o.lenok = false;
            break;
        }
        let rec = reader::read_mrt(&raw[off..off + 12 + len]).unwrap();
        off += 12 + len;
        o.nrec += 1;
        reader::Obs::merge_i(&mut o.typ, rec.typ as i64);
        if first {
            first = false;
            if rec.subtype != 1 {
                o.parse = "error: the dump does not start with PEER_INDEX_TABLE".into();
                break;
            }
            match reader::read_peer_index(&rec.body) {
                Err(e) => {
                    o.countok = false;
                    o.note = e;
                    break;
                }
                Ok((_, p, consumed)) => {
                    if !consumed {
                        o.countok = false;
                    }
                    peers = p;
                }
            }
            continue;
        }
        let v6 = match rec.subtype {
            2 => false,
            4 => true,
            s => {
                o.parse = format!("error: unexpected TABLE_DUMP_V2 subtype {s}");
                break;
            }
        };
        let (_, bits, pfx, ents, consumed) = match reader::read_rib(&rec.body, v6) {
            Ok(x) => x,
            Err(e) => {
                o.countok = false;
                o.note = e;
                break;
            }
        };
        if !consumed {
            o.countok = false;
        }
        let pstr = if v6 {
            let mut a = [0u8; 16];
            a[..pfx.len()].copy_from_slice(&pfx);
            format!("{}/{}", std::net::Ipv6Addr::from(a), bits)
        } else {
            let mut a = [0u8; 4];
            a[..pfx.len()].copy_from_slice(&pfx);
            format!("{}/{}", Ipv4Addr::from(a), bits)
        };
        let is_case_family = v6 == (fam == Family::IPV6);
        if is_case_family {
            reader::Obs::merge_i(&mut o.subtype, rec.subtype as i64);
        }
        for e in ents {
            let Some(p) = peers.get(e.peer_index as usize) else {
                o.idxok = false;
                continue;
            };
            if !p.as4 {
                o.idxok = false; // this daemon always writes four-octet AS numbers
            }
            match reader::split_attrs(&e.attrs) {
                Err(x) => o.parse = format!("error: {x}"),
                Ok(list) => {
                    if !is_case_family {
                        continue;
                    }
                    got.push((pstr.clone(), p.addr.clone()));
                    let mut plain: Vec<(u8, Vec<u8>)> = Vec::new();
                    let mut nh_seen: Option<Vec<u8>> = None;
                    for (_fl, code, val) in list {
                        match code {
                            3 => {
                                if val.len() != 4 {
                                    o.parse = format!("error: NEXT_HOP attribute of {} bytes", val.len());
                                }
                                nh_seen = Some(val);
                            }
                            14 => {
                                // RFC 6396 4.3.4: next hop length + next hop only
                                if val.is_empty() || val[0] as usize != val.len() - 1 || !matches!(val[0], 4 | 16 | 32) {
                                    o.parse = "error: MP_REACH_NLRI of a RIB entry is not <next hop length, next hop>".into();
                                }
                                nh_seen = Some(val[1..].to_vec());
                            }
                            _ => {
                                if packet::Attribute::canonical_flags(code).is_some() && packet::Attribute::from_wire_value(code, &val).is_none() {
                                    o.parse = format!("error: attribute {code} malformed");
                                }
                                plain.push((code, val));
                            }
                        }
                    }
                    plain.sort();
                    if plain != want_attrs && o.content == "same" {
                        let codes = |v: &Vec<(u8, Vec<u8>)>| v.iter().map(|(c, p)| format!("{}/{}", c, p.len())).collect::<Vec<_>>().join(" ");
                        o.content = format!("diff: attributes differ: monitored [{}] found [{}]", codes(&want_attrs), codes(&plain));
                    }
                    let want_nh = nexthop.map(|n| n.to_bytes());
                    if nh_seen != want_nh && o.content == "same" {
                        o.content = format!("diff: next hop {:?} monitored, {:?} found", want_nh, nh_seen);
                    }
                }
            }
        }
    }
    if off != raw.len() {
        o.lenok = false;
    }
    // peer table: every source exactly once, with its address / AS / id
    for s in &sources {
        let n = peers.iter().filter(|p| p.addr == ip_bytes(s.remote_addr) && p.v6 == s.remote_addr.is_ipv6()).count();
        if n != 1 {
            o.idxok = false;
            o.note = format!("peer {} listed {} times", s.remote_addr, n);
        }
    }
    for p in &peers {
        if let Some(s) = sources.iter().find(|s| ip_bytes(s.remote_addr) == p.addr) {
            if p.asn != s.remote_asn || p.bgp_id != Ipv4Addr::from(s.router_id).octets() {
                o.idxok = false;
                o.note = "peer entry AS / id differ from the source".into();
            }
        }
    }
    if o.content == "same" && !mc_same_multiset(&got, &expect) {
        o.content = format!("diff: {} (prefix, peer) entries in the table, {} in the dump (or different ones)", expect.len(), got.len());
    }
    o
}

#[tokio::test]
async fn c19_mrt_records() {
    use futures::FutureExt as _;
    let inp = std::env::var("VERIF_IN").expect("VERIF_IN");
    let outp = std::env::var("VERIF_OUT").expect("VERIF_OUT");
    let work = std::env::var("VERIF_WORK").expect("VERIF_WORK");
    let mut out = std::io::BufWriter::new(std::fs::File::create(outp).unwrap());
    let hook = std::panic::take_hook();
    std::panic::set_hook(Box::new(|_| {}));
    let mut shared = mrt::MrtCodec::new();
    for line in std::io::BufReader::new(std::fs::File::open(inp).unwrap()).lines() {
        let line = line.unwrap();
        let Some(c) = parse_case(&line) else { continue };
        let o = match c.k.as_str() {
            "mrt" => observe_mp(&c, &mut shared),
            "td" => observe_td(&c, &work).await,
            _ => continue,
        };
        writeln!(out, "{{\"i\":{},\"obs\":{}}}", c.i, o.to_json()).unwrap();
    }
    std::panic::set_hook(hook);
}
