"""C01 - Every neighbour's view converges to export(Loc-RIB); no withdrawal is lost.

1. design: TLC exhausts Export.tla (RIB with id re-use -> FIFO channel -> Deliver -> pending maps -> Flush -> the neighbour's
   Adj-RIB-In, plus route refresh), every interleaving of RIB changes with delivery and flushing, with Dev = {} (the sound
   design) - and, for each listed known finding, with its deviation switched on (TLC must then exhibit the violation);
2. spec -> impl: model behaviours executed on the real pipeline (real TableManager, real PeerSession: on_established,
   handle_prefix_update, flush_tx, do_route_refresh over a loopback socket, bytes decoded into a mirror), compared with the
   as-implemented model after every step; at the end of every behaviour the session is drained and compared with a BRAND-NEW
   session established on the same RIB (the property verbatim)."""
import json
import os

import vf

LEVEL = "model_checking"
SPEC = os.path.join(vf.ROOT, "spec", "Export")
INVS = ["Converges", "NoStaleRoute", "IdsOK"]
RANK = {"s1": 2, "s2": 3, "o": 1}
# scenario -> (ranking, sources split horizon keeps from the observer): see ex_new_source in harness/daemon/event.rs
SCEN = {"ebgp": (RANK, []), "ibgp": ({"s1": 1, "o": 2, "s2": 3}, ["s2"]), "rs": (RANK, ["s2"]),
        "rr": ({"s1": 1, "o": 2, "s2": 3}, []), "confed": ({"s1": 1, "s2": 2, "o": 3}, [])}


# scenarios whose world runs on a two-shard table manager, and the shard its dealer (FNV hash of the NLRI) gives each prefix;
# the harness verifies this mapping on the real manager and refuses to run otherwise
TWO_SHARDS = ("rr", "confed")
SHARDS2 = {"p1": 1, "p2": 0, "p3": 1}


def ts(xs):
    return "{" + ", ".join(json.dumps(x) if isinstance(x, str) else str(x) for x in sorted(xs)) + "}"


def materialise(name, k, spec, invs, base, constraint=True):
    d = os.path.join(vf.WORK, "export", name)
    os.makedirs(d, exist_ok=True)
    for f in ("Export.tla", "ExportMC.tla"):
        with open(os.path.join(SPEC, f)) as src, open(os.path.join(d, f), "w") as dst:
            dst.write(src.read())
    rank, suppress = SCEN[k.get("scen", "ebgp")]
    arms = " [] ".join(f'x = "{x}" -> {rank[x]}' for x in k["src"])
    with open(os.path.join(d, f"MC_{name}.tla"), "w") as f:
        shards = SHARDS2 if k.get("scen") in TWO_SHARDS else {}
        sarms = " [] ".join(f'x = "{x}" -> {shards.get(x, 0)}' for x in k["prefix"])
        f.write(f"---- MODULE MC_{name} ----\nEXTENDS {base}\ncRank == [x \\in {ts(k['src'])} |-> CASE {arms}]\n"
                f"cShard == [x \\in {ts(k['prefix'])} |-> CASE {sarms}]\n====\n")
    cfgp = os.path.join(d, "run.cfg")
    with open(cfgp, "w") as f:
        f.write(f"CONSTANTS\n  Prefix = {ts(k['prefix'])}\n  Src = {ts(k['src'])}\n  SrcRank <- cRank\n  ShardOf <- cShard\n  Obs = \"{k['obs']}\"\n  Suppress = {ts([x for x in suppress if x in k['src']])}\n"
                f"  Cls = {ts(k['cls'])}\n  Reject = {ts(k.get('reject', []))}\n  RejectSrc = {ts(k.get('rejsrc', []))}\n  SendMax = {k['sendmax']}\n  MaxChan = {k['maxchan']}\n"
                f"  OpKinds = {ts(k.get('ops', []))}\n"
                f"  LidMode = \"{k.get('lid', 'abstract')}\"\n  Dev = {ts(k.get('dev', []))}\n"
                f"SPECIFICATION {spec}\n" + ("CONSTRAINT ChanBound\n" if constraint else "") +
                f"INVARIANTS {' '.join(invs)}\nCHECK_DEADLOCK FALSE\n")
    return d, f"MC_{name}", cfgp


def line(op):
    k = op["k"]
    if k == "announce":
        return f"announce {op['src']} {op['p']} {op['cls']}"
    if k in ("withdraw", "filter"):
        return f"{k} {op['src']} {op['p']}"
    if k in ("peerdown", "markllgr", "nhdown", "nhup", "softin"):
        return f"{k} {op['src']}"
    return k


def mset(m):
    """mirror as a sorted list of (p, src, cls, ll): path ids are compared modulo renaming"""
    return sorted([x["p"], x["src"], x["cls"], x["ll"]] for x in m)


def rset(m):
    return sorted([x[0], x[2], x[3], x[4]] for x in m)


def matches(model_mirror, real):
    """Does the real Adj-RIB-In (rset form) agree with the model's mirror?  Path ids are compared modulo renaming.  Under the
    listed deviation (export map keyed by a re-used destination id) the as-implemented model can hold two pending
    announcements for the same (prefix, path id); only one of them survives at the neighbour and which one is decided by the
    order of the attribute groups on the wire, which the model does not fix: such a slot accepts either content."""
    groups = {}
    for x in model_mirror:
        groups.setdefault((x["p"], x["pid"]), []).append([x["src"], x["cls"], x["ll"]])
    slots = [(k[0], v) for k, v in sorted(groups.items())]
    if len(slots) != len(real):
        return False
    if all(len(v) == 1 for _, v in slots):
        return sorted([p] + v[0] for p, v in slots) == real

    def place(i, used):
        if i == len(real):
            return True
        for si, (p, v) in enumerate(slots):
            if si not in used and p == real[i][0] and real[i][1:] in v and place(i + 1, used | {si}):
                return True
        return False
    return place(0, frozenset())


def run_harness(tag, seqs):
    """seqs: list of (sid, sendmax, [op lines]); returns {(sid, step): record}"""
    inp = os.path.join(vf.WORK, f"C01.{tag}.in")
    outp = os.path.join(vf.WORK, f"C01.{tag}.out")
    with open(inp, "w") as f:
        for sq in seqs:
            sid, sendmax, ops = sq[0], sq[1], sq[2]
            reject = sq[3] if len(sq) > 3 and sq[3] else "-"
            scen = sq[4] if len(sq) > 4 else "ebgp"
            f.write(f"seq {sid} {sendmax} {reject} {scen}\n")
            for o in ops:
                f.write(o + "\n")
    if os.path.exists(outp):
        os.remove(outp)
    rc, out = vf.daemon_test("event::verif_harness::export_replay", env={"VERIF_IN": inp, "VERIF_OUT": outp}, timeout=3000)
    if rc != 0 or not os.path.exists(outp):
        raise vf.ToolError(f"event harness export_replay failed rc={rc}:\n{out[-3000:]}")
    return {(j["seq"], j["step"]): j for j in vf.read_jsonl(outp)}


def known_devs(c):
    """Deviations of the listed known findings whose witness still fails on the real code (DESIGN 3.6)."""
    active = []
    known = [f for f in c.findings if f.get("status") == "known" and f.get("deviation")]
    if not known:
        return active
    seqs = [(f["id"], f.get("sendmax", 1), list(f["witness"])) for f in known]
    got = run_harness("witness", seqs)
    for f in known:
        n = len(f["witness"])
        drained = rset(got[(f["id"], n - 1)]["state"]["mirror"])     # witness ends with: ... flush, fresh
        fresh = rset(got[(f["id"], n)]["state"]["mirror"])
        if drained != fresh:
            active.append(f["deviation"])
            c.report_known(f["id"], f["what_fails"])
    return sorted(set(active))


def establishment_race(c, thorough):
    """'The routes ... are exactly the routes a brand-new session would be sent': a neighbour whose session COMES UP while source
    sessions keep changing the RIB.  register_peer takes, shard by shard and under the shard's lock, the initial dump and
    registers the neighbour's event channel.  Complete interleavings of Subscribe.tla (the model of exactly this hand-over:
    two shards, two source threads, one or two observers, scheduling points before every shard lock) are replayed on real
    threads with the observers being neighbours; the dump folded with the events delivered afterwards must equal what a session
    coming up at the end is given."""
    import C18
    num = 400 if thorough else 150
    inp = os.path.join(vf.WORK, "C01.race.sub.in")
    outp = os.path.join(vf.WORK, "C01.race.out")
    exp = []
    nw = 0
    with open(inp, "w") as f:
        for prog, ends, subs in C18.CONFIGS:
            tag = f"{prog}-{'+'.join(ends) or 'none'}-{len(subs)}"
            rw = vf.tlc(C18.SPEC, "SubscribeMC", C18.cfg(f"C01.race.{tag}.cfg", prog, ends, subs, [], ["EmitWalk"]),
                        workers=1, timeout=900, simulate=num, depth=60, seed=c.seed + 31, heap="4g")
            for w in vf.parse_walks(rw.stdout):
                if not w[-1]["quiescent"]:
                    continue
                # every other behaviour with peer p1's next hop unreachable (its paths are in the table but not in the Loc-RIB)
                f.write(f"walk {prog} {','.join(ends) or '-'} {4 + nw % 2}\n")
                exp.append(("walk", tag, None))
                for stp in w:
                    f.write(f"{stp['th']} {stp['step']}\n")
                    exp.append(("step", tag, stp))
                exp.append(("final", tag, [f"{x['th']} {x['step']}" for x in w]))
                nw += 1
    vf.daemon_test("subscribe_replay", {"VERIF_IN": inp, "VERIF_OUT": outp}, timeout=2400)
    got = vf.read_jsonl(outp)
    if len(got) != len(exp):
        raise vf.ToolError(f"subscribe_replay (neighbours): {len(got)} lines for {len(exp)} expected")
    reported = False
    checked = 0
    for (k, tag, e), g in zip(exp, got):
        if k != "final" or not g.get("completed"):
            continue
        for u, pv in g.get("peers", {}).items():
            checked += 1
            if pv["view"] != pv["fresh"] and not reported:
                reported = True
                c.violation("export.establishment", {"neighbour": u, "dump_plus_events": pv["view"], "a_session_coming_up_now": pv["fresh"],
                                                     "why": "a neighbour whose session came up while the RIB was changing ends up with other routes than a "
                                                            "brand-new session is given"},
                            {"spec": "Subscribe (neighbour registration)", "config": tag, "steps": e})
    if checked == 0:
        raise vf.ToolError("establishment_race: no neighbour view was compared")
    c.cov["parts"]["establishment_race"] = {"behaviours": nw, "neighbour_views_compared": checked}
    c.cov["evaluations"] += checked
    c.cov["traces_validated_against_impl"] += nw


def main(c):
    thorough = c.tier == "thorough"
    devs = known_devs(c)
    designs = [("d1", {"prefix": ["p1", "p2"], "src": ["s1", "o"], "obs": "o", "cls": ["x"], "sendmax": 1, "maxchan": 2}),
               # with an export policy that rejects class y: "filtered" and "replaced by a non-exportable best"
               ("d5", {"prefix": ["p1"], "src": ["s1", "s2", "o"], "obs": "o", "cls": ["x", "y"], "reject": ["y"], "sendmax": 2, "maxchan": 2}),
               # (d8, thorough: announcements the IMPORT policy rejects - the path leaves the ranking but keeps destination and path id)
               # next-hop flaps, and a source that split horizon hides from the observer (the best path can be replaced by a
               # non-exportable one without any policy)
               ("d9", {"prefix": ["p1"], "src": ["s1", "s2"], "obs": "o", "cls": ["x"], "ops": ["nhflap"], "scen": "ibgp", "sendmax": 1, "maxchan": 2}),
               ("d10", {"prefix": ["p1"], "src": ["s1", "s2"], "obs": "o", "cls": ["x"], "ops": ["nhflap"], "scen": "ibgp", "sendmax": 2, "maxchan": 2}),
               # the import policy changes and a soft reset IN re-evaluates a source's paths
               ("d11", {"prefix": ["p1"], "src": ["s1", "s2"], "obs": "o", "cls": ["x", "y"], "ops": ["softin"], "sendmax": 1, "maxchan": 2}),
               # an export policy that rejects by SOURCE (in the daemon: an RPKI condition, the source's routes validate Invalid)
               ("d14", {"prefix": ["p1"], "src": ["s1", "s2", "o"], "obs": "o", "cls": ["x"], "rejsrc": ["s1"], "sendmax": 2, "maxchan": 2})]
    if thorough:
        designs += [("d2", {"prefix": ["p1"], "src": ["s1", "s2", "o"], "obs": "o", "cls": ["x", "y"], "sendmax": 2, "maxchan": 2}),
                    ("d7", {"prefix": ["p1", "p2"], "src": ["s1", "o"], "obs": "o", "cls": ["x"], "ops": ["filter"], "sendmax": 1, "maxchan": 2}),
                    ("d6", {"prefix": ["p1", "p2"], "src": ["s1", "s2"], "obs": "o", "cls": ["x", "y"], "reject": ["y"], "sendmax": 1, "maxchan": 2}),
                    # (two prefixes x three sources x send-max 2 has more than 50 M states, two prefixes x two sources x two classes
                    # with three notifications in flight does not finish in 12 min either: d6 is the largest two-prefix design)
                    ("d3", {"prefix": ["p1", "p2"], "src": ["s1", "o"], "obs": "o", "cls": ["x"], "sendmax": 2, "maxchan": 2}),
                    ("d8", {"prefix": ["p1"], "src": ["s1", "s2", "o"], "obs": "o", "cls": ["x"], "ops": ["filter"], "sendmax": 2, "maxchan": 2}),
                    ("d11b", {"prefix": ["p1"], "src": ["s1", "s2"], "obs": "o", "cls": ["x", "y"], "ops": ["softin"], "sendmax": 2, "maxchan": 2}),
                    ("d12", {"prefix": ["p1"], "src": ["s1", "s2", "o"], "obs": "o", "cls": ["x", "y"], "ops": ["softin"], "scen": "ibgp", "sendmax": 2, "maxchan": 2}),
                    ("d13", {"prefix": ["p1", "p2"], "src": ["s1", "s2"], "obs": "o", "cls": ["x"], "ops": ["nhflap"], "scen": "ibgp", "sendmax": 1, "maxchan": 2})]
    for name, k in designs:
        d, m, cfgp = materialise(name, k, "Spec", INVS, "Export")
        r = vf.tlc(d, m, cfgp, workers=12, timeout=1500, heap="12g")
        c.add_tlc("design-" + name, r)
        c.cov["parts"]["design-" + name]["constants"] = k
        if r.violated:
            c.violation("design", {"invariant": r.violated, "config": k, "tlc": r.error_text[:3000]},
                        {"spec": "Export", "config": k, "counterexample": r.error_text[:20000]})
    if c.violations:
        return
    # each active deviation must be exhibited by TLC at model level too
    for dv in devs:
        k = dict(designs[0][1])
        k["dev"] = [dv]
        d, m, cfgp = materialise("dev_" + dv, k, "Spec", INVS, "Export")
        r = vf.tlc(d, m, cfgp, workers=8, timeout=900)
        c.cov["parts"]["deviation-" + dv] = {"tlc_violates": r.violated}
        if not r.violated:
            raise vf.ToolError(f"deviation {dv} is listed as a known finding but the model with it satisfies the property")
    # conformance: random behaviours of the as-implemented model on the real pipeline
    walks_cfg = [("w1", {"prefix": ["p1", "p2"], "src": ["s1", "s2", "o"], "obs": "o", "cls": ["x", "y"], "sendmax": 1, "maxchan": 3}),
                 ("w2", {"prefix": ["p1", "p2"], "src": ["s1", "s2", "o"], "obs": "o", "cls": ["x", "y"], "sendmax": 2, "maxchan": 3}),
                 ("w3", {"prefix": ["p1", "p2"], "src": ["s1", "s2", "o"], "obs": "o", "cls": ["x", "y"], "reject": ["y"], "ops": ["filter"], "sendmax": 1, "maxchan": 3}),
                 ("w4", {"prefix": ["p1", "p2"], "src": ["s1", "s2", "o"], "obs": "o", "cls": ["x", "y"], "reject": ["y"], "ops": ["filter"], "sendmax": 2, "maxchan": 3}),
                 # an internal (non-client) observer, an internal source hidden by split horizon, next-hop flaps
                 ("w5", {"prefix": ["p1", "p2"], "src": ["s1", "s2", "o"], "obs": "o", "cls": ["x", "y"], "ops": ["nhflap", "filter"], "scen": "ibgp", "sendmax": 1, "maxchan": 3}),
                 ("w6", {"prefix": ["p1", "p2"], "src": ["s1", "s2", "o"], "obs": "o", "cls": ["x", "y"], "reject": ["y"], "ops": ["nhflap"], "scen": "ibgp", "sendmax": 2, "maxchan": 3}),
                 # a route-server client observing: the plain external source stays behind the route-server boundary
                 ("w7", {"prefix": ["p1", "p2"], "src": ["s1", "s2", "o"], "obs": "o", "cls": ["x", "y"], "ops": ["nhflap"], "scen": "rs", "sendmax": 1, "maxchan": 3}),
                 ("w8", {"prefix": ["p1", "p2"], "src": ["s1", "s2", "o"], "obs": "o", "cls": ["x", "y"], "ops": ["nhflap", "filter"], "scen": "rs", "sendmax": 2, "maxchan": 3}),
                 # import-policy changes followed (or not) by soft resets IN
                 ("w9", {"prefix": ["p1", "p2"], "src": ["s1", "s2", "o"], "obs": "o", "cls": ["x", "y"], "ops": ["softin", "filter"], "sendmax": 1, "maxchan": 3}),
                 ("w10", {"prefix": ["p1", "p2"], "src": ["s1", "s2", "o"], "obs": "o", "cls": ["x", "y"], "ops": ["softin", "nhflap"], "scen": "ibgp", "sendmax": 2, "maxchan": 3}),
                 # a route-reflector client and a confederation-external neighbour observing, two shards
                 ("w13", {"prefix": ["p1", "p2"], "src": ["s1", "s2", "o"], "obs": "o", "cls": ["x", "y"], "ops": ["nhflap", "filter"], "scen": "rr", "sendmax": 1, "maxchan": 3}),
                 ("w14", {"prefix": ["p1", "p2"], "src": ["s1", "s2", "o"], "obs": "o", "cls": ["x", "y"], "reject": ["y"], "scen": "rr", "sendmax": 2, "maxchan": 3}),
                 ("w15", {"prefix": ["p1", "p2"], "src": ["s1", "s2", "o"], "obs": "o", "cls": ["x", "y"], "ops": ["nhflap", "softin"], "scen": "confed", "sendmax": 1, "maxchan": 3}),
                 ("w16", {"prefix": ["p1", "p2"], "src": ["s1", "s2", "o"], "obs": "o", "cls": ["x", "y"], "ops": ["filter"], "scen": "confed", "sendmax": 2, "maxchan": 3}),
                 # the neighbour's export policy has an RPKI condition (rejects what validates Invalid: one source's routes) and
                 # was accumulated over two assignment requests; alone and together with the class rejection
                 ("w11", {"prefix": ["p1", "p2"], "src": ["s1", "s2", "o"], "obs": "o", "cls": ["x", "y"], "rejsrc": ["s1"], "sendmax": 1, "maxchan": 3}),
                 ("w12", {"prefix": ["p1", "p2"], "src": ["s1", "s2", "o"], "obs": "o", "cls": ["x", "y"], "reject": ["y"], "rejsrc": ["s2"], "ops": ["filter"], "sendmax": 2, "maxchan": 3})]
    nwalks, depth = (1500, 30) if thorough else (500, 25)
    allw = []
    hseqs = []
    for wi, (name, k) in enumerate(walks_cfg):
        k = dict(k)
        k["dev"] = devs
        k["lid"] = "real"
        d, m, cfgp = materialise(name, k, "GenSpec", ["EmitWalk"], "ExportMC", constraint=False)
        r = vf.tlc(d, m, cfgp, workers=1, timeout=1500, simulate=nwalks, depth=depth, seed=c.seed * 100 + wi + 1, heap="4g")
        cur, last = None, 0
        walks = []
        for ln in r.stdout.splitlines():
            if ln.startswith('"{'):
                j = json.loads(json.loads(ln))
                if j["lvl"] == 2:
                    cur = []
                    walks.append(cur)
                elif cur is None or j["lvl"] != last + 1:
                    continue        # TLC re-evaluates the last state of a dead-ended walk: not a step
                last = j["lvl"]
                cur.append(j)
        for si, w in enumerate(walks):
            sid = f"{name}/{si}"
            nd = w[-1]["chan"]
            hseqs.append((sid, k["sendmax"], [line(stp["op"]) for stp in w] + ["deliver"] * nd + ["flush", "fresh"],
                          ((k.get("reject") or ["-"])[0] + ("@" + k["rejsrc"][0] if k.get("rejsrc") else "")), k.get("scen", "ebgp")))
            allw.append((sid, k, w, nd))
        c.cov["parts"]["walks-" + name] = {"walks": len(walks), "constants": k}
    got = run_harness("walks", hseqs)
    steps = 0
    distinct = set()
    known_hits = 0
    for sid, k, w, nd in allw:
        ops = [line(x["op"]) for x in w]
        bad = None
        for i, stp in enumerate(w, start=1):
            j = got.get((sid, i))
            if j is None:
                raise vf.ToolError(f"no record for {sid} step {i}")
            steps += 1
            distinct.add(vf.canon(stp["op"]) + "|" + vf.canon(mset(stp["mirror"])) + "|" + str(stp["chan"]))
            real = rset(j["state"]["mirror"])
            if j["note"]:
                bad = ("export.panic" if "PANIC" in j["note"] else "export.harness", {"step": i, "op": stp["op"], "note": j["note"]})
                break
            if not matches(stp["mirror"], real):
                bad = ("export.mirror", {"step": i, "op": stp["op"], "expected": mset(stp["mirror"]), "actual": real,
                                         "why": "the neighbour's Adj-RIB-In after this step differs from the model's"})
                break
        if bad is None:
            n = len(w)
            jq = got[(sid, n + nd + 1)]            # after draining and flushing
            jf = got[(sid, n + nd + 2)]            # the brand-new session
            quiesced = rset(jq["state"]["mirror"])
            fresh = rset(jf["state"]["mirror"])
            steps += 2
            if not jq["state"]["pend_empty"]:
                bad = ("export.pending", {"why": "updates still pending after a flush"})
            elif not matches(w[-1]["fresh"], fresh):
                bad = ("export.fresh", {"expected": mset(w[-1]["fresh"]), "actual": fresh,
                                        "why": "a brand-new session is sent something else than export(Loc-RIB)"})
            elif quiesced != fresh:
                model_diverges = mset(w[-1]["qmirror"]) != mset(w[-1]["fresh"])
                if model_diverges and matches(w[-1]["qmirror"], quiesced) and devs:
                    known_hits += 1      # the listed finding, reproduced by a random behaviour (already reported)
                else:
                    bad = ("export.converge", {"drained_session": quiesced, "brand_new_session": fresh,
                                               "why": "after flushing, the neighbour's routes differ from what a brand-new session is sent"})
        if bad:
            kind, detail = bad
            c.violation(kind, detail, {"spec": "Export", "config": k, "ops": ops + ["deliver"] * nd + ["flush", "fresh"]})
    c.cov["evaluations"] = steps
    c.cov["distinct_nontrivial"] = len(distinct)
    c.cov["traces_validated_against_impl"] = len(allw)
    c.cov["exhaustive"] = False
    c.cov["parts"]["known_finding_witnessed_in_walks"] = known_hits
    c.cov["rule"] = ("design: TLC exhausts Export.tla for the listed constants; conformance: random behaviours of the model run on the "
                     "real export pipeline, mirror compared after every step, then drained and compared with a brand-new session; "
                     "distinct = distinct (operation, mirror, channel length) triples")
    if allw:
        c.sample({"config": allw[0][1], "ops": [line(x["op"]) for x in allw[0][2][:12]]})
    establishment_race(c, thorough)
    c.assumptions += [
        "ranking among sources is by router-id only (all other steps tie), LLGR-stale last; path ids are compared modulo renaming",
        "half of the behaviours run under an export policy that rejects one attribute class (policy evaluation itself is C14); "
        "roles other than eBGP are C09",
        "the observing neighbour also appears as a source so that echo suppression is exercised",
    ]
