"""C12 - RPKI origin validation returns exactly the RFC 6811 state for any route and VRPs.

1. design: TLC exhausts Rov.tla (all VRP sets up to MaxVrps over a W-bit address space, all histories of
   insert / remove / drop-source) under the RFC 6811 invariants;
2. spec -> impl: every reachable VRP set, with the state the specification computes for every route, is replayed on the
   real RpkiTable embedded at several bit offsets of IPv4 and IPv6 (on and off byte boundaries); validate(), the table
   contents and the remove / drop_source / duplicate-insert algebra are compared."""
import json
import os

import vf

LEVEL = "model_checking"
SPEC = os.path.join(vf.ROOT, "spec", "Rov")
INVS = ["OnlyCoveringMatters", "StatesConsistent", "As0NeverValid", "DropSourceOK", "ResetOK"]
EMB_QUICK = [{"fam": "v4", "off": 6}, {"fam": "v4", "off": 8}, {"fam": "v4", "off": 21}, {"fam": "v6", "off": 61},
             {"fam": "v6", "off": 64}]
EMB_THOROUGH = EMB_QUICK + [{"fam": "v4", "off": 0}, {"fam": "v4", "off": 13}, {"fam": "v4", "off": 24}, {"fam": "v4", "off": 29},
                            {"fam": "v6", "off": 0}, {"fam": "v6", "off": 120}, {"fam": "v6", "off": 125}, {"fam": "v6", "off": 7}]


def cfg(name, w, maxv, spec, invs):
    d = os.path.join(vf.WORK, "cfg")
    os.makedirs(d, exist_ok=True)
    p = os.path.join(d, name)
    with open(p, "w") as f:
        f.write(f"CONSTANTS\n  W = {w}\n  Caches = {{\"k1\", \"k2\"}}\n  Asns = {{0, 1, 2, 3}}\n  Origins = {{1, 2, 3, 5, 98, 99}}\n"
                f"  MaxVrps = {maxv}\nSPECIFICATION Spec\nINVARIANTS {' '.join(invs)}\nCHECK_DEADLOCK FALSE\n")
    return p


def main(c):
    thorough = c.tier == "thorough"
    w, maxv = (3, 2)
    r = vf.tlc(SPEC, "Rov", cfg("C12.design.cfg", w, maxv, "Spec", INVS), workers=8, timeout=1500)
    c.add_tlc("design", r)
    if r.violated:
        c.violation("design", {"invariant": r.violated, "tlc": r.error_text[:3000]}, {"spec": "Rov", "counterexample": r.error_text[:20000]})
        return
    if thorough:
        r3 = vf.tlc(SPEC, "Rov", cfg("C12.design3.cfg", 2, 3, "Spec", INVS), workers=12, timeout=2400)
        c.add_tlc("design-w2-3vrps", r3)
        if r3.violated:
            c.violation("design", {"invariant": r3.violated, "tlc": r3.error_text[:3000]}, {"spec": "Rov"})
            return
    g = vf.tlc(SPEC, "RovMC", cfg("C12.gen.cfg", w, maxv, "Spec", ["EmitState", "EmitRoutes"]), workers=4, timeout=1500)
    routes = None
    states = []
    for line in g.stdout.splitlines():
        if line.startswith('"{'):
            j = json.loads(json.loads(line))
            if "routes" in j:
                routes = j["routes"]
            else:
                states.append(j)
    if routes is None or not states:
        raise vf.ToolError("RovMC produced no states")
    inp = os.path.join(vf.WORK, "C12.in")
    outp = os.path.join(vf.WORK, "C12.out")
    with open(inp, "w") as f:
        f.write(json.dumps({"w": w, "local_as": 3, "embeddings": EMB_THOROUGH if thorough else EMB_QUICK}) + "\n")
        f.write(json.dumps({"routes": routes}) + "\n")
        for s in states:
            f.write(json.dumps(s) + "\n")
    rc, so, se = vf.lib_run("rpki_replay", [inp, outp], timeout=2400)
    if rc != 0:
        raise vf.ToolError(f"rpki_replay failed rc={rc}: {se[-2000:]}")
    summary = None
    for j in vf.read_jsonl(outp):
        if "summary" in j:
            summary = j["summary"]
        elif "mismatch" in j:
            c.violation("rov." + j["mismatch"], {"embedding": j["emb"], "vrps": j["vrps"], "detail": j["detail"]},
                        {"spec": "Rov", "w": w, "embedding": j["emb"], "vrps": j["vrps"], "detail": j["detail"]})
    if summary is None:
        raise vf.ToolError("rpki_replay wrote no summary")
    c.cov["evaluations"] = summary["evaluations"]
    c.cov["distinct_nontrivial"] = summary["nontrivial"]
    c.cov["traces_validated_against_impl"] = summary["states"] * summary["embeddings"]
    c.cov["exhaustive"] = True
    c.cov["parts"]["replay"] = summary
    c.cov["rule"] = (f"every VRP set of at most {maxv} VRPs over a {w}-bit space (2 caches, AS 0-3) x every route (all prefixes x "
                     "origins AS1/AS2/local/AS_SET tail/AS_SET tail after a sequence ending in AS1/AS_SET head before a sequence) x every embedding offset; non-trivial = some route is Valid or Invalid")
    c.sample({"vrps": states[len(states) // 2]["vrps"], "expected": "".join(states[len(states) // 2]["exp"])})
    import drvlib
    drvlib.rov_use(c, routes, states, w)
    c.assumptions += ["the W-bit space is embedded at fixed bit offsets of IPv4/IPv6 under a fixed base pattern; the trie code is "
                      "assumed not to depend on the base bits beyond byte alignment",
                      "origin derivation per RFC 6811: AS_SEQUENCE tail -> that AS, AS_SET tail -> NONE (matches nothing), empty "
                      "AS_PATH -> local AS"]
