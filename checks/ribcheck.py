"""Common driver of the three RIB checks (C02, C06, C15) and the table half of C11."""
import json
import os

import riblib
import vf
from riblib import Cfg, NO_DEFER, NO_LLGR, ALL_OPS

COMMON_KINDS = ("state.ent", "state.flags", "res", "panic")


def run(c, pid, kinds, design_cfgs, walk_cfgs, invariants, nwalks, depth, edge_cfgs=()):
    kinds = tuple(kinds) + COMMON_KINDS
    replay_file = os.environ.get("VERIF_REPLAY")
    if replay_file:
        rp = json.load(open(replay_file))["replay"]
        d = rp["config"]
        cfg = Cfg("replay", d["prefixes"], d["sessions"], d["rids"], d["classes"], d["nexthops"], d["filt"], d["limits"],
                  d["evpn"], d.get("ops"))
        walk = model_walk(cfg, rp["ops"])
        steps, distinct, seen = riblib.replay_walks(c, pid, cfg, [walk], kinds=kinds, tag="replay")
        c.cov["evaluations"] = steps
        c.cov["distinct_nontrivial"] = max(2, len(distinct))
        c.sample(rp["ops"][:10])
        return
    for cfg in design_cfgs:
        r = riblib.design(cfg, invariants=invariants)
        c.add_tlc("design-" + cfg.name, r)
        c.cov["parts"]["design-" + cfg.name]["constants"] = cfg.describe()
        if r.violated:
            c.violation("design", {"invariant": r.violated, "config": cfg.describe(), "tlc": r.error_text[:3000]},
                        {"spec": "Rib", "config": cfg.describe(), "counterexample": r.error_text[:20000]})
    if c.violations:
        return
    total_steps = 0
    total_distinct = 0
    nseq = 0
    for cfg in edge_cfgs:
        edges, r = riblib.gen_edges(cfg)
        seqs, covered, total = vf.cover_sequences(
            edges, key=lambda e: vf.canon(e["pre"]), post_key=lambda e: vf.canon(e["post"]),
            init_key=vf.canon(init_pj(edges)), max_len=80)
        walks = [[edges[i] for i in s] for s in seqs]
        steps, distinct, seen = riblib.replay_walks(c, pid, cfg, walks, kinds=kinds, tag="edge")
        c.cov["parts"]["edges-" + cfg.name] = {"model_transitions": total, "covered": covered, "sequences": len(seqs),
                                               "steps_replayed": steps, "divergence_kinds_seen": seen,
                                               "constants": cfg.describe()}
        total_steps += steps
        total_distinct += total
        nseq += len(seqs)
        if walks:
            c.sample({"config": cfg.name, "ops": [x["op"] for x in walks[0][:8]]})
    for i, cfg in enumerate(walk_cfgs):
        walks = riblib.gen_walks(cfg, nwalks, depth, c.seed * 1000 + i + 1)
        steps, distinct, seen = riblib.replay_walks(c, pid, cfg, walks, kinds=kinds)
        c.cov["parts"]["walks-" + cfg.name] = {"walks": len(walks), "steps_replayed": steps,
                                               "distinct_op_state_pairs": len(distinct),
                                               "divergence_kinds_seen": seen, "constants": cfg.describe()}
        total_steps += steps
        total_distinct += len(distinct)
        nseq += len(walks)
        if walks:
            c.sample({"config": cfg.name, "ops": [x["op"] for x in walks[0][:8]]})
    c.cov["evaluations"] = total_steps
    c.cov["distinct_nontrivial"] = total_distinct
    c.cov["traces_validated_against_impl"] = nseq
    c.cov["exhaustive"] = False
    c.cov["rule"] = ("design: TLC exhausts Rib.tla for the listed constants; conformance: model behaviours (edge cover of the "
                     "small configurations, random walks of the larger ones) executed on the real table::Table, every step "
                     "compared with the model and checked by the property monitors; distinct = distinct (operation, resulting "
                     "path set) pairs / model transitions")


def init_pj(edges):
    for e in edges:
        if all(not v for v in e["pre"]["ent"].values()) and not e["pre"]["closed"] and not e["pre"]["nhbad"] \
                and not e["pre"]["defer"]:
            return e["pre"]
    return edges[0]["pre"]


def model_walk(cfg, ops):
    """Ask TLC for the model's states along a fixed operation sequence (used by --replay)."""
    d, m, cfgp = cfg.materialise("replay", "GenSpec", ["EmitWalk"], extra_modules=())
    # constrain the generator to the given sequence through a scripted module
    script = os.path.join(d, f"MC_{cfg.name}.tla")
    txt = open(script).read().replace("====", "")
    seq = "<< " + ", ".join(tla_rec(o) for o in ops) + " >>"
    txt += f"\nScript == {seq}\n"
    txt += ("ScriptNext == /\\ TLCGet(\"level\") <= Len(Script)\n"
            "              /\\ LET op == Script[TLCGet(\"level\")] IN\n"
            "                   /\\ s' = Step(s, op) /\\ act' = op /\\ pre' = s\n"
            "ScriptSpec == GenInit /\\ [][ScriptNext]_<<s, pre, act>>\n====\n")
    open(script, "w").write(txt)
    with open(cfgp, "w") as f:
        f.write(cfg.cfg_text("ScriptSpec", ["EmitWalk"]))
    r = vf.tlc(d, m, cfgp, workers=1, timeout=300)
    walk = []
    for line in r.stdout.splitlines():
        if line.startswith('"{'):
            walk.append(json.loads(json.loads(line)))
    walk.sort(key=lambda j: j["lvl"])
    if len(walk) != len(ops):
        raise vf.ToolError(f"scripted model run produced {len(walk)} states for {len(ops)} ops")
    return walk


def tla_rec(o):
    parts = []
    for k, v in o.items():
        if isinstance(v, bool):
            parts.append(f"{k} |-> {'TRUE' if v else 'FALSE'}")
        elif isinstance(v, int):
            parts.append(f"{k} |-> {v}")
        else:
            parts.append(f'{k} |-> "{v}"')
    return "[" + ", ".join(parts) + "]"
