"""C20 - Kernel FIB requests and next-hop tracking stay in step with the RIB.

Rib.tla (the RIB model of C02/C06/C15, with the decision process and the ECMP set) gives, in every state, the next-hop set the
FIB must hold per prefix (fib = next hops of EcmpSet) and the number of paths using each next hop (reg).  Random behaviours of
the model (insert / replace / remove / peer drop / stale marking and purge / LLGR marking and purge / next-hop reachability
flips / soft reset IN under an import policy that sets the next hop, over three peers and shared next hops; IPv4, IPv6 and
VPNv4 / VPNv6 prefixes with three VRFs whose import targets match some, all or none of the paths' route targets) are replayed through the real TableManager with a readable kernel handle
(cfg-guarded constructor in the kernel crate); after every operation the request stream is drained and folded, and compared
with the model."""
import json
import os

import riblib
import vf
from riblib import Cfg, CLASSES, SESSIONS, PEER_ADDR, PREFIXES, NEXTHOPS, VRFS

LEVEL = "exploration"
OPS = ["insert", "remove", "drop", "markstale", "dropstale", "markllgr", "dropllgr", "nhflip", "softreset"]


def header(cfg):
    L = []
    for x in cfg.sessions:
        i = SESSIONS[x]
        L.append(f"sess {x} {PEER_ADDR[i['peer']]} {1 if i['ebgp'] else 0} {i['rtr']} {i.get('role', '')}".rstrip())
    for p in cfg.prefixes:
        L.append(f"prefix {p} {PREFIXES[p]}")
    for n in cfg.nexthops:
        L.append(f"nh {n} {NEXTHOPS[n]}")
    for cn in cfg.classes:
        c = CLASSES[cn]
        asp = ";".join(f"{t}:{','.join(str(a) for a in asns)}" for t, asns in c["aspath"])
        comm = ",".join(str(x) for x in c["comm"]) or "-"
        rts = ",".join(str(x) for x in c.get("rts", [])) or "-"
        L.append(f"cls {cn} {c['lp']} {c['origin']} {c['clen']} {c['oid']} {asp} {comm} {rts}")
    for v in cfg.vrfs:
        tid, rd, imp = VRFS[v]
        L.append(f"vrf {v} {tid} {rd} {','.join(str(x) for x in imp)}")
    return L


def op_line(cfg, o):
    k = o["k"]
    if k == "insert":
        return f"insert {o['sess']} {o['p']} {o['rid']} {o['cls']} {o['nh']} {1 if o['filt'] else 0}"
    if k == "remove":
        return f"remove {o['sess']} {o['p']} {o['rid']}"
    if k == "nhflip":
        return f"nhflip {o['nh']} {1 if o['up'] else 0}"
    sess = next(x for x in cfg.sessions if SESSIONS[x]["peer"] == o["peer"])
    if k == "softreset":
        return f"softreset {sess} {o['to']}"
    return f"{k} {sess}"


def vrf_mismatch(cfg, e, g, efib, vobs):
    """VRF clause: every VRF whose import targets match the best path holds the prefix's next-hop set; without an eligible
    path no VRF holds anything.  A VRF the best path does not match is not constrained by the property (counted only)."""
    for v in cfg.vrfs:
        for p, mode in e["post"]["vfib"][v].items():
            got = g["vfib"].get(v, {}).get(p, [])
            if vobs is not None:
                vobs[mode] += 1
                if mode == "none" and got:
                    vobs["left_in_unmatched_vrf"] += 1
            if mode == "must" and got != efib[p]:
                return {"vrf": v, "prefix": p, "expected": efib[p], "actual": got, "why": "the best path's route targets match this VRF's import targets"}
            if mode == "empty" and got:
                return {"vrf": v, "prefix": p, "expected": [], "actual": got, "why": "no eligible path is left"}
    if "?" in g["vfib"]:
        return {"why": "a request for a table or prefix that does not exist", "actual": g["vfib"]}
    return None


def main(c):
    thorough = c.tier == "thorough"
    cfgs = [
        # three sessions that tie up to the router-id step (two external, one route-server client) with three next hops, so
        # that the tied set can have a hole in the middle; an internal one below them
        Cfg("f1", ["p1", "p2"], ["a1", "c1", "d1", "b1"], {"A": [0], "B": [0], "C": [0], "D": [0]}, ["c1", "c2", "c3"], ["n1", "n2", "n3"],
            filt=(False, True), ops=OPS),
        Cfg("f2", ["p1", "p2"], ["a1", "b1", "d1", "e1"], {"A": [0, 1], "B": [0], "D": [0], "E": [0]}, ["c1", "c4", "cN"], ["n1", "n2", "n3"],
            filt=(False,), ops=OPS),
        # the VRF clause and the IPv6 half: one IPv6 prefix, a VPNv4 and a VPNv6 prefix, three VRFs with kernel tables (two
        # import one route target each, one imports a target nobody carries), classes carrying 0, 1 or 2 route targets
        Cfg("f3", ["p3", "q1", "q2"], ["a1", "b1", "c1"], {"A": [0, 1], "B": [0], "C": [0]}, ["r1", "r2", "r3", "c4"], ["n1", "n2"],
            filt=(False, True), ops=OPS, vrfs=["va", "vb", "vc"]),
    ]
    num, depth = (1500, 40) if thorough else (250, 30)
    total = 0
    steps = 0
    vobs = {"must": 0, "may": 0, "none": 0, "empty": 0, "left_in_unmatched_vrf": 0}
    if thorough:
        # the decision process and the ECMP set of the model itself, exhaustively, over a configuration TLC can finish (one
        # prefix, three peers, tying / winning classes, two next hops, import rejection, every operation incl. soft reset)
        dcfg = Cfg("fd", ["p1"], ["a1", "b1", "c1"], {"A": [0], "B": [0], "C": [0]}, ["c1", "c2", "c3"], ["n1", "n2"], filt=(False, True), ops=OPS)
        r = riblib.design(dcfg, ["OrderOK", "BestOK"], timeout=2400, workers=10)
        c.add_tlc("design-" + dcfg.name, r)
        if r.violated:
            c.violation("design", {"invariant": r.violated, "tlc": r.error_text[:3000]}, {"spec": "Rib", "config": dcfg.describe()})
            return
    for cfg in cfgs:
        walks = riblib.gen_walks(cfg, num, depth, c.seed + 5)
        if not walks:
            raise vf.ToolError("RibMC produced no walks")
        inp = os.path.join(vf.WORK, f"C20.{cfg.name}.fib.in")
        outp = os.path.join(vf.WORK, f"C20.{cfg.name}.out")
        exp = []
        with open(inp, "w") as f:
            f.write("\n".join(header(cfg)) + "\n")
            for wi, w in enumerate(walks):
                if wi % 211 == 0:
                    c.sample([op_line(cfg, stp["op"]) for stp in w][:40])
                f.write("init\n")
                exp.append(None)
                for stp in w:
                    f.write(op_line(cfg, stp["op"]) + "\n")
                    exp.append(stp)
        vf.daemon_test("fib_replay", {"VERIF_IN": inp, "VERIF_OUT": outp}, timeout=2400)
        got = vf.read_jsonl(outp)
        if len(got) != len(exp):
            raise vf.ToolError(f"fib_replay: {len(got)} results for {len(exp)} steps")
        hist = []
        skip = False
        seen = set()
        for e, g in zip(exp, got):
            if e is None:
                hist = []
                skip = False
                total += 1
                continue
            if skip:
                continue
            hist.append(e["op"])
            steps += 1
            bad = None
            detail = {}
            efib = {p: sorted(v) for p, v in e["post"]["fib"].items()}
            if g["fib"] != efib:
                bad = "fib"
                detail = {"expected": efib, "actual": g["fib"]}
            elif vrf_mismatch(cfg, e, g, efib, vobs):
                bad = "vrf_fib"
                detail = vrf_mismatch(cfg, e, g, efib, None)
            elif g["neg"]:
                bad = "reg_negative"
                detail = {"what": "more unregistrations than registrations for a next hop", "reg": g["reg"]}
            elif g["reg"] != e["post"]["reg"]:
                bad = "reg"
                detail = {"expected": e["post"]["reg"], "actual": g["reg"]}
            if bad:
                skip = True
                sig = (bad, e["op"]["k"])
                if sig in seen:
                    continue
                seen.add(sig)
                c.violation("c20." + bad, dict(detail, op=e["op"]), {"spec": "Rib", "config": cfg.describe(), "ops": hist})
    c.cov["parts"]["replay"] = {"behaviours": total, "steps": steps}
    c.cov["parts"]["vrf_cells"] = vobs
    c.cov["traces_validated_against_impl"] = total
    c.cov["distinct_nontrivial"] = total
    c.cov["evaluations"] = steps                           # operations executed on the real TableManager
    c.cov["exhaustive"] = False
    c.cov["rule"] = ("random behaviours of Rib.tla over 2-3 prefixes (IPv4, IPv6, VPNv4, VPNv6; 3 VRFs), 3 peers (one with two successive sessions / two path ids), attribute "
                     "classes that tie / win / lose, 2-3 shared next hops, import-policy rejection; distinct = replayed behaviours")
    c.assumptions += ["VRFs are configured before the history starts (the property's histories do not add or delete VRFs); VPN prefixes of "
                      "different route distinguishers do not share an inner prefix; a VRF the current best path does not match is not "
                      "constrained (entries left there are counted in parts.vrf_cells.left_in_unmatched_vrf, not reported)",
                      "a next-hop-setting import policy cannot be configured (build_assignment refuses it); the soft-reset operation "
                      "installs one built as an export-direction assignment, as the only way to exercise the quantifier's "
                      "'soft reset with next-hop-changing policy'",
                      "the kernel service's own reference counting (run_service_loop) is represented by folding register/unregister requests"]
