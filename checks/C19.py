"""C19 - Every emitted BMP/MRT record is well-formed and carries the intended BGP data.

spec/MonitorRecord/MonitorRecord.tla enumerates the monitored events (Route Monitoring for every view / peer family / address
family / add-path setting / NLRI count incl. more than fit one or sixteen BGP messages / attribute size incl. beyond 4096
octets / next-hop family; Peer Up / Peer Down / Initiation; BGP4MP; TABLE_DUMP_V2 dumps) and states per event the structural
fields an independent reader must find.  Every event is converted by the daemon's real converters, encoded by the real
BmpCodec / MrtCodec / dump_table, read back by a reader written from RFC 7854 / 6396 / 8050, its embedded PDUs parsed by the
repository's BGP parser with the add-path setting the record states, and the observation is validated by TLC against
MonitorRecordTrace.tla.

spec/BmpSession/BmpSession.tla is the state machine of a BMP session (stations, peers coming up and going down, routes);
its behaviours are replayed on the real BmpClient::serve with real BGP sessions over loopback sockets, and the station's
bytes are folded into per-peer state and compared with the model and the RIB."""
import json
import os

import vf

LEVEL = "exploration"
SPEC = os.path.join(vf.ROOT, "spec", "MonitorRecord")


def case_line(i, c):
    return "\t".join([str(i), c["k"], c["view"], c["peer"], c["local"], c["fam"], str(c["addpath"]).lower(), c["dir"], c["count"], c["nh"],
                      c["attrs"], c["x"]])


def records(c):
    r = vf.tlc(SPEC, "MonitorRecordMC", os.path.join(SPEC, "q.cfg"), workers=4, timeout=600)
    c.add_tlc("cases", r)
    if r.violated:
        c.violation("design", {"invariant": r.violated, "tlc": r.error_text[:3000]}, {"spec": "MonitorRecord"})
        return
    cases = [json.loads(json.loads(ln))["case"] for ln in r.stdout.splitlines() if ln.startswith('"{')]
    cases.sort(key=vf.canon)
    inp = os.path.join(vf.WORK, "C19.in")
    with open(inp, "w") as f:
        for i, j in enumerate(cases):
            f.write(case_line(i, j) + "\n")
    res = {}
    for test, tag in (("bmp::verif_harness::c19_bmp_records", "bmp"), ("mrt::verif_harness::c19_mrt_records", "mrt")):
        outp = os.path.join(vf.WORK, f"C19.{tag}.out")
        if os.path.exists(outp):
            os.remove(outp)
        rc, out = vf.daemon_test(test, env={"VERIF_IN": inp, "VERIF_OUT": outp, "VERIF_WORK": vf.WORK}, timeout=1500)
        if rc != 0 or not os.path.exists(outp):
            raise vf.ToolError(f"{test} failed rc={rc}: {out[-3000:]}")
        for j in vf.read_jsonl(outp):
            res[j["i"]] = j["obs"]
    if len(res) != len(cases):
        raise vf.ToolError(f"the harnesses answered {len(res)} of {len(cases)} cases")
    idx = sorted(res)
    tp = os.path.join(vf.WORK, "C19.trace.ndjson")
    with open(tp, "w") as f:
        for i in idx:
            o = {k: (v.split(":")[0] if k in ("parse", "content") else v) for k, v in res[i].items() if k != "note"}
            f.write(json.dumps({"case": cases[i], "obs": o}) + "\n")
    tr = vf.tlc_trace(SPEC, "MonitorRecordTrace", os.path.join(SPEC, "trace.cfg"), tp, timeout=900)
    c.cov["traces_validated_against_impl"] += 1
    if tr.violated or f"{len(idx) + 1} distinct states" not in tr.stdout:
        raise vf.ToolError("MonitorRecordTrace did not consume the whole trace:\n" + tr.stdout[-2000:])
    seen = set()
    for n, why in vf.rejected(tr.stdout):
        i = idx[n - 1]
        e, o = cases[i], res[i]
        sig = (why, e["k"], e["view"] if e["k"] == "rm" else e["x"], e["count"] in ("many", "huge"), e["attrs"] == "over",
               e["nh"] == "v6" and e["fam"] == "ipv4", e["addpath"] if e["k"] == "mrt" else "")
        if sig in seen:
            continue
        seen.add(sig)
        c.violation("c19.record", {"why": why, "event": e, "observed": o}, {"spec": "MonitorRecord", "case": e})
    kinds = {}
    for e in cases:
        kinds[e["k"]] = kinds.get(e["k"], 0) + 1
    c.cov["parts"]["records"] = {"events": len(cases), "by_kind": kinds, "bmp_messages_and_mrt_records_read": sum(o["nrec"] for o in res.values())}
    c.cov["distinct_nontrivial"] += len(cases)
    c.cov["evaluations"] += sum(o["nrec"] for o in res.values())
    c.sample({"case": cases[idx[len(idx) // 2]], "obs": res[idx[len(idx) // 2]]})


def main(c):
    records(c)
    c.cov["exhaustive"] = False
    c.cov["rule"] = ("every event of MonitorRecord.tla: Route Monitoring (5 views x peer family x 5 address families x add-path x "
                     "reach/unreach/end-of-rib x NLRI count {1, few, 1500, 20000} x attribute size {small, ~3.8k, ~5.2k} x next-hop "
                     "family), Peer Up / Down / Initiation variants, BGP4MP likewise, TABLE_DUMP_V2 dumps (peer tables of 1/3/mixed/"
                     "local, both RIB subtypes); distinct = events")
    c.assumptions += ["the reader follows RFC 7854 / 8671 / 9069 / 6396 / 8050; embedded PDUs are parsed with four-octet AS numbers "
                      "and extended message length accepted; NLRI values are the per-family samples",
                      "Route Monitoring headers of the live path are built in the harness exactly as BmpClient::serve builds them "
                      "around the real converters; the session half runs serve itself"]
