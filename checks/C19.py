"""C19 - Every emitted BMP/MRT record is well-formed and carries the intended BGP data.

spec/MonitorRecord/MonitorRecord.tla enumerates the monitored events (Route Monitoring for every view / peer family / address
family / add-path setting / NLRI count incl. more than fit one or sixteen BGP messages / attribute size incl. beyond 4096
octets / next-hop family; Peer Up / Peer Down / Initiation; BGP4MP; TABLE_DUMP_V2 dumps) and states per event the structural
fields an independent reader must find.  Every event is converted by the daemon's real converters, encoded by the real
BmpCodec / MrtCodec / dump_table, read back by a reader written from RFC 7854 / 6396 / 8050, its embedded PDUs parsed by the
repository's BGP parser with the add-path setting the record states, and the observation is validated by TLC against
MonitorRecordTrace.tla.

spec/BmpSession/BmpSession.tla is the state machine of a BMP session (stations, peers coming up and going down, routes);
its behaviours are replayed on the real BmpClient::serve with real BGP sessions over loopback sockets, and the station's
bytes are folded into per-peer state and compared with the model and the RIB."""
import json
import os

import vf

LEVEL = "exploration"
SPEC = os.path.join(vf.ROOT, "spec", "MonitorRecord")


def case_line(i, c):
    return "\t".join([str(i), c["k"], c["view"], c["peer"], c["local"], c["fam"], str(c["addpath"]).lower(), c["dir"], c["count"], c["nh"],
                      c["attrs"], c["x"]])


def records(c):
    r = vf.tlc(SPEC, "MonitorRecordMC", os.path.join(SPEC, "q.cfg"), workers=4, timeout=600)
    c.add_tlc("cases", r)
    if r.violated:
        c.violation("design", {"invariant": r.violated, "tlc": r.error_text[:3000]}, {"spec": "MonitorRecord"})
        return
    cases = [json.loads(json.loads(ln))["case"] for ln in r.stdout.splitlines() if ln.startswith('"{')]
    cases.sort(key=vf.canon)
    inp = os.path.join(vf.WORK, "C19.in")
    with open(inp, "w") as f:
        for i, j in enumerate(cases):
            f.write(case_line(i, j) + "\n")
    res = {}
    for test, tag in (("bmp::verif_harness::c19_bmp_records", "bmp"), ("mrt::verif_harness::c19_mrt_records", "mrt")):
        outp = os.path.join(vf.WORK, f"C19.{tag}.out")
        if os.path.exists(outp):
            os.remove(outp)
        rc, out = vf.daemon_test(test, env={"VERIF_IN": inp, "VERIF_OUT": outp, "VERIF_WORK": vf.WORK}, timeout=1500)
        if rc != 0 or not os.path.exists(outp):
            raise vf.ToolError(f"{test} failed rc={rc}: {out[-3000:]}")
        for j in vf.read_jsonl(outp):
            res[j["i"]] = j["obs"]
    if len(res) != len(cases):
        raise vf.ToolError(f"the harnesses answered {len(res)} of {len(cases)} cases")
    idx = sorted(res)
    tp = os.path.join(vf.WORK, "C19.trace.ndjson")
    with open(tp, "w") as f:
        for i in idx:
            o = {k: (v.split(":")[0] if k in ("parse", "content") else v) for k, v in res[i].items() if k != "note"}
            f.write(json.dumps({"case": cases[i], "obs": o}) + "\n")
    tr = vf.tlc_trace(SPEC, "MonitorRecordTrace", os.path.join(SPEC, "trace.cfg"), tp, timeout=900)
    c.cov["traces_validated_against_impl"] += 1
    if tr.violated or f"{len(idx) + 1} distinct states" not in tr.stdout:
        raise vf.ToolError("MonitorRecordTrace did not consume the whole trace:\n" + tr.stdout[-2000:])
    seen = set()
    for n, why in vf.rejected(tr.stdout):
        i = idx[n - 1]
        e, o = cases[i], res[i]
        sig = (why, e["k"], e["view"] if e["k"] == "rm" else e["x"], e["count"] in ("many", "huge"), e["attrs"] == "over",
               e["nh"] if e["fam"] == "ipv4" else "", e["addpath"] if e["k"] == "mrt" else "")
        if sig in seen:
            continue
        seen.add(sig)
        c.violation("c19.record", {"why": why, "event": e, "observed": o}, {"spec": "MonitorRecord", "case": e})
    kinds = {}
    for e in cases:
        kinds[e["k"]] = kinds.get(e["k"], 0) + 1
    c.cov["parts"]["records"] = {"events": len(cases), "by_kind": kinds, "bmp_messages_and_mrt_records_read": sum(o["nrec"] for o in res.values())}
    c.cov["distinct_nontrivial"] += len(cases)
    c.cov["evaluations"] += sum(o["nrec"] for o in res.values())
    c.sample({"case": cases[idx[len(idx) // 2]], "obs": res[idx[len(idx) // 2]]})


SESS = os.path.join(vf.ROOT, "spec", "BmpSession")


def sess_line(op):
    if op["k"] in ("establish", "drop"):
        return f"{op['k']} {op['p']}"
    if op["k"] in ("announce", "withdraw"):
        return f"{op['k']} {op['p']} {op['x']}"
    return op["k"]


def session(c):
    r = vf.tlc(SESS, "BmpSession", os.path.join(SESS, "q.cfg"), workers=4, timeout=600)
    c.add_tlc("session-design", r)
    if r.violated:
        c.violation("design", {"invariant": r.violated, "tlc": r.error_text[:3000]}, {"spec": "BmpSession"})
        return
    g = vf.tlc(SESS, "BmpSessionMC", os.path.join(SESS, "gen.cfg"), workers=4, timeout=600, want_edges=True, quiet=True)
    edges = g.edges
    init = vf.canon({"up": {"a": False, "b": False}, "rib": {"a": [], "b": []}, "st": "off", "known": [], "mirror": {"a": [], "b": []}})
    seqs, covered, total = vf.cover_sequences(edges, init_key=init, max_len=60, seed=c.seed)
    if c.tier == "thorough":
        # every transition twice more, reached along different paths
        for sd in (c.seed + 1, c.seed + 2):
            more, _, _ = vf.cover_sequences(list(reversed(edges)) if sd % 2 else edges, init_key=init, max_len=25, seed=sd)
            base = list(reversed(range(len(edges)))) if sd % 2 else list(range(len(edges)))
            seqs += [[base[i] for i in sq] for sq in more]
    inp = os.path.join(vf.WORK, "C19.sess.in")
    outp = os.path.join(vf.WORK, "C19.sess.out")
    with open(inp, "w") as f:
        for i, sq in enumerate(seqs):
            f.write(f"seq {i}\n")
            for ei in sq:
                f.write(sess_line(edges[ei]["op"]) + "\n")
    if os.path.exists(outp):
        os.remove(outp)
    rc, out = vf.daemon_test("event::verif_harness::bmpsession_replay", env={"VERIF_IN": inp, "VERIF_OUT": outp}, timeout=2400)
    if rc != 0 or not os.path.exists(outp):
        raise vf.ToolError(f"bmpsession_replay failed rc={rc}: {out[-3000:]}")
    lines = vf.read_jsonl(outp)
    k = 0
    steps = 0
    seen = set()
    for i, sq in enumerate(seqs):
        assert "seq" in lines[k], lines[k]
        k += 1
        nxt = k + len(sq)
        hist = []
        for ei in sq:
            e = edges[ei]
            got = lines[k]
            k += 1
            hist.append(sess_line(e["op"]))
            steps += 1
            post = e["post"]
            bad = None
            harness_notes = [a for a in got["anomalies"] if a.startswith("harness:")]
            if harness_notes:
                raise vf.ToolError(f"bmpsession_replay could not drive the step {hist[-1]}: {harness_notes}")
            anomalies = got["anomalies"]
            exp_rib = {p: sorted(post["rib"][p]) for p in post["rib"]}
            if got["rib"] != exp_rib:
                raise vf.ToolError(f"bmpsession_replay: the RIB did not follow the script at {hist[-1]}: {got['rib']} vs {exp_rib}")
            if anomalies:
                bad = ("stream", anomalies[0])
            elif sorted(got["known"]) != sorted(post["known"]):
                bad = ("peers", f"station believes up: {got['known']}, established and reported per the model: {sorted(post['known'])}")
            elif sorted(got["ups"]) != sorted(e["ups"]) or sorted(got["downs"]) != sorted(e["downs"]):
                bad = ("updown", f"Peer Up {got['ups']} / Peer Down {got['downs']} on the stream, model: {sorted(e['ups'])} / {sorted(e['downs'])}")
            else:
                for p in ("a", "b"):
                    for view in ("mirror", "mirror_post"):
                        if sorted(got[view][p]) != sorted(post["mirror"][p]):
                            bad = ("routes", f"{view} of peer {p}: station folded {got[view][p]}, Adj-RIB-In per the model {sorted(post['mirror'][p])}")
            if bad:
                sig = (bad[0], e["op"]["k"], bad[1][:60])
                if sig not in seen:
                    seen.add(sig)
                    c.violation("c19.session_" + bad[0], {"what": bad[1], "op": e["op"], "history": hist[-15:]}, {"spec": "BmpSession", "ops": list(hist)})
                break
        k = nxt
    c.cov["parts"]["session"] = {"model_transitions": total, "replayed": covered, "sequences": len(seqs), "steps": steps}
    c.cov["traces_validated_against_impl"] += len(seqs)
    c.cov["evaluations"] += steps
    c.cov["distinct_nontrivial"] += covered
    if seqs:
        c.sample([sess_line(edges[ei]["op"]) for ei in seqs[0][:20]])


def main(c):
    records(c)
    session(c)
    c.cov["exhaustive"] = False
    c.cov["rule"] = ("every event of MonitorRecord.tla: Route Monitoring (5 views x peer family x 5 address families x add-path x "
                     "reach/unreach/end-of-rib x NLRI count {1, few, 1500, 20000} x attribute size {small, ~3.8k, ~5.2k} x next-hop "
                     "family), Peer Up / Down / Initiation variants, BGP4MP likewise, TABLE_DUMP_V2 dumps (peer tables of 1/3/mixed/"
                     "local, both RIB subtypes); distinct = events")
    c.assumptions += ["the reader follows RFC 7854 / 8671 / 9069 / 6396 / 8050; embedded PDUs are parsed with four-octet AS numbers "
                      "and extended message length accepted; NLRI values are the per-family samples",
                      "Route Monitoring headers of the live path are built in the harness exactly as BmpClient::serve builds them "
                      "around the real converters; the session half runs serve itself"]
