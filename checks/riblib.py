"""Configurations, concretisation tables and TLC drivers for Rib.tla (C02, C06, C15)."""
import json
import os
import shutil

import vf

SPEC = os.path.join(vf.ROOT, "spec", "Rib")
NOLIMIT = 1000000

# ---- attribute classes: the single source of truth for both the TLA+ constants (the decision key)
# ---- and the concrete attributes the harness builds.
#  aspath: list of segments (type, [asns]) ; type 1=SET 2=SEQ 3=CONFED_SEQ 4=CONFED_SET
#  aslen is *derived* (SET counts 1, confed segments 0) so the model and the bytes agree by construction.

def seq(n, base=65100):
    return (2, [base + (i % 50) for i in range(n)])


CLASSES = {
    # name: dict(lp, aspath, origin, clen, oid, comm (list of u32), mm)
    "c1": dict(lp=100, aspath=[seq(1)], origin=0, clen=0, oid=0, comm=[], mm=0),
    "c2": dict(lp=100, aspath=[seq(1, 65200)], origin=0, clen=0, oid=0, comm=[], mm=0),   # ties with c1 on every step
    "c3": dict(lp=200, aspath=[seq(2)], origin=1, clen=0, oid=0, comm=[], mm=0),          # wins on LOCAL_PREF
    "c4": dict(lp=100, aspath=[seq(2)], origin=0, clen=0, oid=0, comm=[], mm=0),          # loses to c1 on AS_PATH length
    "c5": dict(lp=100, aspath=[(1, [1, 2, 3])], origin=0, clen=0, oid=0, comm=[], mm=0),  # AS_SET of 3 counts 1: ties c1
    "c6": dict(lp=100, aspath=[(3, [7, 8]), seq(1)], origin=0, clen=0, oid=0, comm=[], mm=0),  # confed seq counts 0: ties c1
    "cS": dict(lp=100, aspath=[(4, [7, 8]), seq(1)], origin=0, clen=0, oid=0, comm=[], mm=0),  # confed SET counts 0: ties c1
    "c7": dict(lp=100, aspath=[seq(1)], origin=2, clen=0, oid=0, comm=[], mm=0),          # loses on ORIGIN
    "c8": dict(lp=100, aspath=[seq(1)], origin=0, clen=2, oid=0, comm=[], mm=0),          # loses on CLUSTER_LIST length
    "c9": dict(lp=100, aspath=[seq(1)], origin=0, clen=0, oid=1, comm=[], mm=0),          # ORIGINATOR_ID 1 beats any router-id
    "cL": dict(lp=300, aspath=[seq(1)], origin=0, clen=0, oid=0, comm=[0xFFFF0006], mm=0),  # carries LLGR_STALE: least preferred
    "cN": dict(lp=100, aspath=[seq(1)], origin=0, clen=0, oid=0, comm=[0xFFFF0007], mm=0),  # NO_LLGR
    "cW": dict(lp=100, aspath=[seq(255), seq(45)], origin=0, clen=0, oid=0, comm=[], mm=0),  # 300 hops: u8 wrap hazard
    "cX": dict(lp=100, aspath=[seq(255), seq(1)], origin=0, clen=0, oid=0, comm=[], mm=0),   # 256 hops
    "cM": dict(lp=50, aspath=[seq(3)], origin=2, clen=0, oid=0, comm=[], mm=3),           # MAC mobility seq 2 (mm = seq+1)
    "cm": dict(lp=300, aspath=[seq(1)], origin=0, clen=0, oid=0, comm=[], mm=1),          # MAC mobility seq 0
    # EVPN extended communities that are NOT MAC Mobility (type 0x06 with another sub-type: Router's MAC 0x03, ESI Label 0x01),
    # alone and in front of a real MAC Mobility community: only sub-type 0x00 counts for the mobility step
    "cR": dict(lp=100, aspath=[seq(1)], origin=0, clen=0, oid=0, comm=[], mm=0, xc=["0603ffffffffffff"]),
    "cE": dict(lp=100, aspath=[seq(1)], origin=0, clen=0, oid=0, comm=[], mm=2, xc=["0601000000ffffff", "0603020000000009"]),
    # classes carrying route targets (C20, VRF clause): r1 ties with c1, r2 ties with r1, r3 wins on LOCAL_PREF, r4 loses on AS_PATH
    "r1": dict(lp=100, aspath=[seq(1)], origin=0, clen=0, oid=0, comm=[], mm=0, rts=[1]),
    "r2": dict(lp=100, aspath=[seq(1, 65200)], origin=0, clen=0, oid=0, comm=[], mm=0, rts=[2]),
    "r3": dict(lp=200, aspath=[seq(2)], origin=1, clen=0, oid=0, comm=[], mm=0, rts=[1, 2]),
    "r4": dict(lp=100, aspath=[seq(2)], origin=0, clen=0, oid=0, comm=[], mm=0, rts=[2, 4]),
}
# VRFs with a kernel table: name -> (table id, route distinguisher, imported route targets)
VRFS = {"va": (101, "65000:101", [1]), "vb": (102, "65000:102", [2]), "vc": (103, "65000:103", [3])}


def aslen(c):
    n = 0
    for t, asns in c["aspath"]:
        if t == 2:
            n += len(asns)
        elif t == 1:
            n += 1
    return n


SESSIONS = {
    # name: peer, ebgp, rtr, ord, addr
    "a1": dict(peer="A", ebgp=True, rtr=20, ord=1),
    "a2": dict(peer="A", ebgp=True, rtr=20, ord=2),
    "b1": dict(peer="B", ebgp=False, rtr=10, ord=1),
    "c1": dict(peer="C", ebgp=True, rtr=30, ord=1),
    # the other session roles: a route-server client counts as external at the eBGP-over-iBGP step, a route-reflector
    # client and a confederation-external session count as internal (C02: "eBGP over iBGP/confed")
    "d1": dict(peer="D", ebgp=True, rtr=40, ord=1, role="RsClient"),
    "e1": dict(peer="E", ebgp=False, rtr=5, ord=1, role="ConfedEbgp"),
    "f1": dict(peer="F", ebgp=False, rtr=15, ord=1, role="IbgpRrClient"),
    # two more route-server clients: what the route server shows ONE client is chosen among the others' paths
    "g1": dict(peer="G", ebgp=True, rtr=50, ord=1, role="RsClient"),
    "h1": dict(peer="H", ebgp=True, rtr=8, ord=1, role="RsClient"),
}
PEER_ADDR = {"A": "10.0.0.1", "B": "10.0.0.2", "C": "10.0.0.3", "D": "10.0.0.4", "E": "10.0.0.5", "F": "10.0.0.6", "G": "10.0.0.7", "H": "10.0.0.8"}
PREFIXES = {"p1": "10.1.0.0/16", "p2": "10.1.128.0/17", "p3": "2001:db8::/33", "e1": "evpn2:1", "e2": "evpn2:2",
            "q1": "vpn:65000:1:10.9.0.0/24", "q2": "vpn:65000:2:2001:db8:9::/48"}
NEXTHOPS = {"n1": "192.0.2.1", "n2": "192.0.2.2", "n3": "192.0.2.3"}


def tset(xs):
    return "{" + ", ".join(json.dumps(x) if isinstance(x, str) else str(x) for x in xs) + "}"


def tbool(b):
    return "TRUE" if b else "FALSE"


ALL_OPS = ["insert", "remove", "drop", "markstale", "dropstale", "markllgr", "dropllgr", "nhflip", "startdef", "enddef"]
NO_DEFER = [o for o in ALL_OPS if o not in ("startdef", "enddef")]
NO_LLGR = [o for o in ALL_OPS if o not in ("markllgr", "dropllgr")]


class Cfg:
    def __init__(self, name, prefixes, sessions, rids, classes, nexthops, filt=(False,), limits=None, evpn=(), ops=None, vrfs=()):
        self.name = name
        self.prefixes = list(prefixes)
        self.sessions = list(sessions)
        self.rids = dict(rids)
        self.classes = list(classes)
        self.nexthops = list(nexthops)
        self.filt = list(filt)
        self.limits = limits or {}
        self.evpn = list(evpn)
        self.ops = list(ops) if ops else list(ALL_OPS)
        self.vrfs = list(vrfs)
        self.vpn = [p for p in self.prefixes if PREFIXES[p].startswith("vpn:")]

    def describe(self):
        return {"prefixes": self.prefixes, "sessions": self.sessions, "rids": self.rids, "classes": self.classes,
                "nexthops": self.nexthops, "filt": self.filt, "limits": self.limits, "evpn": self.evpn, "ops": self.ops, "vrfs": self.vrfs}

    def module(self, base="RibMC"):
        peers = sorted({SESSIONS[x]["peer"] for x in self.sessions})
        L = [f"---- MODULE MC_{self.name} ----", f"EXTENDS {base}", ""]
        L.append(f"cPrefix == {tset(self.prefixes)}")
        L.append(f"cSess == {tset(self.sessions)}")
        arms = []
        for x in self.sessions:
            i = SESSIONS[x]
            mx = self.limits.get(x, None)
            arms.append(f'x = "{x}" -> [peer |-> "{i["peer"]}", ebgp |-> {tbool(i["ebgp"])}, rtr |-> {i["rtr"]}, '
                        f'max |-> {mx if mx is not None else "NoLimit"}, ord |-> {i["ord"]}, idx |-> {self.sessions.index(x) + 1}]')
        L.append("cSessInfo == [x \\in cSess |-> CASE " + "\n   [] ".join(arms) + "]")
        arms = [f'q = "{q}" -> {tset(self.rids[q])}' for q in peers]
        L.append(f"cRids == [q \\in {tset(peers)} |-> CASE " + " [] ".join(arms) + "]")
        L.append(f"cCls == {tset(self.classes)}")
        arms = []
        for cn in self.classes:
            c = CLASSES[cn]
            arms.append(f'c = "{cn}" -> [lp |-> {c["lp"]}, aslen |-> {aslen(c)}, origin |-> {c["origin"]}, clen |-> {c["clen"]}, '
                        f'oid |-> {c["oid"]}, llgrc |-> {tbool(0xFFFF0006 in c["comm"])}, '
                        f'nollgr |-> {tbool(0xFFFF0007 in c["comm"])}, mm |-> {c["mm"]}, rts |-> {tset(c.get("rts", []))}]')
        L.append("cClsInfo == [c \\in cCls |-> CASE " + "\n   [] ".join(arms) + "]")
        L.append(f"cNextHops == {tset(self.nexthops)}")
        L.append(f"cFilt == {{{', '.join(tbool(b) for b in self.filt)}}}")
        L.append(f"cEvpn == {tset(self.evpn)}")
        L.append(f"cOps == {tset(self.ops)}")
        L.append(f"cVpn == {tset(self.vpn)}")
        L.append(f"cVrfs == {tset(self.vrfs)}")
        arms = [f'v = "{v}" -> {tset(VRFS[v][2])}' for v in self.vrfs]
        L.append("cVrfImport == [v \\in cVrfs |-> " + ("CASE " + " [] ".join(arms) if arms else "{}") + "]")
        L.append("====")
        return "\n".join(L) + "\n"

    def cfg_text(self, spec, invariants=(), constraint=None):
        t = "CONSTANTS\n"
        for k in ("Prefix", "Sess", "SessInfo", "Rids", "Cls", "ClsInfo", "NextHops"):
            t += f"  {k} <- c{k}\n"
        t += "  FiltVals <- cFilt\n  EvpnT2 <- cEvpn\n  OpKinds <- cOps\n  VpnPfx <- cVpn\n  Vrfs <- cVrfs\n  VrfImport <- cVrfImport\n"
        t += f"SPECIFICATION {spec}\n"
        if invariants:
            t += "INVARIANTS " + " ".join(invariants) + "\n"
        if constraint:
            t += f"CONSTRAINT {constraint}\n"
        t += "CHECK_DEADLOCK FALSE\n"
        return t

    def materialise(self, tag, spec, invariants=(), constraint=None, extra_modules=()):
        """copy the spec modules + generated MC module + cfg into a work dir; returns (dir, module, cfg)"""
        d = os.path.join(vf.WORK, "rib", f"{self.name}-{tag}")
        os.makedirs(d, exist_ok=True)
        for f in ["Rib.tla", "RibMC.tla"] + list(extra_modules):
            shutil.copy(os.path.join(SPEC, f), d)
        base = "Rib" if spec == "Spec" else "RibMC"
        if "RibTrace.tla" in extra_modules:
            base = "RibTrace"
        with open(os.path.join(d, f"MC_{self.name}.tla"), "w") as f:
            f.write(self.module(base))
        cfgp = os.path.join(d, f"{tag}.cfg")
        with open(cfgp, "w") as f:
            f.write(self.cfg_text(spec, invariants, constraint))
        return d, f"MC_{self.name}", cfgp


INVS = ["OrderOK", "BestOK", "ViewsMatch", "IdsOK", "KeysOK", "CountersOK", "TotalsOK"]


# --------------------------------------------------------------------------- TLC drivers

def harness_config(cfg):
    sessions = []
    for x in cfg.sessions:
        i = SESSIONS[x]
        sessions.append({"name": x, "peer": i["peer"], "addr": PEER_ADDR[i["peer"]], "ebgp": i["ebgp"],
                         "role": i.get("role", ""), "rtr": i["rtr"], "max": cfg.limits.get(x)})
    classes = {}
    for cn in cfg.classes:
        c = CLASSES[cn]
        classes[cn] = {"lp": c["lp"], "aspath": [[t, a] for t, a in c["aspath"]], "origin": c["origin"],
                       "clen": c["clen"], "oid": c["oid"], "comm": c["comm"], "mm": c["mm"], "xc": c.get("xc", [])}
    return {"sessions": sessions, "prefixes": {p: PREFIXES[p] for p in cfg.prefixes},
            "nexthops": {n: NEXTHOPS[n] for n in cfg.nexthops}, "classes": classes}


def gen_walks(cfg, num, depth, seed, timeout=900):
    d, m, cfgp = cfg.materialise("walk", "GenSpec", ["EmitWalk"])
    r = vf.tlc(d, m, cfgp, workers=1, timeout=timeout, simulate=num, depth=depth, seed=seed, heap="4g")
    walks = []
    cur = None
    last = 0
    for line in r.stdout.splitlines():
        if line.startswith('"{'):
            j = json.loads(json.loads(line))
            if j["lvl"] == 2:
                cur = []
                walks.append(cur)
            elif cur is None or j["lvl"] != last + 1:
                continue        # a re-evaluated state, not a step
            last = j["lvl"]
            cur.append(j)
    return [w for w in walks if w]


def gen_edges(cfg, timeout=900, workers=8):
    d, m, cfgp = cfg.materialise("edge", "GenSpec", ["EmitEdge"])
    r = vf.tlc(d, m, cfgp, workers=workers, timeout=timeout, want_edges=True, heap="8g")
    if r.violated:
        raise vf.ToolError(f"edge generation reported {r.violated}")
    return r.edges, r


def design(cfg, invariants=INVS, timeout=1500, workers=12):
    d, m, cfgp = cfg.materialise("design", "Spec", invariants)
    return vf.tlc(d, m, cfgp, workers=workers, timeout=timeout, heap="12g")


# --------------------------------------------------------------------------- comparison

def ident(e):
    return (e["sess"], e["cls"], e["nh"])


def full_ident(e):
    return (e["sess"], e["rid"], e["cls"], e["nh"], e["filt"])


class Consumer:
    """The two consumers of the change stream, exactly with the documented skip rules."""

    def __init__(self):
        self.best = {}   # prefix -> ident or None
        self.all = {}    # prefix -> {lid: ident}
        self.rank = {}   # prefix -> [lid, ...] in the order of the last notification an add-path consumer processed

    def feed(self, n):
        p = n["p"]
        if n["bc"]:
            self.best[p] = ident(n["paths"][0]) if n["paths"] else None
        if n["ac"]:
            cur = self.all.get(p, {})
            new = {}
            for x in n["paths"]:
                lid = x["lid"]
                if lid not in cur or n["replaced"] == lid:
                    new[lid] = ident(x)
                else:
                    new[lid] = cur[lid]
            self.all[p] = new
            self.rank[p] = [x["lid"] for x in n["paths"]]


def compare_step(cfg, model_post, model_res, real, consumer, pre_ids, findings, op_kind=None):
    """Compare one replayed step.  Returns list of (kind, detail)."""
    bad = []
    out, st = real["out"], real["state"]
    if out["res"] != model_res:
        bad.append(("res", {"expected": model_res, "actual": out["res"]}))
    nhbad = set(model_post["nhbad"])
    sess_limited = set(cfg.limits)
    for p in cfg.prefixes:
        m_ent = sorted(full_ident(e) for e in model_post["ent"][p])
        r_ent = sorted(full_ident(e) for e in st["ent"][p])
        if m_ent != r_ent:
            bad.append(("state.ent", {"prefix": p, "expected": m_ent, "actual": r_ent}))
            continue
        m_elig = sorted(ident(e) for e in model_post["ent"][p] if not e["filt"] and e["nh"] not in nhbad)
        el = st["elig"][p]
        r_list = el["paths"] if el else []
        r_elig = sorted(ident(x) for x in r_list)
        if m_elig != r_elig:
            bad.append(("c02.eligible", {"prefix": p, "expected": m_elig, "actual": r_elig,
                                         "why": "filtered / next-hop-unreachable paths must never be selected"}))
            continue
        keys = [model_post["keys"][x["sess"]][x["cls"]] for x in r_list]
        if any(keys[i] > keys[i + 1] for i in range(len(keys) - 1)):
            bad.append(("c02.rank", {"prefix": p, "order": [ident(x) for x in r_list], "keys": keys,
                                     "why": "ranked list is not sorted under the stated decision order"}))
        if r_list:
            m_best = {ident(e) for e in model_post["best"][p]}
            if ident(r_list[0]) not in m_best:
                bad.append(("c02.best", {"prefix": p, "actual": ident(r_list[0]), "maximal": sorted(m_best)}))
            lid2 = {x["lid"]: ident(x) for x in r_list}
            r_ecmp = sorted(lid2[l] for l in el["ecmp"])
            m_ecmp = sorted(ident(e) for e in model_post["ecmp"][p])
            if p in cfg.evpn:
                # the statement asks of the ECMP list only that it is a prefix of the ranking; "tied before the router-id
                # step" (C20) is about the IPv4 / IPv6 prefixes that reach the FIB, and says nothing of the mobility step
                k = len(el["ecmp"])
                if k == 0 or list(el["ecmp"]) != [x["lid"] for x in r_list[:k]]:
                    bad.append(("c02.ecmp", {"prefix": p, "ecmp": list(el["ecmp"]), "ranking": [x["lid"] for x in r_list],
                                             "why": "the ECMP list is not a prefix of the ranking"}))
            elif r_ecmp != m_ecmp:
                bad.append(("c02.ecmp", {"prefix": p, "expected": m_ecmp, "actual": r_ecmp}))
            lids = [x["lid"] for x in r_list]
            if len(set(lids)) != len(lids):
                bad.append(("c06.lid", {"prefix": p, "lids": lids}))
    # C02, "shown by the API": the route server's choice for each of its clients - the best eligible path among those learned
    # from the OTHER route-server clients
    for q, per in st.get("rsview", {}).items():
        for p in cfg.prefixes:
            cand = [e for e in model_post["ent"][p] if not e["filt"] and e["nh"] not in nhbad
                    and SESSIONS[e["sess"]].get("role") == "RsClient" and SESSIONS[e["sess"]]["peer"] != q]
            have = per.get(p)
            if not cand:
                if have is not None:
                    bad.append(("c02.rs_view", {"client": q, "prefix": p, "shown": have, "why": "nothing eligible from another client"}))
                continue
            kmin = min(model_post["keys"][e["sess"]][e["cls"]] for e in cand)
            best = sorted({(e["sess"], e["cls"]) for e in cand if model_post["keys"][e["sess"]][e["cls"]] == kmin})
            if have is None or (have["sess"], have["cls"]) not in best:
                bad.append(("c02.rs_view", {"client": q, "prefix": p, "shown": have, "maximal": best,
                                            "why": "the path the API shows the client as the route server's choice is not the best of the others' paths"}))
    for x in cfg.sessions:
        if st["stale"][x] != model_post["stale"][x] or st["llgr"][x] != model_post["llgr"][x]:
            bad.append(("state.flags", {"sess": x, "expected": [model_post["stale"][x], model_post["llgr"][x]],
                                        "actual": [st["stale"][x], st["llgr"][x]]}))
    # C15: counters against a recount of the *real* table, and against the model
    peers = sorted({SESSIONS[x]["peer"] for x in cfg.sessions})
    for q in peers:
        rec = sum(1 for p in cfg.prefixes if any(SESSIONS[e["sess"]]["peer"] == q for e in st["ent"][p]))
        acc = sum(1 for p in cfg.prefixes for e in st["ent"][p] if SESSIONS[e["sess"]]["peer"] == q and not e["filt"])
        got = st["stats"][q]
        if (got["received"], got["accepted"]) != (rec, acc):
            bad.append(("c15.stats", {"peer": q, "recount": [rec, acc], "counters": [got["received"], got["accepted"]]}))
        ms = model_post["stats"][q]
        if (got["received"], got["accepted"]) != (ms["received"], ms["accepted"]):
            bad.append(("state.stats", {"peer": q, "expected": ms, "actual": got}))
    closed = set(model_post["closed"])
    for x in sess_limited:
        if x in closed:
            continue
        rec = sum(1 for p in cfg.prefixes if any(e["sess"] == x for e in st["ent"][p]))
        got = st["cnt"][x]
        if got != rec:
            bad.append(("c15.limit", {"sess": x, "recount": rec, "counter": got}))
        elif got > cfg.limits[x]:
            bad.append(("c15.limit_exceeded", {"sess": x, "count": got, "max": cfg.limits[x]}))
    ndest = sum(1 for p in cfg.prefixes if st["ent"][p])
    npath = sum(len(st["ent"][p]) for p in cfg.prefixes)
    nacc = sum(1 for p in cfg.prefixes for e in st["ent"][p] if not e["filt"])
    t = st["totals"]
    if (t["dest"], t["path"], t["accepted"]) != (ndest, npath, nacc):
        bad.append(("c15.totals", {"recount": [ndest, npath, nacc], "totals": [t["dest"], t["path"], t["accepted"]]}))
    # C06: ids and the fold
    ids = {}
    for p in cfg.prefixes:
        el = st["elig"][p]
        if el:
            ids[p] = el["id"]
            if p in pre_ids and st["ent"][p] and pre_ids[p] != el["id"] and pre_ids.get("_alive_" + p):
                bad.append(("c06.id_stable", {"prefix": p, "before": pre_ids[p], "after": el["id"]}))
    if len(set(ids.values())) != len(ids):
        bad.append(("c06.id_unique", {"ids": ids}))
    for n in out["notifs"]:
        consumer.feed(n)
        if st["elig"][n["p"]] and st["elig"][n["p"]]["id"] != n["id"]:
            bad.append(("c06.id_notif", {"prefix": n["p"], "notified": n["id"], "current": st["elig"][n["p"]]["id"]}))
    if not model_post["defer"]:
        for p in cfg.prefixes:
            el = st["elig"][p]
            r_list = el["paths"] if el else []
            want_best = ident(r_list[0]) if r_list else None   # content only: a best-path consumer sends path-id 0
            if consumer.best.get(p) != want_best:
                bad.append(("c06.fold_best", {"prefix": p, "consumer": consumer.best.get(p), "rib": want_best,
                                              "why": "a consumer skipping !best_changed notifications holds a wrong best path"}))
            want_all = {x["lid"]: ident(x) for x in r_list}
            if consumer.all.get(p, {}) != want_all:
                bad.append(("c06.fold_all", {"prefix": p, "consumer": consumer.all.get(p, {}), "rib": want_all,
                                             "why": "a consumer skipping !any_changed notifications holds a wrong add-path set"}))
            elif consumer.rank.get(p, []) != [x["lid"] for x in r_list]:
                # an add-path neighbour with a send-max window is sent the first N of this order
                bad.append(("c06.fold_rank", {"prefix": p, "consumer": consumer.rank.get(p, []), "rib": [x["lid"] for x in r_list],
                                              "why": "the ranking changed without a notification: an add-path consumer holds the old order"}))
    if op_kind == "enddef":
        seen_p = [n["p"] for n in out["notifs"]]
        for p in cfg.prefixes:
            el = st["elig"][p]
            want = 1 if (el and el["paths"]) else 0
            if seen_p.count(p) != want and (want == 1 or any(n["p"] == p and n["paths"] for n in out["notifs"])):
                bad.append(("c11.end_once", {"prefix": p, "announcements": seen_p.count(p), "expected": want,
                                             "why": "ending the deferral must announce every held prefix exactly once"}))
    if model_post["defer"]:
        for n in out["notifs"]:
            if n["paths"]:
                bad.append(("c11.leak", {"prefix": n["p"], "paths": [ident(x) for x in n["paths"]],
                                         "why": "a notification with paths was emitted while selection is deferred"}))
    new_ids = dict(ids)
    for p in cfg.prefixes:
        new_ids["_alive_" + p] = bool(st["ent"][p])
    return bad, new_ids


def replay_walks(c, pid, cfg, walks, kinds=None, tag="w"):
    """Execute walks (lists of {op, post, res}) on the real Table; report the first divergence of each walk.
    kinds: if given, only divergences whose kind starts with one of these prefixes are reported for this property
    (others belong to a sibling property's check and are reported there)."""
    inp = os.path.join(vf.WORK, f"{pid}.{cfg.name}.{tag}.in")
    outp = os.path.join(vf.WORK, f"{pid}.{cfg.name}.{tag}.out")
    with open(inp, "w") as f:
        f.write(json.dumps(harness_config(cfg)) + "\n")
        for w in walks:
            f.write("INIT\n")
            for stp in w:
                f.write(json.dumps(stp["op"]) + "\n")
    rc, so, se = vf.lib_run("rib_replay", [inp, outp], timeout=1200)
    if rc != 0:
        raise vf.ToolError(f"rib_replay failed rc={rc}: {se[-2000:]}")
    steps = 0
    distinct = set()
    kinds_seen = {}
    with open(outp) as f:
        lines = f.read().splitlines()
    if lines and lines[0].startswith("CLASSES "):
        real_len = json.loads(lines[0][8:])
        lines = lines[1:]
        for cn in cfg.classes:
            if real_len.get(cn) != aslen(CLASSES[cn]) and (kinds is None or any(k.startswith("c02") for k in kinds)):
                c.violation("c02.aslen", {"class": cn, "aspath": CLASSES[cn]["aspath"], "hops_by_statement": aslen(CLASSES[cn]),
                                          "hops_by_implementation": real_len.get(cn),
                                          "why": "AS_PATH length: an AS_SET counts one, confederation segments zero (-1 = panic)"},
                            {"spec": "Rib", "class": cn, "harness_config": harness_config(cfg)})
    li = 0
    for wi, w in enumerate(walks):
        assert lines[li] == "INIT", lines[li][:100]
        li += 1
        consumer = Consumer()
        pre_ids = {}
        reported = False
        for si, stp in enumerate(w):
            real = json.loads(lines[li])
            li += 1
            if reported:
                continue
            steps += 1
            distinct.add(vf.canon(stp["op"]) + "|" + vf.canon(stp["post"]["ent"]))
            if real.get("skipped"):
                continue
            if real.get("panic") is not None:
                bad = [("panic", {"message": real["panic"][:300]})]
            else:
                bad, pre_ids = compare_step(cfg, stp["post"], stp["res"], real, consumer, pre_ids, c.findings, stp["op"]["k"])
            if bad:
                for kind, detail in bad:
                    kinds_seen[kind] = kinds_seen.get(kind, 0) + 1
                mine = [b for b in bad if kinds is None or any(b[0].startswith(k) for k in kinds)]
                if mine:
                    kind, detail = mine[0]
                    detail = dict(detail)
                    detail["step"] = si + 1
                    detail["op"] = stp["op"]
                    c.violation(kind, detail, {"spec": "Rib", "config": cfg.describe(), "harness_config": harness_config(cfg),
                                               "ops": [x["op"] for x in w[:si + 1]]})
                reported = True   # later steps of a diverged walk are not comparable
    return steps, distinct, kinds_seen
