"""C10 - Graceful-restart helper: stale routes live only while a timer or EOR is pending.

1. design: TLC exhausts GrHelper.tla (GrState machine + driver glue + the peer's routes with their marks) under the C10
   invariants, for all session-end reason classes;
2. spec -> impl (machine): every (state, input) pair of the pure machine replayed on the real gr::GrState;
3. spec -> impl (driver): model behaviours executed end-to-end on the real daemon code - real accept_connection /
   PeerSession::run against a scripted BGP speaker on a loopback socket, real TableManager, timers fired through their
   one-shot channels - with the projected (GrState, timers, routes+marks) compared after every step (event.rs harness)."""
import json
import os

import vf

LEVEL = "model_checking"
SPEC = os.path.join(vf.ROOT, "spec", "GrHelper")
INVS = ["StaleOnlyWhilePending", "TimersMatchMachine", "NoLlgrRoutesGone", "EveryStepOK"]
ALL_REASONS = ["io", "remote_cease", "remote_hard_reset", "remote_noncease", "local_cease", "local_noncease", "hold",
               "admin", "admin_down_flag"]


def ts(xs):
    return "{" + ", ".join(json.dumps(x) if isinstance(x, str) else str(x) for x in xs) + "}"


def write_cfg(name, fams, rids, reasons, spec, invs, dev=(), comms="{FALSE}"):
    d = os.path.join(vf.WORK, "cfg")
    os.makedirs(d, exist_ok=True)
    p = os.path.join(d, name)
    with open(p, "w") as f:
        f.write(f"CONSTANTS\n  Fam = {ts(fams)}\n  RouteIds = {ts(rids)}\n  Reasons = {ts(reasons)}\n  Comms = {comms}\n  Dev = {ts(dev)}\n"
                f"SPECIFICATION {spec}\nINVARIANTS {' '.join(invs)}\nCHECK_DEADLOCK FALSE\n")
    return p


def fs(x):
    return ",".join(sorted(x)) if x else "-"


def mop_line(op):
    k = op["k"]
    if k == "drop":
        return f"g drop {fs(op['gr'])} {fs(op['llgr'])}"
    if k == "est":
        return f"g est {fs(op['gr'])}"
    if k in ("eor", "llgrtimer"):
        return f"g {k} {op['f']}"
    return "g timer"


ST = {"Idle": "Idle", "Restarting": "PeerRestarting", "Llgr": "LlgrStaling", "Reconnected": "PeerReconnected"}


def norm_g(g):
    return {"st": ST.get(g["st"], g["st"]), "fams": sorted(g["fams"]), "llgr": sorted(g["llgr"]),
            "fl": g.get("fl", g.get("from_llgr", False))}


def norm_real_obs(obs):
    o = {"start": False, "stop": False, "del": [], "startll": [], "stopll": False, "delll": []}
    for x in obs:
        t = x["t"]
        if t == "start_timer":
            o["start"] = True
        elif t == "stop_timer":
            o["stop"] = True
        elif t == "delete_stale":
            o["del"] = sorted(set(o["del"]) | set(x["f"]))
        elif t == "start_llgr":
            o["startll"] = sorted(set(o["startll"]) | set(x["f"]))
        elif t == "stop_llgr":
            o["stopll"] = True
        elif t == "delete_llgr":
            o["delll"] = sorted(set(o["delll"]) | set(x["f"]))
    return o


def norm_model_obs(o):
    return {"start": o["start"], "stop": o["stop"], "del": sorted(o["del"]), "startll": sorted(o["startll"]),
            "stopll": o["stopll"], "delll": sorted(o["delll"])}


def machine_conformance(c, fams):
    cfg = write_cfg("C10.machine.cfg", fams, [1], ["io"], "GenSpec", ["EmitEdge"])
    r = vf.tlc(SPEC, "GrMachineMC", cfg, workers=2, timeout=600, want_edges=True)
    edges = r.edges
    init = vf.canon({"st": "Idle", "fams": [], "llgr": [], "fl": False})
    seqs, covered, total = vf.cover_sequences(edges, init_key=init, max_len=40)
    if covered != total:
        raise vf.ToolError(f"machine edge cover incomplete {covered}/{total}")
    inp = os.path.join(vf.WORK, "C10.gr.in")
    outp = os.path.join(vf.WORK, "C10.gr.out")
    with open(inp, "w") as f:
        for si, seq in enumerate(seqs):
            f.write(f"gseq m{si}\n")
            for ei in seq:
                f.write(mop_line(edges[ei]["op"]) + "\n")
    if os.path.exists(outp):
        os.remove(outp)
    rc, out = vf.daemon_test("gr::verif_harness::replay", env={"VERIF_IN": inp, "VERIF_OUT": outp})
    if rc != 0 or not os.path.exists(outp):
        raise vf.ToolError(f"gr harness failed rc={rc}:\n{out[-3000:]}")
    got = {(j["seq"], j["step"]): j for j in vf.read_jsonl(outp)}
    n = 0
    for si, seq in enumerate(seqs):
        for i, ei in enumerate(seq, start=1):
            e = edges[ei]
            j = got[(f"m{si}", i)]
            n += 1
            detail = None
            if norm_g(j["state"]) != norm_g(e["post"]):
                detail = {"kind": "machine.state", "step": i, "op": e["op"], "expected": norm_g(e["post"]),
                          "actual": norm_g(j["state"])}
            elif norm_real_obs(j["obs"]) != norm_model_obs(e["obs"]):
                detail = {"kind": "machine.obs", "step": i, "op": e["op"], "expected": norm_model_obs(e["obs"]),
                          "actual": norm_real_obs(j["obs"])}
            if detail:
                c.violation(detail["kind"], detail, {"spec": "GrHelper (pure machine)", "fams": fams,
                                                     "steps": [mop_line(edges[x]["op"]) for x in seq[:i]]})
                break
    c.cov["parts"]["machine"] = {"model_transitions": total, "sequences": len(seqs), "steps_replayed": n}
    c.sample({"machine_ops": [mop_line(edges[i]["op"]) for i in seqs[0][:10]]})
    return n, sum(1 for e in edges if e["pre"] != e["post"] or any(e["obs"][k] for k in e["obs"]))


def table_half(c, thorough):
    """What 'marked stale', 'purged at End-of-RIB / at timer expiry' and 'LLGR-stale' mean for the table itself, with ADD-PATH:
    focused behaviours of Rib.tla (insert / remove / mark / purge only; a peer with two path ids per prefix that restarts on a
    new session and re-announces part of what it had) on the real Table; the path set must be the model's after every step."""
    import riblib
    from riblib import Cfg
    cfgs = [Cfg("g1", ["p1", "p2"], ["a1", "a2", "b1"], {"A": [0, 1], "B": [0]}, ["c1", "c3"], ["n1", "n2"], filt=(False, True),
                ops=["insert", "remove", "markstale", "dropstale"]),
            Cfg("g2", ["p1", "p2"], ["a1", "a2", "b1"], {"A": [0, 1], "B": [0]}, ["c1", "cL", "cN"], ["n1"], filt=(False, True),
                ops=["insert", "remove", "markstale", "dropstale", "markllgr", "dropllgr"])]
    n = 1500 if thorough else 300
    steps = 0
    for i, cfg in enumerate(cfgs):
        walks = riblib.gen_walks(cfg, n, 40, c.seed * 100 + 41 + i)
        st, distinct, seen = riblib.replay_walks(c, "C10", cfg, walks, kinds=("state.ent", "state.flags", "panic"))
        steps += st
        c.cov["parts"]["table-" + cfg.name] = {"walks": len(walks), "steps_replayed": st, "divergence_kinds_seen": seen}
        c.cov["traces_validated_against_impl"] += len(walks)
    c.cov["evaluations"] += steps


def main(c):
    thorough = c.tier == "thorough"
    designs = [("q", ["v4", "v6"], [1], ALL_REASONS)]
    if thorough:
        designs.append(("t", ["v4", "v6"], [1, 2], ALL_REASONS))
    for name, fams, rids, reasons in designs:
        cfg = write_cfg(f"C10.{name}.cfg", fams, rids, reasons, "Spec", INVS)
        r = vf.tlc(SPEC, "GrHelper", cfg, workers=8, timeout=1500)
        c.add_tlc("design-" + name, r)
        if r.violated:
            c.violation("design", {"invariant": r.violated, "tlc": r.error_text[:3000]},
                        {"spec": "GrHelper", "counterexample": r.error_text[:20000]})
    if c.violations:
        return
    n, nt = machine_conformance(c, ["v4", "v6"] if not thorough else ["v4", "v6", "vpn4"])
    c.cov["evaluations"] = n
    c.cov["distinct_nontrivial"] = nt
    c.cov["traces_validated_against_impl"] = c.cov["parts"]["machine"]["sequences"]
    c.cov["rule"] = ("machine: every (state, input) pair of the pure GrState machine replayed on gr::GrState; driver: model "
                     "behaviours of GrHelper.tla executed on the real session code over loopback; non-trivial = the step changes "
                     "state or produces an output")
    c.assumptions += ["pi for GrState = (variant, family set, kept LLGR families, from_llgr); timers are observed as live one-shot "
                      "senders in PeerContext; expiry is injected through those senders (restart/stale times are hours)"]
    import drvlib
    drvlib.gr_glue(c)
    table_half(c, thorough)
