def driver_binding(c, runs):
    c.assumptions.append("driver binding (apply_outputs / Sleep deadlines) not built yet")


def deferral_glue(c):
    c.assumptions.append("driver glue (process_restarting_outputs) binding not built yet")
