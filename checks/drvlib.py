import json
import os

import vf


def driver_binding(c, runs):
    """C08 driver binding: behaviours of one connection of the PeerFsm model on the real session driver (rx_msg, the
    timer-expiry arm, flush_tx); the deadlines of the real tokio Sleeps are compared with the ArmHold / ArmKa of the model."""
    import json
    import os
    import vf
    import fsmlib
    inp = os.path.join(vf.WORK, "C08.hold.in")
    outp = os.path.join(vf.WORK, "C08.hold.out")
    exp = []
    with open(inp, "w") as f:
        for name, k, edges, _ in runs:
            nxt = {}
            for e in edges:
                nxt[(vf.canon(e["pre"]), vf.canon(e["op"]))] = e
            init = next(vf.canon(e["pre"]) for e in edges if all(cn["st"] == "None" for cn in e["pre"].values()))
            opens = sorted({vf.canon(e["op"]) for e in edges if e["op"]["k"] == "open" and e["op"]["r"] == "P" and e["op"]["asok"]
                            and e["op"]["rid"] == 1})
            for oi, oc in enumerate(opens):
                o = json.loads(oc)
                h = min(k["LocalHold"], o["hold"])
                body = ["keepalive", "keepalive", "update", "refresh", "updatesent", "keepalive", "update", "refresh", "keepalive"]
                if h > 0:
                    body[4:4] = ["katimer"]
                    body += ["katimer", "updatesent", "update"]
                script = [{"k": "connected", "r": "P"}, o] + [{"k": x, "r": "P"} for x in body]
                sid = f"{name}/{oi}"
                f.write(f"seq {sid} {k['LocalHold']}\n")
                cur = init
                for op in script:
                    e = nxt.get((cur, vf.canon(op)))
                    if e is None:
                        raise vf.ToolError(f"driver script leaves the model: {op} in {cur}")
                    f.write(fsmlib.op_line(op) + "\n")
                    exp.append((sid, op, e, k))
                    cur = vf.canon(e["post"])
    if os.path.exists(outp):
        os.remove(outp)
    rc, out = vf.daemon_test("event::verif_harness::holddriver_replay", env={"VERIF_IN": inp, "VERIF_OUT": outp}, timeout=900)
    if rc != 0 or not os.path.exists(outp):
        raise vf.ToolError(f"holddriver_replay failed rc={rc}: {out[-2000:]}")
    got = vf.read_jsonl(outp)
    if len(got) != len(exp):
        raise vf.ToolError(f"holddriver_replay: {len(got)} results for {len(exp)} steps")
    seen = set()
    hist = {}
    for (sid, op, e, k), g in zip(exp, got):
        hist.setdefault(sid, []).append(fsmlib.op_line(op))
        if g.get("skipped"):
            continue
        if g.get("note"):
            raise vf.ToolError(f"holddriver_replay could not drive {fsmlib.op_line(op)}: {g['note']}")
        bad = None
        down = any(o["t"] == "down" and o["r"] == "P" for o in e["obs"])
        if g["terminated"] != down:
            bad = ("terminated", f"model {'ends' if down else 'keeps'} the session, driver {'ended' if g['terminated'] else 'kept'} it")
        for which, tag in (("hold", "sethold"), ("ka", "setka")):
            if bad or down:
                break
            arm = [o["v"] for o in e["obs"] if o["t"] == tag and o["r"] == "P"]
            moved, secs = g[which + "_moved"], g[which + "_in"]
            if arm:
                want = arm[-1]
                # the model's ArmHold / ArmKa: 0 on the hold timer means "no timer" (never), otherwise now + n
                if which == "hold" and want == 0:
                    if secs != -1:
                        bad = (which, f"model: hold timer off; driver: fires in {secs} s")
                elif not moved or abs(secs - want) > 1:
                    bad = (which, f"model: re-armed to {want} s; driver: moved={moved}, fires in {secs} s")
            elif moved:
                bad = (which, f"model: {which} timer untouched by this step; driver re-armed it (fires in {secs} s)")
        if bad:
            sig = (bad[0], op["k"])
            if sig not in seen:
                seen.add(sig)
                c.violation("driver." + bad[0], {"what": bad[1], "op": op, "history": hist[sid][-12:], "config": k},
                            {"spec": "HoldTimer", "constants": k, "ops": list(hist[sid])})
    c.cov["parts"]["driver-binding"] = {"scripts": len(hist), "steps": len(exp)}
    c.cov["evaluations"] = c.cov.get("evaluations", 0) + len(exp)
    c.cov["traces_validated_against_impl"] = c.cov.get("traces_validated_against_impl", 0) + len(hist)
    c.assumptions.append("driver binding: one (passive) connection per script; deadlines are read from the tokio Sleep objects with a "
                         "tolerance of 1 s; expiry itself is injected as the select loop does (no real waiting)")


def deferral_glue(c):
    """C11 driver glue: behaviours of Deferral.tla (machine + glue + routes arriving meanwhile) on the real glue code -
    Global.selection_deferral, process_effects(GrSessionEstablished / GrEorReceived), the tail of PeerSession::run
    (PeerWithdrawn), gr_selection_deferral_timer_expired, process_restarting_outputs, the tables' deferral flags."""
    import os
    import vf
    import C11
    thorough = c.tier == "thorough"
    inp = os.path.join(vf.WORK, "C11.dgl.in")
    outp = os.path.join(vf.WORK, "C11.dgl.out")
    exp = []
    nwalks = 0
    with open(inp, "w") as f:
        for ci, name in enumerate(["g1", "g2"] + (["g3"] if thorough else [])):
            k = C11.CONFIGS[name]
            d, m, cfgp = C11.materialise(name, k, "GenSpecR", ["EmitWalk"], "DeferralMCR")
            r = vf.tlc(d, m, cfgp, workers=1, timeout=900, simulate=600 if thorough else 120, depth=30, seed=c.seed * 10 + ci + 1, heap="4g")
            walks = vf.parse_walks(r.stdout)
            if not walks:
                raise vf.ToolError("DeferralMC produced no walks")
            for wi, w in enumerate(walks):
                conf = " ".join(f"{p}={','.join(k['gr'][p]) if k['gr'][p] else '-'}" for p in C11.PEERS)
                f.write(f"seq {name}/{wi} {conf}\n")
                nwalks += 1
                for stp in w:
                    o = stp["op"]
                    if o["k"] == "est":
                        f.write(f"est {o['p']} {','.join(sorted(o['fams'])) or '-'}\n")
                    elif o["k"] == "eor":
                        f.write(f"eor {o['p']} {o['f']}\n")
                    elif o["k"] == "withdrawn":
                        f.write(f"withdrawn {o['p']}\n")
                    elif o["k"] == "timer":
                        f.write("timer\n")
                    else:
                        f.write(f"route {o['f']} {o['x']}\n")
                    exp.append((f"{name}/{wi}", stp, k))
    if os.path.exists(outp):
        os.remove(outp)
    rc, out = vf.daemon_test("event::verif_harness::deferral_glue_replay", env={"VERIF_IN": inp, "VERIF_OUT": outp}, timeout=1800)
    if rc != 0 or not os.path.exists(outp):
        raise vf.ToolError(f"deferral_glue_replay failed rc={rc}: {out[-2000:]}")
    got = vf.read_jsonl(outp)
    if len(got) != len(exp):
        raise vf.ToolError(f"deferral_glue_replay: {len(got)} results for {len(exp)} steps")
    seen = set()
    failed = set()
    hist = {}
    for (sid, stp, k), g in zip(exp, got):
        hist.setdefault(sid, []).append(stp["op"])
        if sid in failed:
            continue
        if g["note"]:
            raise vf.ToolError(f"deferral_glue_replay could not drive a step: {g['note']}")
        post = stp["post"]
        bad = None
        if g["machine"]["st"] != post["st"] or {p: sorted(v) for p, v in g["machine"]["pending"].items()} != {p: sorted(v) for p, v in post["pending"].items()}:
            bad = ("machine", f"model {post['st']} {post['pending']}, real {g['machine']}")
        elif g["restarting"] != post["restarting"]:
            bad = ("restarting", f"model restarting={post['restarting']}, Global.selection_deferral is {'set' if g['restarting'] else 'cleared'}")
        elif g["timer"] != post["timer"]:
            bad = ("timer", f"model timer={post['timer']}, real selection-deferral timer running={g['timer']}")
        else:
            for fam_, m in post["ann"].items():
                for x, n in m.items():
                    real = min(2, g["ann"].get(f"{fam_}/{x}", 0))
                    if real != n:
                        bad = ("announced", f"{fam_}/{x}: model announced {n} time(s), real {g['ann'].get(f'{fam_}/{x}', 0)}")
        if bad:
            failed.add(sid)
            sig = (bad[0], stp["op"]["k"])
            if sig not in seen:
                seen.add(sig)
                c.violation("glue." + bad[0], {"what": bad[1], "op": stp["op"], "history": hist[sid][-12:], "config": k},
                            {"spec": "Deferral", "config": k, "ops": list(hist[sid])})
    c.cov["parts"]["driver-glue"] = {"behaviours": nwalks, "steps": len(exp)}
    c.cov["evaluations"] += len(exp)
    c.cov["traces_validated_against_impl"] += nwalks
    c.assumptions.append("driver glue: PeerEstablished / EorReceived enter through process_effects of a test session object of that peer, "
                         "PeerWithdrawn through a real connection that ends before the OPEN exchange; the selection-deferral timer is "
                         "hours long and its expiry is injected by calling its handler")


def gr_glue(c):
    """C10 driver binding: GrHelper.tla behaviours on the real session code (event.rs::gr_replay)."""
    import json
    import os
    import vf
    import C10
    reasons = ["io", "remote_cease", "remote_hard_reset", "remote_noncease", "local_noncease", "admin", "admin_down_flag"]
    thorough = c.tier == "thorough"
    cfg = C10.write_cfg("C10.glue.cfg", ["v4", "v6"], [1], reasons, "GenSpec", ["EmitEdge"], comms="{FALSE, TRUE}")
    r = vf.tlc(C10.SPEC, "GrHelperMC", cfg, workers=4, timeout=900, want_edges=True)
    edges = r.edges
    init = None
    for e in edges:
        p = e["pre"]
        if p["gr"]["st"] == "Idle" and not p["rt"] and not p["lt"] and p["sess"] == "down" and \
                all(not v for v in p["routes"].values()):
            init = vf.canon(p)
            break
    def klass(e):
        # behaviourally distinct transition classes for the quick tier: machine state shape, timers, session
        # state, which negotiated sets are empty / partial, whether marked / fresh routes exist, and the operation
        p, o = e["pre"], e["op"]
        marked = any(r["st"] or r["ll"] for rs in p["routes"].values() for r in rs)
        fresh = any(not (r["st"] or r["ll"]) for rs in p["routes"].values() for r in rs)
        # a re-announced route that itself carries the LLGR_STALE community must survive every purge
        freshc = any(not (r["st"] or r["ll"]) and r.get("c") for rs in p["routes"].values() for r in rs)
        ok = dict(o)
        for f in ("x", "n", "c"):
            ok.pop(f, None)
        for f in ("gr", "llgr"):
            if f in ok:
                ok[f] = len(ok[f])
        return (p["gr"]["st"], len(p["gr"]["fams"]), len(p["gr"]["llgr"]), p["gr"]["fl"], p["rt"], len(p["lt"]),
                p["sess"], len(p["sgr"]), len(p["sllgr"]), p["nbit"], marked, fresh, freshc, vf.canon(ok))
    # the complete graph (two families, the LLGR_STALE-carrying routes) is too large to replay edge by edge on real
    # sessions within the thorough budget: one representative per class plus a random sample, ten times the quick one
    targets, nclass = vf.pick_targets(edges, klass, extra=2500 if thorough else 250, seed=c.seed)
    seqs, covered, total = vf.cover_sequences(edges, init_key=init, max_len=40, seed=c.seed, targets=targets)
    inp = os.path.join(vf.WORK, "C10.ev.in")
    outp = os.path.join(vf.WORK, "C10.ev.out")

    def fs(x):
        return ",".join(sorted(x)) if x else "-"

    def line(op):
        k = op["k"]
        if k == "establish":
            return f"establish {fs(op['gr'])} {fs(op['llgr'])} {1 if op['nbit'] else 0}"
        if k == "announce":
            return f"announce {op['f']} {op['x']} {1 if op['n'] else 0} {1 if op.get('c') else 0}"
        if k == "withdraw":
            return f"withdraw {op['f']} {op['x']}"
        if k in ("eor", "llgrtimer"):
            return f"{k} {op['f']}"
        if k == "drop":
            return f"drop {op['reason']}"
        return k
    with open(inp, "w") as f:
        for si, seq in enumerate(seqs):
            f.write(f"seq e{si}\n")
            for ei in seq:
                f.write(line(edges[ei]["op"]) + "\n")
    if os.path.exists(outp):
        os.remove(outp)
    rc, out = vf.daemon_test("event::verif_harness::gr_replay", env={"VERIF_IN": inp, "VERIF_OUT": outp}, timeout=5400)
    if rc != 0 or not os.path.exists(outp):
        raise vf.ToolError(f"event harness gr_replay failed rc={rc}:\n{out[-3000:]}")
    got = {(j["seq"], j["step"]): j for j in vf.read_jsonl(outp)}
    ST = C10.ST

    def norm_model(p):
        return {"gr": {"st": ST[p["gr"]["st"]], "fams": sorted(p["gr"]["fams"]), "llgr": sorted(p["gr"]["llgr"]),
                       "fl": p["gr"]["fl"]},
                "rt": p["rt"], "lt": sorted(p["lt"]), "sess": p["sess"],
                "routes": {f: sorted([r["x"], r["st"], r["ll"]] for r in rs) for f, rs in p["routes"].items()}}

    def norm_real(st):
        g = st["gr"]
        return {"gr": {"st": g["st"], "fams": sorted(g["fams"]), "llgr": sorted(g["llgr"]), "fl": g["from_llgr"]},
                "rt": st["rt"], "lt": sorted(st["lt"]), "sess": st["sess"],
                "routes": {f: sorted(list(r) for r in rs) for f, rs in st["routes"].items()}}

    def monitor(real):
        """C10 core invariant evaluated on the real projected state."""
        bad = []
        for f, rs in real["routes"].items():
            if any(r[1] or r[2] for r in rs):
                pend = real["rt"] or f in real["lt"] or (real["sess"] == "up" and real["gr"]["st"] == "PeerReconnected"
                                                         and f in real["gr"]["fams"])
                if not pend:
                    bad.append(f"stale routes of {f} exist but no restart timer, no LLGR timer and no End-of-RIB is pending")
        return bad
    steps = 0
    for si, seq in enumerate(seqs):
        for i, ei in enumerate(seq, start=1):
            e = edges[ei]
            j = got.get((f"e{si}", i))
            if j is None:
                raise vf.ToolError(f"no event-harness record for e{si} step {i}")
            steps += 1
            real = norm_real(j["state"])
            model = norm_model(e["post"])
            detail = None
            mon = monitor(real)
            if mon:
                detail = {"kind": "glue.monitor", "failed": mon, "actual": real}
            elif real != model:
                diff = {k: {"expected": model[k], "actual": real[k]} for k in model if model[k] != real[k]}
                detail = {"kind": "glue.state", "diff": diff}
            if detail:
                detail.update({"step": i, "op": e["op"], "harness_note": j.get("note", "")})
                c.violation(detail["kind"], detail, {"spec": "GrHelper", "steps": [line(edges[x]["op"]) for x in seq[:i]]})
                break
    # a peer whose Restart Time is 0 (the usual "LLGR only" configuration): the restart timer is due the moment the session
    # drops, so after the drop the state must be what the model reaches by `drop` followed at once by the timer's expiry
    step_of = {}
    for e in edges:
        step_of[(vf.canon(e["pre"]), vf.canon(e["op"]))] = e
    zero = []
    for gr, ll in ((["v4"], []), (["v4", "v6"], []), (["v4"], ["v4"]), (["v4", "v6"], ["v6"])):
        ops = [{"k": "connect"}, {"k": "establish", "gr": gr, "llgr": ll, "nbit": False},
               {"k": "announce", "f": "v4", "x": 1, "n": False, "c": False}, {"k": "drop", "reason": "io"}, {"k": "timer"}]
        cur, ok = init, True
        post = None
        for o in ops:
            cand = [e for (pk, ok_), e in step_of.items() if pk == cur and all(e["op"].get(k) == v or (isinstance(v, list) and sorted(e["op"].get(k, [])) == sorted(v)) for k, v in o.items())]
            if not cand:
                ok = False
                break
            post = cand[0]["post"]
            cur = vf.canon(post)
        if ok:
            zero.append((gr, ll, post))
    if not zero:
        raise vf.ToolError("gr_glue: the zero-restart-time histories are not in the model's graph")
    zin = os.path.join(vf.WORK, "C10.zero.ev.in")
    zout = os.path.join(vf.WORK, "C10.zero.ev.out")
    with open(zin, "w") as f:
        for i, (gr, ll, _) in enumerate(zero):
            f.write(f"seq z{i}\nconnect\nestablish {fs(gr)} {fs(ll)} 0 0\nannounce v4 1 0 0\ndrop io\nsettle\n")
    if os.path.exists(zout):
        os.remove(zout)
    rc, out = vf.daemon_test("event::verif_harness::gr_replay", env={"VERIF_IN": zin, "VERIF_OUT": zout}, timeout=600)
    if rc != 0 or not os.path.exists(zout):
        raise vf.ToolError(f"gr_replay (zero restart time) failed rc={rc}:\n{out[-2000:]}")
    zgot = {(j["seq"], j["step"]): j for j in vf.read_jsonl(zout)}
    for i, (gr, ll, post) in enumerate(zero):
        real = norm_real(zgot[(f"z{i}", 5)]["state"])
        model = norm_model(post)
        mon = monitor(real)
        if mon or real != model:
            diff = {k: {"expected": model[k], "actual": real[k]} for k in model if model[k] != real[k]}
            c.violation("glue.zero_restart_time", {"gr": gr, "llgr": ll, "failed": mon, "diff": diff,
                                                   "why": "after a drop with Restart Time 0 the state is not the one after the restart timer's expiry"},
                        {"spec": "GrHelper", "steps": [f"establish {fs(gr)} {fs(ll)} 0 (restart time 0)", "announce v4 1", "drop io", "(the timer fires)"]})
            break
    steps += 5 * len(zero)
    c.cov["parts"]["driver"] = {"model_transitions": total, "covered": covered, "sequences": len(seqs),
                                "steps_replayed": steps, "reasons": reasons, "all_model_transitions": len(edges),
                                "transition_classes": nclass,
                                "not_executed": ["hold (needs a real 3 s wait)", "local_cease (max-prefix)"]}
    c.cov["evaluations"] += steps
    c.cov["traces_validated_against_impl"] += len(seqs)
    c.cov["exhaustive"] = covered == total
    if seqs:
        c.sample({"driver_ops": [line(edges[i]["op"]) for i in seqs[0][:12]]})
    c.assumptions.append("session-end classes 'hold' and 'local_cease' are decided at model level and by the shared eligibility "
                         "function only; the driver replay executes io / remote cease / hard reset / remote non-cease / local "
                         "non-cease / admin shutdown / admin-down")


def ibgp_only_from_external(c):
    """C05, last clause, at the SESSION: which peers validate_message is told are external is the daemon's decision
    (PeerSession::rx_msg).  Real sessions of every kind (plain external, route-server client, internal, confederation) send
    LOCAL_PREF / ORIGINATOR_ID / CLUSTER_LIST; from an external peer none of them may be believed."""
    cases = []
    for peer in ("ebgp", "rs", "ibgp", "confed"):
        for loop in ("none", "originator_other", "cluster_other"):
            cases.append({"case": {"peer": peer, "confed": peer == "confed", "loop": loop}, "installed": True})
    c.inbound_cases = cases
    inbound_loops(c, tag="C05", kind="c05.ibgp_only_believed")


def inbound_loops(c, tag="C09", kind="prop.inbound_ibgp_attr"):
    """C09 inbound half: the Installed table of Propagation.tla on a real session."""
    import json
    import os
    import vf
    cases = getattr(c, "inbound_cases", None)
    if not cases:
        raise vf.ToolError("no inbound cases emitted")
    inp = os.path.join(vf.WORK, f"{tag}.inb.in")
    outp = os.path.join(vf.WORK, f"{tag}.inb.out")
    with open(inp, "w") as f:
        for j in cases:
            k = j["case"]
            f.write(f"in {k['peer']} {1 if k['confed'] else 0} {k['loop']}\n")
    if os.path.exists(outp):
        os.remove(outp)
    rc, out = vf.daemon_test("event::verif_harness::inbound_replay", env={"VERIF_IN": inp, "VERIF_OUT": outp}, timeout=1500)
    if rc != 0 or not os.path.exists(outp):
        raise vf.ToolError(f"inbound_replay failed rc={rc}:\n{out[-3000:]}")
    got = {j["i"]: j for j in vf.read_jsonl(outp)}
    for i, j in enumerate(cases):
        g = got.get(i)
        if g is None:
            raise vf.ToolError(f"no inbound result {i}")
        if g["note"]:
            raise vf.ToolError(f"inbound harness: {g['note']} for {j['case']}")
        if g["installed"] != j["installed"]:
            c.violation("prop.inbound", {"case": j["case"], "expected_installed": j["installed"], "actual_installed": g["installed"]},
                        {"spec": "Propagation (inbound)", "case": j["case"]})
        elif j["case"]["peer"] in ("ebgp", "rs") and g["kept"]:
            c.violation(kind, {"case": j["case"], "kept": g["kept"],
                                                   "why": "iBGP-only attribute from an external peer was believed"},
                        {"spec": "Propagation (inbound)", "case": j["case"]})
    c.cov["evaluations"] += len(cases)
    c.cov["distinct_nontrivial"] += sum(1 for j in cases if not j["installed"])
    c.cov["parts"]["inbound"] = {"cases": len(cases)}


def _ps_cfg(name, kinds, invs, spec="Spec", dev=()):
    d = os.path.join(vf.WORK, "cfg")
    os.makedirs(d, exist_ok=True)
    p = os.path.join(d, name)
    ks = ", ".join('"%s"' % k for k in kinds)
    dv = ", ".join('"%s"' % k for k in dev)
    with open(p, "w") as f:
        f.write("CONSTANTS\n  Kinds = {%s}\n  SetNames = {\"a\"}\n  StmtNames = {\"s1\", \"s2\"}\n  PolNames = {\"p1\", \"p2\"}\n"
                "  Elems = {1, 2}\n  MaxLen = 2\n  Dev = {%s}\nSPECIFICATION %s\nINVARIANTS %s\nCHECK_DEADLOCK FALSE\n"
                % (ks, dv, spec, " ".join(invs)))
    return p


def _ps_canon(st):
    return {
        "sets": sorted(vf.canon({"k": x["k"], "n": x["n"], "el": sorted(x["el"])}) for x in st["sets"]),
        "stmts": sorted(vf.canon({"n": x["n"], "disp": x["disp"], "conds": sorted(vf.canon(c) for c in x["conds"])}) for x in st["stmts"]),
        "pols": sorted(vf.canon({"n": x["n"], "st": list(x["st"])}) for x in st["pols"]),
        "asg": vf.canon({"ex": st["asg"]["ex"], "def": st["asg"]["def"] if st["asg"]["ex"] else "-", "pl": list(st["asg"]["pl"])}),
    }


def _ps_rename(obj, m):
    if isinstance(obj, dict):
        return {k: (m.get(v, v) if k == "k" and isinstance(v, str) else _ps_rename(v, m)) for k, v in obj.items()}
    if isinstance(obj, list):
        return [m.get(x, x) if isinstance(x, str) and x in m else _ps_rename(x, m) for x in obj]
    return obj


def policy_store(c):
    """C14 store half: PolicyStore.tla design check + random behaviours replayed on the real PolicyTable."""
    spec = os.path.join(vf.ROOT, "spec", "PolicyStore")
    thorough = c.tier == "thorough"
    r = vf.tlc(spec, "PolicyStore", _ps_cfg("C14.store.design.cfg", ["k1"], ["TypeOK", "NoDivergence"]), workers=8, timeout=1500)
    c.add_tlc("store-design", r)
    if r.violated:
        c.violation("store.design", {"invariant": r.violated, "tlc": r.error_text[:3000]}, {"spec": "PolicyStore"})
        return
    # non-vacuity of the invariant: a store that deletes referenced sets must violate it
    rv = vf.tlc(spec, "PolicyStore", _ps_cfg("C14.store.dev.cfg", ["k1"], ["NoDivergence"], dev=["delset_ignores_use"]),
                workers=4, timeout=600, quiet=True)
    if not rv.violated:
        raise vf.ToolError("PolicyStore: NoDivergence is vacuous (deviation delset_ignores_use not detected)")
    plans = [(["k1"], [{"k1": k} for k in ("prefix", "neighbor", "aspath", "community", "ext", "large")], 120 if not thorough else 1500, 40)]
    plans.append((["k1", "k2"], [{"k1": "prefix", "k2": "large"}, {"k1": "aspath", "k2": "community"}, {"k1": "ext", "k2": "neighbor"}],
                  60 if not thorough else 800, 40))
    total_steps = 0
    nwalks = 0
    okc = errc = 0
    for kinds, maps, num, depth in plans:
        rw = vf.tlc(spec, "PolicyStoreMC", _ps_cfg("C14.store.walk%d.cfg" % len(kinds), kinds, ["EmitWalk"], spec="GenSpec"),
                    workers=1, timeout=1500, simulate=num, depth=depth, seed=c.seed + 7, heap="4g")
        walks = vf.parse_walks(rw.stdout)
        c.add_tlc("store-walks-%d" % len(kinds), rw)
        if not walks:
            raise vf.ToolError("PolicyStoreMC produced no walks")
        for m in maps:
            inp = os.path.join(vf.WORK, "C14.store.in")
            outp = os.path.join(vf.WORK, "C14.store.out")
            exp = []
            with open(inp, "w") as f:
                for w in walks:
                    f.write(json.dumps({"reset": True, "kinds": sorted(m.values())}) + "\n")
                    exp.append(None)
                    for stp in w:
                        stp = _ps_rename(stp, m)
                        f.write(json.dumps(stp["op"]) + "\n")
                        exp.append(stp)
            rc, so, se = vf.lib_run("store_replay", [inp, outp], timeout=1200)
            if rc != 0:
                raise vf.ToolError(f"store_replay failed rc={rc}: {se[-2000:]}")
            got = vf.read_jsonl(outp)
            if len(got) != len(exp):
                raise vf.ToolError("store_replay output length mismatch")
            hist = []
            skip = False
            reported = set()
            for e, g in zip(exp, got):
                if e is None:
                    hist = []
                    skip = False
                    nwalks += 1
                    continue
                if skip:
                    continue
                hist.append(e["op"])
                total_steps += 1
                if e["res"] == "ok":
                    okc += 1
                else:
                    errc += 1
                bad = None
                detail = {}
                if g["res"] == "panic":
                    bad = "panic"
                elif g["res"] != e["res"]:
                    bad = "result"
                    detail = {"expected": e["res"], "actual": g["res"], "why": g["why"]}
                elif g["state"]["div"]:
                    bad = "divergence"
                    detail = {"div": g["state"]["div"]}
                else:
                    ce, cg = _ps_canon(e["post"]), _ps_canon(g["state"])
                    for k in ce:
                        if ce[k] != cg[k]:
                            bad = "state." + k
                            detail = {"expected": ce[k], "actual": cg[k]}
                            break
                    if bad is None:
                        ge = {vf.canon(sorted(x["f"])): x["d"] for x in g["state"]["eval"]}
                        for x in e["post"]["eval"]:
                            key = vf.canon(sorted(x["f"]))
                            if key in ge and ge[key] != x["d"]:
                                bad = "eval"
                                detail = {"probe": x["f"], "expected": x["d"], "actual": ge[key]}
                                break
                if bad:
                    skip = True          # the rest of this behaviour is off the model
                    sig = (bad, e["op"]["op"], e["op"].get("k"))
                    if sig in reported:
                        continue
                    reported.add(sig)
                    c.violation("store." + bad, dict(detail, op=e["op"], kinds=m),
                                {"spec": "PolicyStore", "kinds": m, "ops": hist})
    c.cov["parts"]["store-replay"] = {"behaviours": nwalks, "steps": total_steps, "ok": okc, "err": errc}
    c.cov["traces_validated_against_impl"] = c.cov.get("traces_validated_against_impl", 0) + nwalks
    c.assumptions.append("policy store: one set name per kind, two statements, two policies, the global import assignment; per-peer "
                         "assignments (checked by the daemon before it calls the store) and export are not modelled; replace with an "
                         "empty element list is not generated")


def _adm_cfg(name, consts, spec, invs, dev=()):
    d = os.path.join(vf.WORK, "cfg")
    os.makedirs(d, exist_ok=True)
    p = os.path.join(d, name)
    dv = ", ".join('"%s"' % k for k in dev)
    with open(p, "w") as f:
        f.write("CONSTANTS\n%s\n  Dev = {%s}\nSPECIFICATION %s\nINVARIANTS %s\nCHECK_DEADLOCK FALSE\n" % (consts, dv, spec, " ".join(invs)))
    return p


ADM_SMALL = '  Addrs = {"s", "d"}\n  DynAddrs = {"d"}\n  MaxSess = 3\n  MaxGen = 2'
ADM_FULL = '  Addrs = {"s", "d", "u"}\n  DynAddrs = {"d"}\n  MaxSess = 4\n  MaxGen = 3'
ADM_WALK = '  Addrs = {"s", "d", "u"}\n  DynAddrs = {"d"}\n  MaxSess = 6\n  MaxGen = 5'
ADM_INVS = ["TypeOK", "OnePerDirection", "SlotHeld", "LiveIsAdmitted", "DynamicHasConnection"]


def admission(c, slots_only=False):
    """C16 admission half: Admission.tla design check + random behaviours on the real accept_connection / run / API handlers.
    slots_only (C07): only the replay, as the binding of 'at most one connection per direction, the slot is held until the
    connection has been torn down and free afterwards' to the real ConnArbiter."""
    spec = os.path.join(vf.ROOT, "spec", "Admission")
    thorough = c.tier == "thorough"
    tag = "C07" if slots_only else "C16"
    if not slots_only:
        r = vf.tlc(spec, "Admission", _adm_cfg("C16.adm.design.cfg", ADM_FULL if thorough else ADM_SMALL, "Spec", ADM_INVS),
                   workers=12 if thorough else 6, timeout=2400)
        c.add_tlc("admission-design", r)
        if r.violated:
            c.violation("admission.design", {"invariant": r.violated, "tlc": r.error_text[:3000]}, {"spec": "Admission"})
            return 0
        for dev in ("ForceDownFreesSlot", "EndIgnoresGeneration"):
            rv = vf.tlc(spec, "Admission", _adm_cfg("C16.adm.dev.cfg", ADM_SMALL, "Spec", ADM_INVS, dev=[dev]), workers=4, timeout=600, quiet=True)
            if not rv.violated:
                raise vf.ToolError(f"Admission: invariants are vacuous (deviation {dev} not detected)")
    num, depth = (2500, 30) if thorough else (250, 25)
    if slots_only:
        num = 800 if thorough else 150
    rw = vf.tlc(spec, "AdmissionMC", _adm_cfg(f"{tag}.adm.walk.cfg", ADM_WALK, "GenSpec", ["EmitWalk"]),
                workers=1, timeout=1500, simulate=num, depth=depth, seed=c.seed + (17 if slots_only else 11), heap="4g")
    walks = vf.parse_walks(rw.stdout)
    c.add_tlc("admission-walks", rw)
    if not walks:
        raise vf.ToolError("AdmissionMC produced no walks")
    inp = os.path.join(vf.WORK, f"{tag}.adm.in")
    outp = os.path.join(vf.WORK, f"{tag}.adm.out")
    exp = []
    with open(inp, "w") as f:
        for w in walks:
            f.write("walk\n")
            exp.append(None)
            for stp in w:
                o = stp["op"]
                q = stp["post"]["closing"]       # sessions whose tail is pending after this step: the harness must not yield
                if o["op"] == "connect":
                    f.write(f"connect {o['a']} {o['dir']} {q}\n")
                elif o["op"] in ("rclose", "end"):
                    f.write(f"{o['op']} {o['id']} - {q}\n")
                else:
                    f.write(f"{o['op']} {o['a']} - {q}\n")
                exp.append(stp)
    vf.daemon_test("admission_replay", {"VERIF_IN": inp, "VERIF_OUT": outp}, timeout=2400)
    got = vf.read_jsonl(outp)
    if len(got) != len(exp):
        raise vf.ToolError(f"admission_replay: {len(got)} results for {len(exp)} steps")
    steps = 0
    nw = 0
    skip = False
    hist = []
    reported = set()
    kinds = {}
    for e, g in zip(exp, got):
        if e is None:
            nw += 1
            skip = False
            hist = []
            continue
        if skip:
            continue
        o = e["op"]
        hist.append(o)
        steps += 1
        kinds[o["op"] + ":" + e["res"]] = kinds.get(o["op"] + ":" + e["res"], 0) + 1
        bad = None
        detail = {}
        if g["res"] != e["res"]:
            bad = "result"
            detail = {"expected": e["res"], "actual": g["res"]}
        else:
            ce = sorted(vf.canon(x) for x in e["post"]["peers"])
            cg = sorted(vf.canon(x) for x in g["state"]["peers"])
            if ce != cg:
                bad = "state"
                detail = {"expected": ce, "actual": cg}
            elif e["post"]["nsess"] != g["state"]["nsess"]:
                bad = "sessions"
                detail = {"expected": e["post"]["nsess"], "actual": g["state"]["nsess"]}
        if bad:
            skip = True
            sig = (bad, o["op"])
            if sig in reported:
                continue
            reported.add(sig)
            c.violation("admission." + bad, dict(detail, op=o), {"spec": "Admission", "ops": hist})
    c.cov["parts"]["admission-replay"] = {"behaviours": nw, "steps": steps, "kinds": kinds}
    c.cov["traces_validated_against_impl"] = c.cov.get("traces_validated_against_impl", 0) + nw
    c.assumptions.append("admission: three loopback IPv4 addresses (configured / inside the dynamic prefix 127.0.2.0/24 / unknown); at most one "
                         "session tail pending at a time in the replayed behaviours (the model itself has no such restriction); IPv6 and "
                         "prefix-length classes are covered by the containment table only")
    return steps


def teardown(c):
    """C07 driver half: the Teardown.tla table on real connections (PeerSession::run over a socket)."""
    import json
    spec = os.path.join(vf.ROOT, "spec", "Teardown")
    r = vf.tlc(spec, "TeardownMC", os.path.join(spec, "q.cfg"), workers=2, timeout=300)
    c.add_tlc("teardown-table", r)
    if r.violated:
        c.violation("design", {"invariant": r.violated, "tlc": r.error_text[:3000]}, {"spec": "Teardown"})
        return
    cases = [json.loads(json.loads(ln)) for ln in r.stdout.splitlines() if ln.startswith('"{')]
    if not cases:
        raise vf.ToolError("Teardown: no cases emitted")
    inp = os.path.join(vf.WORK, "C07.teardown.in")
    outp = os.path.join(vf.WORK, "C07.teardown.out")
    with open(inp, "w") as f:
        for j in cases:
            k = j["case"]
            f.write(f"case {k['st']} {k['cause']} {k['role']}\n")
    if os.path.exists(outp):
        os.remove(outp)
    rc, out = vf.daemon_test("event::verif_harness::teardown_replay", env={"VERIF_IN": inp, "VERIF_OUT": outp}, timeout=1500)
    if rc != 0 or not os.path.exists(outp):
        raise vf.ToolError(f"teardown_replay failed rc={rc}:\n{out[-3000:]}")
    got = {j["i"]: j for j in vf.read_jsonl(outp)}
    seen = set()
    for i, j in enumerate(cases):
        g = got.get(i)
        if g is None:
            raise vf.ToolError(f"no teardown result {i}")
        k, e = j["case"], j["exp"]
        if "no OPEN from the daemon" in g["note"] or "no KEEPALIVE after our OPEN" in g["note"] or "first connection refused" in g["note"]:
            raise vf.ToolError(f"teardown harness could not reach {k}: {g['note']}")
        bad = None
        if "did not end" in g["note"]:
            bad = ("teardown.hang", "the connection's task did not end")
        elif g["slot"] != "Idle" or g["held"]:
            bad = ("teardown.slot", f"the slot is {g['slot']} (held={g['held']}) after the connection ended")
        elif not g["reconnect"]:
            bad = ("teardown.reconnect", "a new attempt in the same direction is refused or gets no OPEN: " + g["note"])
        elif e["code"] and (g["code"], g["sub"]) != (e["code"], e["sub"]):
            bad = ("teardown.notification", f"expected NOTIFICATION {e['code']}/{e['sub']} on the wire, saw {g['code']}/{g['sub']}")
        if bad:
            sig = (bad[0], k["cause"], k["st"])
            if sig in seen:
                continue
            seen.add(sig)
            c.violation(bad[0], {"case": k, "why": bad[1], "observed": g}, {"spec": "Teardown", "case": k})
    c.cov["evaluations"] = c.cov.get("evaluations", 0) + len(cases)
    c.cov["distinct_nontrivial"] = c.cov.get("distinct_nontrivial", 0) + len(cases)
    c.cov["parts"]["teardown"] = {"cases": len(cases), "fsm_error_cases": sum(1 for j in cases if j["exp"]["code"])}
    c.assumptions += ["driver half: 27 (state, cause) pairs x both connection roles on a real PeerSession::run over loopback; for a refused "
                      "OPEN or broken framing the NOTIFICATION code is not constrained (the statement fixes it only for messages not "
                      "allowed in the current state)"]


def rov_use(c, routes, states, w):
    """C12: the validation state as USED by import policy (through TableManager::apply_import and its needs_rpki gate, for
    assignments built in one call or accumulated over two) and as SHOWN by collect_paths."""
    import random
    rng = random.Random(c.seed + 12)
    pick = [s for s in states if len(s["vrps"]) >= 1]
    rng.shuffle(pick)
    pick = pick[:400 if c.tier == "thorough" else 120]
    inp = os.path.join(vf.WORK, "C12.rovuse.in")
    outp = os.path.join(vf.WORK, "C12.rovuse.out")
    embs = [("v4", 8), ("v6", 61), ("v4", 21)] if c.tier == "thorough" else [("v4", 8), ("v6", 61)]
    with open(inp, "w") as f:
        for fam, off in embs:
            f.write(f"emb {fam} {off}\n")
            f.write("routes " + " ".join(f"{r['p']['len']}:{r['p']['val']}:{r['o']}" for r in routes) + "\n")
            for s in pick:
                f.write("state " + "".join(s["exp"]) + " " +
                        " ".join(f"{v['c']}:{v['p']['len']}:{v['p']['val']}:{v['m']}:{v['a']}" for v in s["vrps"]) + "\n")
    if os.path.exists(outp):
        os.remove(outp)
    rc, out = vf.daemon_test("table_manager::verif_harness::rov_use_replay", env={"VERIF_IN": inp, "VERIF_OUT": outp}, timeout=1500)
    if rc != 0 or not os.path.exists(outp):
        raise vf.ToolError(f"rov_use_replay failed rc={rc}:\n{out[-3000:]}")
    summary = None
    seen = set()
    for j in vf.read_jsonl(outp):
        if "summary" in j:
            summary = j["summary"]
            continue
        for b in j["bad"]:
            sig = (b["kind"], b.get("reject_when"), b.get("assignment_built"))
            if sig in seen:
                continue
            seen.add(sig)
            c.violation("rov." + b["kind"], {"embedding": j["emb"], "state": j["line"], "mismatch": b},
                        {"spec": "Rov (use)", "embedding": j["emb"], "state": j["line"], "mismatch": b})
    if summary is None:
        raise vf.ToolError("rov_use_replay wrote no summary")
    c.cov["evaluations"] += summary["evaluations"]
    c.cov["parts"]["use"] = dict(summary, embeddings=len(embs))


def llgr_marking(c):
    """C09, 'LLGR-stale routes carry LLGR_STALE', for a peer with several prefixes: when a source enters the LLGR stale period every
    route of it that a neighbour holds is sent again with the community - whichever prefix the table visits first.  Small
    scripted histories on the real export pipeline (the C01 world): n prefixes from s1 (and a worse path from s2), delivered and
    flushed; LLGR marking of s1; everything delivered and flushed; compared with a brand-new session."""
    import C01
    seqs = []
    for scen in ("ebgp", "ibgp", "rs"):
        for sendmax in (1, 2):
            for n in (1, 2, 3):
                for second in (False, True):
                    ops = []
                    for i in range(1, n + 1):
                        ops.append(f"announce s1 p{i} x")
                        if second and scen == "ebgp":
                            ops.append(f"announce s2 p{i} y")
                    ops += ["drain", "flush", "markllgr s1", "drain", "flush", "fresh"]
                    seqs.append((f"llgr-{scen}-{sendmax}-{n}-{int(second)}", sendmax, ops, None, scen))
    got = C01.run_harness("llgr", seqs)
    bad = 0
    for sid, sendmax, ops, _, scen in seqs:
        n = len(ops)
        marked = C01.rset(got[(sid, n - 1)]["state"]["mirror"])
        fresh = C01.rset(got[(sid, n)]["state"]["mirror"])
        notes = [got[(sid, i)]["note"] for i in range(1, n + 1) if got[(sid, i)]["note"]]
        s1 = [r for r in marked if r[1] == "s1"]
        detail = None
        if notes:
            detail = {"why": "harness: " + notes[0]}
        elif any(not r[3] for r in s1):
            detail = {"why": "a route of the LLGR-stale source is held by the neighbour without LLGR_STALE", "neighbour": marked}
        elif marked != fresh:
            detail = {"why": "after the marking the neighbour holds something else than a brand-new session is sent", "neighbour": marked,
                      "brand_new_session": fresh}
        elif not s1 and not ("announce s2 p1 y" in ops and sendmax == 1):
            # (with a fresh path from s2 a plain session is sent that one: the stale source is least preferred)
            raise vf.ToolError(f"llgr_marking {sid}: nothing of s1 reached the neighbour: {marked}")
        if detail and bad < 3:
            bad += 1
            c.violation("prop.llgr_marking", dict(detail, scenario=sid, ops=ops), {"spec": "Propagation (LLGR marking)", "ops": ops, "scenario": sid})
    c.cov["evaluations"] += len(seqs)
    c.cov["parts"]["llgr_marking"] = {"histories": len(seqs)}


def rtr_operator_ends(c):
    """C13: a session the OPERATOR ends (DisableRpki, DeleteRpki, hard ResetRpki on the real GrpcService, with the real
    try_connect task) loses its VRPs like any other.  Each kind is repeated: which branch of the cancelled task is polled first
    is random."""
    n = 24 if c.tier == "thorough" else 12
    inp = os.path.join(vf.WORK, "C13.rtrapi.in")
    outp = os.path.join(vf.WORK, "C13.rtrapi.out")
    with open(inp, "w") as f:
        for op in ("disable", "delete", "reset"):
            f.write(f"{op} {n}\n")
    if os.path.exists(outp):
        os.remove(outp)
    rc, out = vf.daemon_test("event::verif_harness::rtr_api_replay", env={"VERIF_IN": inp, "VERIF_OUT": outp}, timeout=1500)
    if rc != 0 or not os.path.exists(outp):
        raise vf.ToolError(f"rtr_api_replay failed rc={rc}:\n{out[-3000:]}")
    res = vf.read_jsonl(outp)
    if len(res) != 3 * n:
        raise vf.ToolError(f"rtr_api_replay: {len(res)} results for {3 * n} runs")
    seen = set()
    for j in res:
        if not j["installed"]:
            raise vf.ToolError(f"rtr_api_replay: the scripted cache's VRP was never installed ({j})")
        if not j["gone"] and j["op"] not in seen:
            seen.add(j["op"])
            left = sum(1 for x in res if x["op"] == j["op"] and not x["gone"])
            c.violation("rtr.operator_end", {"op": j["op"], "runs": n, "runs_in_which_the_VRPs_stayed": left,
                                             "why": "the cache's session was ended through the API and its VRPs are still installed"},
                        {"spec": "RtrClient (end of session ordered by the operator)", "op": j["op"], "runs": n})
    c.cov["evaluations"] += len(res)
    c.cov["parts"]["operator_ends"] = {"runs": len(res)}


def session_limits(c):
    """C15, session half: spec/SessionLimit (one session's per-family limit counters; one action per rx_update call).
    design: TLC exhausts configurations A, B, C (different maxima per family, a family without limit, a zero limit);
    spec -> impl: transitions of the generated graph replayed on a real PeerSession (accept_connection + rx_update) over a
    real TableManager; after every step the counters, rx_update's verdict and a recount of the RIB must equal the model's."""
    sdir = os.path.join(vf.ROOT, "spec", "SessionLimit")
    thorough = c.tier == "thorough"
    maxes = {"A": ("2", "1"), "B": ("1", "-"), "C": ("0", "2")}
    runs = []
    for k in ("A", "B", "C"):
        r = vf.tlc(sdir, "SLDesign", os.path.join(sdir, f"{k}.cfg"), workers=8, timeout=900)
        c.add_tlc("sesslimit-design-" + k, r)
        if r.violated:
            c.violation("sesslimit.design", {"invariant": r.violated, "config": k, "tlc": r.error_text[:3000]},
                        {"spec": "SessionLimit", "config": k, "counterexample": r.error_text[:20000]})
            continue
        r = vf.tlc(sdir, "SessionLimitMC", os.path.join(sdir, f"gen{k}.cfg"), workers=4, timeout=900, want_edges=True)
        edges = r.edges
        if not edges:
            raise vf.ToolError(f"SessionLimitMC gen{k}: no edges")
        init = vf.canon({"held": {"v4": [], "v6": []}, "other": {"v4": [], "v6": []}, "over": False,
                         "cnt": {f: (999 if m == "-" else 0) for f, m in zip(("v4", "v6"), maxes[k])}})

        def klass(e):
            o = e["op"]
            f = o["f"]
            return (o["k"], f, e["pre"]["cnt"][f], e["post"]["cnt"][f], e["post"]["over"],
                    len(e["pre"]["other"][f]), e["pre"]["cnt"]["v6" if f == "v4" else "v4"],
                    o.get("p") in [x[0] for x in e["pre"]["held"][f]], o.get("p") in e["pre"]["other"][f])
        targets, nclass = vf.pick_targets(edges, klass, extra=6000 if thorough else 1200, seed=c.seed)
        seqs, covered, total = vf.cover_sequences(edges, init_key=init, max_len=40, targets=targets, seed=c.seed)
        runs.append((k, edges, seqs))
        c.cov["parts"]["sesslimit-" + k] = {"model_transitions": len(edges), "classes": nclass, "targets": total,
                                            "covered": covered, "sequences": len(seqs)}
    if c.violations:
        return
    inp = os.path.join(vf.WORK, "C15.sl.in")
    outp = os.path.join(vf.WORK, "C15.sl.out")

    def op_line(o):
        if o["k"] in ("ann", "wd"):
            return f"{o['k']} {o['f']} {o['p']} {o['i']}"
        if o["k"] == "annall":
            return f"annall {o['f']} {o['i']}"
        return f"{o['k']} {o['f']} {o['p']}"
    index = {}
    with open(inp, "w") as f:
        for k, edges, seqs in runs:
            for si, seq in enumerate(seqs):
                sid = f"{k}/{si}"
                index[sid] = (k, edges, seq)
                f.write(f"seq {sid} {maxes[k][0]} {maxes[k][1]}\n")
                for ei in seq:
                    f.write(op_line(edges[ei]["op"]) + "\n")
    if os.path.exists(outp):
        os.remove(outp)
    rc, out = vf.daemon_test("event::verif_harness::sesslimit_replay", env={"VERIF_IN": inp, "VERIF_OUT": outp}, timeout=1500)
    if rc != 0 or not os.path.exists(outp):
        raise vf.ToolError(f"sesslimit_replay failed rc={rc}:\n{out[-3000:]}")
    got = {(j["seq"], j["step"]): j for j in vf.read_jsonl(outp)}
    compared = 0
    reported = 0
    for sid, (k, edges, seq) in index.items():
        if reported >= 3:
            break
        for i, ei in enumerate(seq, start=1):
            e = edges[ei]
            j = got.get((sid, i))
            if j is None:
                raise vf.ToolError(f"no harness record for {sid} step {i}")
            compared += 1
            post = e["post"]
            exp = {"over": post["over"], "cnt": post["cnt"],
                   "held": {f: sorted(map(list, post["held"][f])) for f in post["held"]},
                   "other": {f: sorted(post["other"][f]) for f in post["other"]},
                   "dest": {f: len({x[0] for x in post["held"][f]} | set(post["other"][f])) for f in post["held"]}}
            act = {"over": j["over"], "cnt": j["cnt"], "held": {f: sorted(j["held"][f]) for f in j["held"]},
                   "other": {f: sorted(j["other"][f]) for f in j["other"]}, "dest": j["dest"]}
            bad = [x for x in exp if exp[x] != act[x]]
            if bad:
                steps = [op_line(edges[x]["op"]) for x in seq[:i]]
                c.violation("sesslimit." + bad[0],
                            {"config": k, "max": dict(zip(("v4", "v6"), maxes[k])), "step": i, "op": e["op"],
                             "differs": bad, "expected": exp, "actual": act},
                            {"spec": "SessionLimit", "config": k, "max": maxes[k], "steps": steps})
                reported += 1
                break
    c.cov["evaluations"] += compared
    c.cov["traces_validated_against_impl"] = c.cov.get("traces_validated_against_impl", 0) + len(index)


def atomicity(c, pid, what):
    """Real-thread stress of the manager's critical sections that the specifications treat as ONE action (no scheduling hook can
    sit inside a window that does not exist in today's code): `what` = "subs" (C18: the subscriber list under concurrent
    subscribe / unsubscribe with a dead monitor in front) or "vrps" (C13: snapshot installs of one cache concurrent with another
    cache's incremental updates and a third one's removal).  The expected outcome does not depend on the interleaving, so the
    comparison is exact; detection of a split critical section is probabilistic (window x rounds)."""
    thorough = c.tier == "thorough"
    inp = os.path.join(vf.WORK, f"{pid}.atom.in")
    outp = os.path.join(vf.WORK, f"{pid}.atom.out")
    with open(inp, "w") as f:
        if what == "subs":
            f.write(f"subs {40 if thorough else 12} 300\n")
        else:
            f.write(f"vrps {8 if thorough else 3} 20000 1500\n")
    if os.path.exists(outp):
        os.remove(outp)
    rc, out = vf.daemon_test("table_manager::verif_harness::atomicity_stress", env={"VERIF_IN": inp, "VERIF_OUT": outp}, timeout=1200)
    if rc != 0 or not os.path.exists(outp):
        raise vf.ToolError(f"atomicity_stress failed rc={rc}:\n{out[-3000:]}")
    rounds = 0
    for j in vf.read_jsonl(outp):
        rounds += 1
        if j["kind"] == "subs":
            why = None
            if j["new_pre"] != j["new"] or j["new_post"] != j["new"]:
                why = "a monitor that subscribed (while others were being unsubscribed / with a dead monitor in the list) missed a change"
            elif j["old_saw"]:
                why = "an unsubscribed monitor still received a change"
            elif j["listed"] != j["new"] + 1:
                why = "the subscriber list holds something else than the live monitors (and the dead, never unsubscribed one)"
            if why:
                c.violation("atomic.subscribers", dict(j, why=why), {"harness": "atomicity_stress", "input": open(inp).read(), "round": j})
                break
        else:
            why = None
            if j["a_last"] != j["a_expected"] or j["a_other"]:
                why = "after the last snapshot of cache A the table holds something else than that snapshot for it"
            elif not j["b_ok"]:
                why = "cache B's announcements / withdrawals, made while cache A installed snapshots, are not what the table holds for it"
            elif j["c"]:
                why = "VRPs of cache C, whose session went away meanwhile, are still installed"
            if why:
                c.violation("atomic.vrps", dict(j, why=why), {"harness": "atomicity_stress", "input": open(inp).read(), "round": j})
                break
    if rounds == 0:
        raise vf.ToolError("atomicity_stress wrote nothing")
    c.cov["parts"]["atomicity-" + what] = {"rounds": rounds, "threads": 4}
    c.cov["evaluations"] += rounds


def admission_window(c):
    """C16: a connection that accept_connection has just admitted, whose session task has not taken its first step yet, is
    already the neighbour's connection: if the neighbour is disabled or deleted in that window the connection must end
    without ever sending an OPEN (no session for a neighbour that is admin-down or no longer configured).  Scripted histories
    on the real accept_connection / API handlers / PeerSession::run (the walk replay lets every accepted connection start
    before the next operation); a control history shows that the probe sees the OPEN of an undisturbed connection."""
    inp = os.path.join(vf.WORK, "C16w.adm.in")
    outp = os.path.join(vf.WORK, "C16w.adm.out")
    hists = []
    for addr in ("s", "d"):
        for direction in ("P", "A"):
            hists.append((f"control {addr} {direction}", [f"connect {addr} {direction} 0", "probe 1 - 0"], "open"))
            for op in ("disable", "delete"):
                if addr == "d" and op == "disable":
                    continue
                hists.append((f"{op} {addr} {direction}", [f"connect {addr} {direction} 1", f"{op} {addr} - 0", "probe 1 - 0"], "noopen"))
    # UpdatePeer with a session-affecting change (hold time 90 -> 30) while a session is up: the live session is reset, its
    # slot is free again, and the next connection is set up with the new value
    for direction in ("P", "A"):
        hists.append((f"update s {direction}", [f"connect s {direction} 0", "probe 1 - 0", "update s - 0", "probe 1 - 0",
                                               f"connect s {direction} 0", "probe 2 - 0"], "update"))
    with open(inp, "w") as f:
        for _, ops, _ in hists:
            f.write("walk\nadd s - 0\n")
            for o in ops:
                f.write(o + "\n")
    if os.path.exists(outp):
        os.remove(outp)
    vf.daemon_test("admission_replay", {"VERIF_IN": inp, "VERIF_OUT": outp}, timeout=600)
    got = vf.read_jsonl(outp)
    i = 0
    n = 0
    for name, ops, want in hists:
        assert got[i].get("walk"), got[i]
        res = [g["res"] for g in got[i + 1:i + 2 + len(ops)]]
        i += 2 + len(ops)
        if res[1] != "accepted":
            if name.startswith("control"):
                raise vf.ToolError(f"admission_window: control history {name}: connection not accepted ({res})")
            continue
        n += 1
        last = res[-1]
        if want == "update":
            # results: add, connect, probe (OPEN hold 90), update, probe, connect, probe
            if res[2] != "open:90" or res[3] != "ok":
                raise vf.ToolError(f"admission_window: {name}: unexpected set-up {res}")
            why = None
            if res[4] in ("silent",) or res[4].startswith("open"):
                why = "UpdatePeer changed the hold time but the live session was not reset (nothing reached the remote end)"
            elif res[5] != "accepted":
                why = "after UpdatePeer reset the session, the neighbour's next connection was refused"
            elif res[6] != "open:30":
                why = f"the connection after UpdatePeer was not set up with the new hold time (the probe saw {res[6]})"
            if why:
                c.violation("admission.update", {"history": ops, "results": res, "why": why},
                            {"harness": "admission_replay", "ops": ["add s - 0"] + ops})
            continue
        if want == "open" and not last.startswith("open"):
            raise vf.ToolError(f"admission_window: control history {name}: the probe saw {last}, not the OPEN")
        if want == "noopen" and last.startswith("open"):
            c.violation("admission.window", {"history": ops, "results": res,
                                              "why": "the neighbour was disabled / deleted after the connection was admitted and before "
                                                     "its session task started; the connection sent an OPEN all the same"},
                        {"harness": "admission_replay", "ops": ["add s - 0"] + ops})
    c.cov["parts"]["admission-window"] = {"histories": n}
    c.cov["evaluations"] += n
