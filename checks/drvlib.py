def driver_binding(c, runs):
    c.assumptions.append("driver binding (apply_outputs / Sleep deadlines) not built yet")
