"""Xrtc - extra check beyond the listed properties (growth of the specification, DESIGN 6 / 8.6).

Rtc.tla: the per-peer Route Target Constraint machine of daemon/src/rtc.rs composed with the driver's EOR timer; invariants
TimerIffAwaiting, HeldBackNotExported, SuspendedOnlyWhileAwaiting, ActiveOnlyWithSession, action property ExportOnce - all
checked on the complete (finite) graph.  Every transition is replayed on the real RtcState (state, outputs, the families an
Export names, and the agreement of is_awaiting_eor / is_active with the state); the RT-filter table (RtcFilter::from_paths /
allows incl. the stale-aware GR rule) is enumerated by TLC and compared case by case."""
import json
import os

import vf

LEVEL = "model_checking"
SPEC = os.path.join(vf.ROOT, "spec", "Rtc")


def line(op):
    if op["k"] == "established":
        return "established " + (",".join(sorted(op["fams"])) or "-")
    return op["k"]


def main(c):
    r = vf.tlc(SPEC, "Rtc", os.path.join(SPEC, "q.cfg"), workers=2, timeout=300)
    c.add_tlc("design", r)
    if r.violated:
        c.violation("design", {"invariant": r.violated, "tlc": r.error_text[:3000]}, {"spec": "Rtc"})
        return
    g = vf.tlc(SPEC, "RtcMC", os.path.join(SPEC, "gen.cfg"), workers=1, timeout=300, want_edges=True, quiet=True)
    edges = [e for e in g.edges if "op" in e]
    filt = [e for e in g.edges if "filter" in e]
    init = vf.canon({"st": "Inactive", "suspended": [], "timer": False, "sess": "down", "exported": []})
    seqs, covered, total = vf.cover_sequences(edges, init_key=init, max_len=40, seed=c.seed)
    inp = os.path.join(vf.WORK, "Xrtc.in")
    outp = os.path.join(vf.WORK, "Xrtc.out")
    exp = []
    with open(inp, "w") as f:
        for sq in seqs:
            f.write("new\n")
            exp.append(None)
            for ei in sq:
                f.write(line(edges[ei]["op"]) + "\n")
                exp.append(edges[ei])
        for e in filt:
            paths = ",".join(("s" if p["stale"] else "f") + ":" + p["m"] for p in e["filter"]["paths"]) or "-"
            f.write(f"filter {paths} {','.join(e['filter']['rts']) or '-'}\n")
            exp.append(e)
    rc, out = vf.daemon_test("rtc::verif_harness::rtc_replay", env={"VERIF_IN": inp, "VERIF_OUT": outp}, timeout=600)
    if rc != 0 or not os.path.exists(outp):
        raise vf.ToolError(f"rtc_replay failed rc={rc}: {out[-2000:]}")
    got = vf.read_jsonl(outp)
    if len(got) != len(exp):
        raise vf.ToolError(f"rtc_replay: {len(got)} results for {len(exp)} lines")
    hist = []
    seen = set()
    for e, g_ in zip(exp, got):
        if e is None:
            hist = []
            continue
        if "filter" in e:
            if g_["allows"] != e["allows"]:
                sig = ("filter", json.dumps(e["filter"], sort_keys=True)[:80])
                if sig not in seen and len(seen) < 8:
                    seen.add(sig)
                    c.violation("rtc.filter", {"case": e["filter"], "expected": e["allows"], "actual": g_["allows"]}, {"spec": "Rtc", "filter": e["filter"]})
            continue
        hist.append(line(e["op"]))
        bad = None
        if g_["st"] != e["post"]["st"]:
            bad = ("state", f"model {e['post']['st']}, implementation {g_['st']}")
        elif sorted(g_["suspended"]) != sorted(e["post"]["suspended"]):
            bad = ("suspended", f"model {e['post']['suspended']}, implementation {g_['suspended']}")
        elif list(g_["out"]) != list(e["obs"]):
            bad = ("outputs", f"model {e['obs']}, implementation {g_['out']}")
        elif sorted(g_["arg"]) != sorted(e["arg"]):
            bad = ("export_arg", f"model {e['arg']}, implementation {g_['arg']}")
        elif not g_["queries_agree"]:
            bad = ("queries", "is_awaiting_eor / is_active disagree with the state")
        if bad:
            sig = (bad[0], e["op"]["k"])
            if sig not in seen:
                seen.add(sig)
                c.violation("rtc." + bad[0], {"what": bad[1], "op": e["op"], "history": hist[-10:]}, {"spec": "Rtc", "ops": list(hist)})
    c.cov["traces_validated_against_impl"] = len(seqs)
    c.cov["evaluations"] = len(exp)
    c.cov["distinct_nontrivial"] = covered + len(filt)
    c.cov["exhaustive"] = True
    c.cov["rule"] = "every transition of Rtc.tla (2 VPN families + IPv4 + RTC) and every filter case with at most 3 RTC paths"
    c.sample([line(edges[ei]["op"]) for ei in seqs[0][:20]] if seqs else "none")
