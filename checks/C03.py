"""C03 - No byte sequence from the network can panic, wedge or stall a wire decoder.

Framing.tla is the contract of a stream decoder under arbitrary fragmentation (a message is delivered exactly when its last
byte has arrived; an impossible length is an error as soon as the header is there; what is delivered does not depend on how
the stream was cut).  TLC checks the contract on the abstract decoder for every frame-class sequence (<= 3 frames) and every
fragmentation, and emits every transition; each is replayed with concrete bytes on PeerCodec::try_parse (4096 and 65535
maximum) and RtrCodec::decode.  The same per-call contract (Some => consumed the declared frame; None => buffer untouched and
no complete frame buffered; never panic) is then checked on a structured corruption sweep of real messages of every family
under every codec variant (byte and length-field mutations, truncations, and structure-aware cuts of each attribute with all enclosing lengths made consistent again), fed whole and byte by byte, in the debug and (thorough) the release arithmetic profile."""
import json
import os

import vf

LEVEL = "exploration"
SPEC = os.path.join(vf.ROOT, "spec", "Framing")


def main(c):
    thorough = c.tier == "thorough"
    profiles = ("dev", "release") if thorough else ("dev",)
    total = 0
    for proto, cfgname in (("bgp", "bgp.cfg"), ("rtr", "rtr.cfg")):
        r = vf.tlc(SPEC, "FramingMC", os.path.join(SPEC, cfgname), workers=4, timeout=900)
        c.add_tlc("framing-" + proto, r)
        if r.violated:
            c.violation("design", {"invariant": r.violated, "tlc": r.error_text[:3000]}, {"spec": "Framing", "cfg": cfgname})
            return
        edges = [json.loads(ln) for ln in r.stdout.splitlines() if ln.startswith('"{')]
        inp = os.path.join(vf.WORK, f"C03.{proto}.in")
        with open(inp, "w") as f:
            for e in sorted(edges):
                f.write(e + "\n")
        total += len(edges)
        c.sample(json.loads(edges[len(edges) // 2]))
        for prof in profiles:
            for variant in (("bgp", "bgpx") if proto == "bgp" else ("rtr",)):
                outp = os.path.join(vf.WORK, f"C03.{variant}.{prof}.out")
                rc, so, se = vf.lib_run("frame_replay", ["stream", variant, inp, outp], timeout=1200, profile=prof)
                if rc != 0:
                    raise vf.ToolError(f"frame_replay stream {variant} failed rc={rc}: {se[-2000:]}")
                seen = set()
                for j in vf.read_jsonl(outp):
                    if "summary" in j:
                        c.cov["parts"][f"stream-{variant}-{prof}"] = j["summary"]
                        continue
                    if j.get("kind") == "wedge":
                        c.violation("c03.wedge", dict(j, profile=prof), {"bytes_hex": j["hex"], "decoder": variant})
                        continue
                    sig = j["what"].split(" [")[0][:40]
                    if sig in seen:
                        continue
                    seen.add(sig)
                    c.violation("c03.stream", dict({k: j[k] for k in j if k != "i"}, profile=prof), {"spec": "Framing", "edge": j})
    budget = 3000 if thorough else 150      # 1000 = about 2.4 M decoder runs, 3 min in the dev profile
    for prof in profiles:
        outp = os.path.join(vf.WORK, f"C03.sweep.{prof}.out")
        rc, so, se = vf.lib_run("frame_replay", ["sweep", str(c.seed + 1), str(budget), outp], timeout=3000, profile=prof)
        if rc != 0:
            raise vf.ToolError(f"frame_replay sweep failed rc={rc}: {se[-2000:]}")
        for j in vf.read_jsonl(outp):
            if "summary" in j:
                c.cov["parts"][f"sweep-{prof}"] = j["summary"]
                c.cov["evaluations"] = c.cov.get("evaluations", 0) + j["summary"].get("decoder_runs", 0)
                continue
            c.violation("c03." + j["kind"], dict(j, profile=prof), {"bytes_hex": j["hex"], "codec": j["proto"], "profile": prof})
    c.cov["distinct_nontrivial"] = total
    c.cov["exhaustive"] = False
    c.cov["rule"] = ("stream part: every transition (frame-class sequence of <= 3 frames x units already arrived x units arriving) of "
                     "Framing.tla for BGP (4096 / 65535 maximum) and RTR - exhaustive for the model; sweep part: every single-byte "
                     "substitution by 7 boundary values, every 16-bit substitution by 6 values, every truncation and a seeded sample of "
                     "two-site substitutions of an announcement and a withdrawal of each of the 19 families under 8 codec variants, of "
                     "OPEN / NOTIFICATION / ROUTE-REFRESH / KEEPALIVE, of 10 RTR PDU kinds and of a BFD control packet (down-sampled to "
                     "the budget in the quick tier); distinct = model transitions")
    c.assumptions += ["arbitrary unstructured byte strings are not enumerated: inputs are model frames and one- or two-site corruptions of "
                      "valid messages", "the daemon's rxbuf loop is represented by the same append-then-decode-until-need-more driver"]
