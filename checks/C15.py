"""C15 - Route counters and prefix limits always match the RIB's real contents."""
import drvlib
import ribcheck
from ribcheck import Cfg, NO_DEFER, NO_LLGR, ALL_OPS

LEVEL = "model_checking"
INV = ["CountersOK", "TotalsOK", "IdsOK", "KeysOK"]


def main(c):
    thorough = c.tier == "thorough"
    lim = {"a1": 1, "a2": 1, "b1": 1}
    design = [Cfg("k1", ["p1", "p2"], ["a1", "a2", "b1"], {"A": [0, 1], "B": [0]}, ["c1", "cN"], ["n1"], filt=(False, True),
                  limits=lim, ops=[o for o in NO_DEFER if o != "nhflip"])]
    edge = [Cfg("ke", ["p1", "p2"], ["a1", "a2"], {"A": [0]}, ["c1"], ["n1"], filt=(False, True), limits={"a1": 1, "a2": 1},
                ops=["insert", "remove", "drop", "markstale", "dropstale"])]
    walks = [
        Cfg("w1", ["p1", "p2"], ["a1", "a2", "b1"], {"A": [0, 1], "B": [0]}, ["c1", "c3", "cN", "cL"], ["n1", "n2"],
            filt=(False, True), limits={"a1": 2, "a2": 2, "b1": 1}),
        Cfg("w2", ["p1", "p2"], ["a1", "a2", "b1", "c1"], {"A": [0, 1], "B": [0], "C": [0, 1]}, ["c1", "cN"], ["n1"],
            filt=(False, True), limits={"a1": 0, "a2": 1, "c1": 2}),
        # focused behaviours (few operation kinds, so that long chains of the same mechanism are likely): a peer that restarts
        # and re-announces - partly, under other path ids, with routes that carry LLGR_STALE themselves - before the purge
        Cfg("w3", ["p1", "p2"], ["a1", "a2", "b1"], {"A": [0, 1], "B": [0]}, ["c1", "cL", "cN"], ["n1"], filt=(False, True),
            ops=["insert", "remove", "markllgr", "dropllgr"]),
        Cfg("w4", ["p1", "p2"], ["a1", "a2", "b1"], {"A": [0, 1], "B": [0]}, ["c1", "c3"], ["n1", "n2"], filt=(False, True),
            limits={"a1": 1, "a2": 2}, ops=["insert", "remove", "markstale", "dropstale", "nhflip"]),
    ]
    if thorough:
        design += [
            Cfg("k2", ["p1", "p2"], ["a1", "a2", "b1"], {"A": [0, 1], "B": [0]}, ["c1", "cN"], ["n1"], filt=(False, True),
                limits={"a1": 2, "a2": 1, "b1": 0}),
            Cfg("k3", ["p1", "p2"], ["a1", "a2", "b1"], {"A": [0], "B": [0]}, ["c1", "cL"], ["n1", "n2"], filt=(False, True),
                limits={"a1": 1, "a2": 2}),
        ]
    ribcheck.run(c, "C15", ("c15.", "state.stats"), design, walks, INV, nwalks=4000 if thorough else 600, depth=50,
                 edge_cfgs=edge)
    if not c.violations:
        drvlib.session_limits(c)
    c.assumptions += [
        "recount convention (fixed by the repository's own test addpath_peer_stats_counts_prefixes_not_paths): received = prefixes "
        "with at least one path from the peer, accepted = unfiltered paths from the peer; the prefix-limit counter is per "
        "session: prefixes for which that session holds a path",
        "stale / LLGR marking of a peer ends that peer's current session (its limit counter dies with it), as in the daemon",
    ]
