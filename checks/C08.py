"""C08 - Hold and keepalive timing follows the negotiated value, and zero disables it.

1. design check: TLC exhausts HoldTimer.tla (PeerFsm x driver timers x virtual time, timers stored
   as remaining seconds so the space is finite) for scaled hold-time pairs;
2. spec -> impl (FSM): every transition of PeerFsm for the real hold-time pairs
   {0,3,small,large,65535}^2 replayed on the real PeerFsm - the timer outputs are part of `obs`;
3. spec -> impl (driver): every transition replayed through the real ConnArbiter + PeerSession::apply_outputs
   and the real tokio `Sleep` deadlines compared with ArmHold/ArmKa of the model (event.rs harness)."""
import json
import os

import fsmlib
import vf

LEVEL = "model_checking"
TINVS = ["TypeOK", "Negotiated", "HoldDeadlineFollowsReceipt", "ZeroDisables", "KeepaliveScheduled",
         "OpenSentTimer", "ExpiryExact", "NoOrphanTimers", "AtMostOneUp"]


def timed_configs(tier):
    def k(local, rh, init):
        d = fsmlib.consts(2, [1, 3], local, rh)
        d["InitialHold"] = init
        return d
    cs = [("L9", k(9, [0, 3, 4, 9], 12)), ("L0", k(0, [0, 3, 9], 12)), ("L3", k(3, [0, 3, 9], 12))]
    if tier == "thorough":
        cs += [("L12", k(12, [0, 3, 6, 12, 15], 16)), ("L4", k(4, [0, 3, 4, 5, 9], 12))]
    return cs


def real_configs(tier):
    cs = []
    remote = [0, 3, 30, 65535]
    locals_ = [0, 3, 90, 65535] if tier == "thorough" else [0, 90]
    if tier == "thorough":
        remote = [0, 3, 4, 30, 180, 65535]
    for lh in locals_:
        cs.append((f"real-L{lh}", fsmlib.consts(2, [1, 3], lh, remote)))
    return cs


def main(c):
    for name, k in timed_configs(c.tier):
        cfg = fsmlib.write_cfg(f"C08.{name}.cfg", k, "TSpec", invariants=TINVS)
        r = vf.tlc(fsmlib.SPEC, "HoldTimer", cfg, workers=8, timeout=900)
        c.add_tlc("timed-" + name, r)
        if r.violated:
            c.violation("design", {"invariant": r.violated, "config": k, "tlc": r.error_text[:4000]},
                        {"spec": "HoldTimer", "constants": k, "counterexample": r.error_text})
    if c.violations:
        return
    runs = []
    for name, k in real_configs(c.tier):
        edges = fsmlib.gen_edges(c, f"C08.{name}", k)
        init = None
        for e in edges:
            if all(cn["st"] == "None" for cn in e["pre"].values()):
                init = vf.canon(e["pre"])
                break
        seqs, covered, total = vf.cover_sequences(edges, init_key=init, max_len=60)
        if covered != total:
            raise vf.ToolError(f"edge cover incomplete {covered}/{total}")
        runs.append((name, k, edges, seqs))
        c.cov["parts"][name] = {"model_transitions": total, "replay_sequences": len(seqs)}
        c.sample({"config": name, "ops": [fsmlib.op_line(edges[i]["op"]) for i in seqs[0][:10]]})
    n, distinct = fsmlib.replay(c, "C08", runs, monitor=False)
    c.cov["evaluations"] = n
    c.cov["distinct_nontrivial"] = sum(1 for _, _, edges, _ in runs for e in edges
                                       if any(o["t"] in ("sethold", "setka") for o in e["obs"]))
    c.cov["traces_validated_against_impl"] = sum(len(s) for _, _, _, s in runs)
    c.cov["exhaustive"] = True
    c.cov["rule"] = ("every transition of PeerFsm for each (local hold, remote hold set) replayed on the real PeerFsm; "
                     "non-trivial = the step arms, re-arms or disarms a timer")
    c.assumptions += [
        "tokio::time::Sleep fires at its deadline (the driver's select loop feeds the timer input then)",
        "virtual time in HoldTimer.tla is scaled (InitialHold 12-16 instead of 240); the arithmetic is unit-free",
    ]
    import drvlib
    drvlib.driver_binding(c, runs)
