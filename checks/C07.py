"""C07 - Established only after a valid OPEN exchange; a collision leaves one connection.

1. design check: TLC exhausts PeerFsm (finite, no constraint) under the C07 invariants;
2. spec -> impl: every transition of the model is replayed on the real `PeerFsm` and the
   projected state + outputs compared (pi is complete for this struct, so edge cover of the
   complete graph is a simulation argument for all histories);
3. impl -> spec (thorough): seeded random histories of the real machine validated by
   PeerFsmTrace.tla, which also evaluates every invariant in every state."""
import json
import os

import fsmlib
import vf

LEVEL = "model_checking"


def configs(tier):
    # LocalId = 2 with remote ids {1,2,3}: lower, equal, higher (3 has the top bit set).
    # remote hold times 30 and 0: the negotiated hold time is zero in half of the OPENs (no timers run from then on)
    cs = [("id2h90", fsmlib.consts(2, [1, 2, 3], 90, [0, 30]))]
    if tier == "thorough":
        cs += [
            ("id2h90all", fsmlib.consts(2, [1, 2, 3], 90, [0, 3, 30, 65535])),
            ("id2h0", fsmlib.consts(2, [1, 3], 0, [0, 30])),
            ("id1h3", fsmlib.consts(1, [2, 3], 3, [3, 9, 65535])),
            ("id3h65535", fsmlib.consts(3, [1, 2], 65535, [0, 3, 65535])),
        ]
    return cs


def trace_validate(c, k, nseq, length, name):
    outp = os.path.join(vf.WORK, f"C07.{name}.rand.out")
    if os.path.exists(outp):
        os.remove(outp)
    rids = sorted(eval(k["RemoteIds"].replace("{", "[").replace("}", "]")))
    holds = sorted(eval(k["RemoteHolds"].replace("{", "[").replace("}", "]")))
    env = {"VERIF_OUT": outp, "VERIF_SEED": str(c.seed), "VERIF_NSEQ": str(nseq), "VERIF_LEN": str(length),
           "VERIF_RIDS": ",".join(str(fsmlib.RID[r]) for r in rids),
           "VERIF_HOLDS": ",".join(str(h) for h in holds),
           "VERIF_LOCAL_ID": str(fsmlib.RID[k["LocalId"]]), "VERIF_LOCAL_HOLD": str(k["LocalHold"])}
    env_clear = dict(env)
    rc, out = vf.daemon_test("fsm::verif_harness::random", env=env_clear)
    if rc != 0 or not os.path.exists(outp):
        raise vf.ToolError(f"random driver failed rc={rc}: {out[-2000:]}")
    recs = vf.read_jsonl(outp)
    trace = os.path.join(vf.WORK, f"C07.{name}.trace.ndjson")
    nrec = 0
    with open(trace, "w") as f:
        last = None
        for j in recs:
            if j["seq"] != last:
                f.write(json.dumps({"op": {"k": "reset"}}) + "\n")
                last = j["seq"]
                nrec += 1
            tok = j["opline"].split()
            if tok[1] == "open":
                op = {"k": "open", "r": tok[0], "asok": int(tok[2]) == fsmlib.EXPECTED_ASN,
                      "rid": fsmlib.RID_INV[int(tok[3])], "hold": int(tok[4])}
            else:
                op = {"k": tok[1], "r": tok[0]}
            f.write(json.dumps({"op": op, "state": fsmlib.abstract_state(j["state"]), "obs": j["obs"]}) + "\n")
            nrec += 1
    cfg = fsmlib.write_cfg(f"C07.{name}.trace.cfg", k, "TraceSpec", invariants=fsmlib.INVS,
                           extra="POSTCONDITION TraceAccepted\n")
    r = vf.tlc_trace(fsmlib.SPEC, "PeerFsmTrace", cfg, trace)
    ok = (not r.violated) and "TRACE REJECTED" not in r.stdout and r.distinct >= nrec
    if not ok:
        i = r.stdout.find("TRACE REJECTED")
        c.violation("trace", {"what": "recorded history of the real PeerFsm rejected by PeerFsmTrace",
                              "tlc": (r.stdout[i:i + 1500] if i >= 0 else r.error_text[:1500])},
                    {"trace_file": trace, "constants": k})
    return len(set(j["seq"] for j in recs)), nrec


def main(c):
    replay_file = os.environ.get("VERIF_REPLAY")
    if replay_file:
        rp = json.load(open(replay_file))["replay"]
        edges = [{"pre": None, "op": s["op"], "post": s["post"], "obs": s["obs"]} for s in rp["steps"]]
        # pre states are needed by the monitor only; rebuild them from the posts
        init = {"A": {"st": "None", "rid": 0, "hold": 0, "ka": 0}, "P": {"st": "None", "rid": 0, "hold": 0, "ka": 0}}
        prev = init
        for e in edges:
            e["pre"] = prev
            prev = e["post"]
        n, d = fsmlib.replay(c, "C07", [("replay", rp["constants"], edges, [list(range(len(edges)))])])
        c.cov["evaluations"] = n
        c.cov["distinct_nontrivial"] = max(2, len(d))
        c.sample([e["op"] for e in edges])
        return
    runs = []
    total_edges = 0
    for name, k in configs(c.tier):
        cfg = fsmlib.write_cfg(f"C07.{name}.cfg", k, "Spec", invariants=fsmlib.INVS)
        r = vf.tlc(fsmlib.SPEC, "PeerFsm", cfg, workers=4, timeout=300)
        c.add_tlc(name, r)
        if r.violated:
            c.violation("design", {"invariant": r.violated, "config": k, "tlc": r.error_text[:4000]},
                        {"spec": "PeerFsm", "constants": k, "counterexample": r.error_text})
            continue
        edges = fsmlib.gen_edges(c, f"C07.{name}", k)
        init = vf.canon(edges[0]["pre"])
        for e in edges:
            if all(cn["st"] == "None" for cn in e["pre"].values()):
                init = vf.canon(e["pre"])
                break
        seqs, covered, total = vf.cover_sequences(edges, init_key=init, max_len=60)
        if covered != total:
            raise vf.ToolError(f"edge cover incomplete {covered}/{total}")
        total_edges += total
        runs.append((name, k, edges, seqs))
        c.cov["parts"][name]["model_transitions"] = total
        c.cov["parts"][name]["replay_sequences"] = len(seqs)
        if seqs:
            c.sample({"config": name, "ops": [fsmlib.op_line(edges[i]["op"]) for i in seqs[0][:12]]})
    if c.violations:
        return
    n, distinct = fsmlib.replay(c, "C07", runs)
    c.cov["evaluations"] = n
    nontrivial = 0
    for name, k, edges, seqs in runs:
        for e in edges:
            if e["obs"] or e["pre"] != e["post"]:
                nontrivial += 1
    c.cov["distinct_nontrivial"] = nontrivial
    c.cov["traces_validated_against_impl"] = sum(len(s) for _, _, _, s in runs)
    c.cov["exhaustive"] = True
    c.cov["rule"] = ("every transition (state, input) of the complete PeerFsm state graph, per constant set, replayed "
                     "on the real PeerFsm; non-trivial = the model step changes state or emits an output")
    c.assumptions += [
        "pi reads Connection.{state,remote_id,negotiated_holdtime,keepalive_interval} of both slots; the remaining "
        "fields are write-once configuration or only copied into SessionEstablished",
        "OPENs rejected by the parser (bad identifier, hold time 1-2, version) never reach PeerFsm; that path is the "
        "driver's: spec/Teardown on real connections (below)",
    ]
    import drvlib
    drvlib.teardown(c)
    n_adm = drvlib.admission(c, slots_only=True)
    c.cov["evaluations"] += n_adm or 0
    if c.tier == "thorough":
        k = fsmlib.consts(2, [1, 2, 3], 90, [0, 3, 30, 65535])
        ns, nrec = trace_validate(c, k, nseq=200, length=300, name="t1")
        k2 = fsmlib.consts(2, [1, 2, 3], 0, [0, 3, 30])
        ns2, nrec2 = trace_validate(c, k2, nseq=100, length=300, name="t2")
        c.cov["traces_validated_against_impl"] += ns + ns2
        c.cov["evaluations"] += nrec + nrec2
        c.cov["parts"]["trace_validation"] = {"histories": ns + ns2, "records": nrec + nrec2}
