"""C16 - Only configured or dynamically permitted neighbours get a session, set up right.

Negotiation half: Negotiate.tla (function-style) enumerates pairs of capability lists, one feature group at a time, with the
record each end must derive (and checks that the table itself is mirror-symmetric); every pair is run on the real PeerFsm
(SessionNegotiated codec, effective send-max) and the real PeerSession::negotiate_gr / negotiate_llgr from BOTH ends.
Admission half: Admission.tla (state machine of connect / session end / enable / disable / delete / add with dynamic-neighbour
prefixes) whose behaviours are replayed on the real Global + accept_connection + PeerSession::run over loopback sockets."""
import json
import os

import vf

LEVEL = "exploration"


def negotiation(c):
    spec = os.path.join(vf.ROOT, "spec", "Negotiate")
    r = vf.tlc(spec, "NegotiateMC", os.path.join(spec, "emit.cfg"), workers=4, timeout=900)
    c.add_tlc("negotiate-cases", r)
    if r.violated:
        c.violation("negotiate.design", {"invariant": r.violated, "tlc": r.error_text[:3000]}, {"spec": "Negotiate"})
        return
    cases = [json.loads(json.loads(ln)) for ln in r.stdout.splitlines() if ln.startswith('"{')]
    cases.sort(key=vf.canon)
    lst = lambda v: ",".join(v) if v else "-"
    ap = lambda v: ";".join(f"{e[0]}:{e[1]}" for e in v) if v else "-"
    b = lambda x: "1" if x else "0"
    inp = os.path.join(vf.WORK, "C16.neg.in")
    outp = os.path.join(vf.WORK, "C16.neg.out")
    with open(inp, "w") as f:
        for j in cases:
            l, rr = j["l"], j["r"]
            if j["kind"] == "fam":
                f.write(f"fam {lst(l['mp'])} {ap(l['ap'])} {lst(l['enh'])} {lst(rr['mp'])} {ap(rr['ap'])} {lst(rr['enh'])} {l['ord']} {rr['ord']}\n")
            elif j["kind"] == "scal":
                f.write(f"scal {b(l['as4'])} {b(l['extmsg'])} {b(rr['as4'])} {b(rr['extmsg'])}\n")
            elif j["kind"] == "gr":
                f.write(f"gr {b(l['on'])} {b(l['n'])} {l['time']} {lst(l['fams'])} {b(rr['on'])} {b(rr['n'])} {rr['time']} {lst(rr['fams'])}\n")
            else:
                f.write(f"llgr {b(l['on'])} {l['t']['ipv4']} {l['t']['ipv4vpn']} {b(rr['on'])} {rr['t']['ipv4']} {rr['t']['ipv4vpn']}\n")
    c.sample(cases[len(cases) // 3])
    vf.daemon_test("negotiate_replay", {"VERIF_IN": inp, "VERIF_OUT": outp})
    got = vf.read_jsonl(outp)
    if len(got) != len(cases):
        raise vf.ToolError(f"negotiate_replay: {len(got)} results for {len(cases)} cases")
    seen = set()
    counts = {}

    def report(kind, case, detail):
        sig = (kind, detail.get("what"))
        if sig in seen:
            return
        seen.add(sig)
        c.violation("negotiate." + kind, dict(detail, l=case["l"], r=case["r"]), {"spec": "Negotiate", "case": case})

    yes = lambda v, actual: v == "open" or (v == "yes") == actual
    for case, g in zip(cases, got):
        k = case["kind"]
        counts[k] = counts.get(k, 0) + 1
        if k == "fam":
            if g["l"].get("noneg") or g["r"].get("noneg"):
                # the FSM refused the OPEN: acceptable only when no family is common
                if any(case["el"][f]["on"] for f in case["el"]):
                    report("refused", case, {"what": "session refused although a family is common", "got": g})
                continue
            for side, other, exp in (("l", "r", case["el"]), ("r", "l", case["er"])):
                for f in ("ipv4", "ipv4vpn"):
                    a, e = g[side][f], exp[f]
                    if a["on"] != e["on"]:
                        report("family", case, {"what": f"{f} in force={a['on']} expected {e['on']}", "side": side})
                    if not e["on"]:
                        continue
                    if not yes(e["tx"], a["tx"]) or not yes(e["rx"], a["rx"]):
                        report("addpath", case, {"what": f"add-path tx/rx={a['tx']}/{a['rx']} expected {e['tx']}/{e['rx']}", "side": side, "fam": f})
                    o = g[other][f]
                    oe = (case["er"] if side == "l" else case["el"])[f]
                    undecided = "open" in (e["tx"], e["rx"], oe.get("tx"), oe.get("rx"))
                    # (an end whose OWN list holds an undefined value is not a configuration that exists: no mirror is asked of it)
                    if not undecided and (a["tx"] != o["rx"] or a["rx"] != o["tx"]):
                        report("mirror", case, {"what": "one end sends path ids the other does not expect", "side": side, "fam": f, "got": g})
                    if a["eff"] != a["tx"]:
                        report("sendmax", case, {"what": f"FSM effective send-max has the family={a['eff']} but the codec sends path ids={a['tx']}", "side": side, "fam": f})
                if exp["ipv4"]["on"] and (exp["ipv4"]["enh"] == "yes") != g[side]["via_mp"]:
                    report("enh", case, {"what": f"IPv4 unicast via MP_REACH={g[side]['via_mp']} but extended next hop in force={exp['ipv4']['enh']}", "side": side})
        elif k == "scal":
            for side, exp in (("l", case["el"]), ("r", case["er"])):
                if g[side].get("noneg"):
                    report("refused", case, {"what": "session refused", "side": side})
                elif g[side]["as4"] != exp["as4"] or g[side]["extmsg"] != exp["extmsg"]:
                    report("scalar", case, {"what": f"as4/extmsg={g[side]['as4']}/{g[side]['extmsg']} expected {exp['as4']}/{exp['extmsg']}", "side": side})
        elif k == "gr":
            for side, exp, me in (("l", case["el"], case["l"]), ("r", case["er"], case["r"])):
                if me["on"] and not me["fams"]:
                    continue          # the daemon never advertises an empty GR family list (non-empty by construction)
                a = g[side]
                a["fams"] = sorted(a["fams"])
                e = dict(exp, fams=sorted(exp["fams"]))
                if a != e:
                    report("gr", case, {"what": f"GR {a} expected {e}", "side": side})
        else:
            for side, exp, me in (("l", case["el"], case["l"]), ("r", case["er"], case["r"])):
                if me["on"] and any(v == 0 for v in me["t"].values()):
                    continue          # local stale time 0 is filtered out by the configuration parser
                if me["on"] and all(v == 99999 for v in me["t"].values()):
                    continue
                for f in ("ipv4", "ipv4vpn"):
                    if g[side][f] != exp[f]:
                        report("llgr", case, {"what": f"LLGR {f} stale time {g[side][f]} expected {exp[f]}", "side": side})
    c.cov["parts"]["negotiate-replay"] = counts
    return len(cases)


def params(c):
    spec = os.path.join(vf.ROOT, "spec", "Admission")
    r = vf.tlc(spec, "ParamsMC", os.path.join(spec, "params.cfg"), workers=2, timeout=600)
    c.add_tlc("params-cases", r)
    if r.violated:
        c.violation("params.design", {"invariant": r.violated, "tlc": r.error_text[:3000]}, {"spec": "Params"})
        return 0
    cases = [json.loads(json.loads(ln)) for ln in r.stdout.splitlines() if ln.startswith('"{')]
    cases.sort(key=vf.canon)
    inp = os.path.join(vf.WORK, "C16.par.in")
    outp = os.path.join(vf.WORK, "C16.par.out")
    b = lambda x: "1" if x else "0"
    with open(inp, "w") as f:
        for j in cases:
            x = j["case"]
            f.write(f"par {x['kind']} {j['remote']} {b(x['rs'])} {b(x['rr'])} {b(x['cluster'])} {b(x['confed'])} {x['hold']}\n")
    vf.daemon_test("params_replay", {"VERIF_IN": inp, "VERIF_OUT": outp})
    got = vf.read_jsonl(outp)
    if len(got) != len(cases):
        raise vf.ToolError(f"params_replay: {len(got)} results for {len(cases)} cases")
    seen = set()
    for j, g in zip(cases, got):
        e = j["exp"]
        diffs = []
        if not g.get("accepted"):
            diffs.append(("accepted", True, False))
        else:
            for k in ("role", "hold", "cluster", "limit", "confedId"):
                if g[k] != e[k]:
                    diffs.append((k, e[k], g[k]))
            for k in ("openAs", "capAs", "ctxAs"):
                if g[k] != e["openAs"]:
                    diffs.append((k, e["openAs"], g[k]))
        for k, ev, gv in diffs:
            if k in seen:
                continue
            seen.add(k)
            c.violation("params." + k, {"case": j["case"], "field": k, "expected": ev, "actual": gv, "got": g}, {"spec": "Params", "case": j})
    c.cov["parts"]["params-replay"] = {"cases": len(cases)}
    return len(cases)


def inheritance(c):
    """Inherit.tla: a static neighbour in a peer group - where every effective parameter (and the capabilities of the OPEN)
    comes from, for every combination of fields set by the neighbour and by the group."""
    spec = os.path.join(vf.ROOT, "spec", "Admission")
    r = vf.tlc(spec, "InheritMC", os.path.join(spec, "inherit.cfg"), workers=2, timeout=600)
    c.add_tlc("inherit-cases", r)
    if r.violated:
        c.violation("inherit.design", {"invariant": r.violated, "tlc": r.error_text[:3000]}, {"spec": "Inherit"})
        return 0
    cases = [json.loads(json.loads(ln)) for ln in r.stdout.splitlines() if ln.startswith('"{')]
    cases.sort(key=vf.canon)
    inp = os.path.join(vf.WORK, "C16.inh.in")
    outp = os.path.join(vf.WORK, "C16.inh.out")
    with open(inp, "w") as f:
        for j in cases:
            x = j["case"]
            f.write(f"inh {','.join(sorted(x['own'])) or '-'} {','.join(sorted(x['grp'])) or '-'}\n")
    vf.daemon_test("inherit_replay", {"VERIF_IN": inp, "VERIF_OUT": outp})
    got = vf.read_jsonl(outp)
    if len(got) != len(cases):
        raise vf.ToolError(f"inherit_replay: {len(got)} results for {len(cases)} cases")
    seen = set()
    for j, g in zip(cases, got):
        for k, ev in j["exp"].items():
            if g[k] != ev and k not in seen:
                seen.add(k)
                c.violation("inherit." + k, {"case": j["case"], "field": k, "expected": ev, "actual": g[k], "got": g}, {"spec": "Inherit", "case": j})
    c.cov["parts"]["inherit-replay"] = {"cases": len(cases)}
    return len(cases)


def containment(c):
    spec = os.path.join(vf.ROOT, "spec", "Admission")
    r = vf.tlc(spec, "ContainsMC", os.path.join(spec, "contains.cfg"), workers=2, timeout=600)
    c.add_tlc("contains-cases", r)
    if r.violated:
        c.violation("contains.design", {"invariant": r.violated, "tlc": r.error_text[:3000]}, {"spec": "Contains"})
        return 0
    cases = [json.loads(ln) for ln in r.stdout.splitlines() if ln.startswith('"{')]
    inp = os.path.join(vf.WORK, "C16.contains.in")
    outp = os.path.join(vf.WORK, "C16.contains.out")
    with open(inp, "w") as f:
        for s_ in sorted(cases):
            f.write(s_ + "\n")
    rc, so, se = vf.lib_run("contains_replay", [inp, outp], timeout=600)
    if rc != 0:
        raise vf.ToolError(f"contains_replay failed rc={rc}: {se[-2000:]}")
    seen = set()
    for j in vf.read_jsonl(outp):
        if "summary" in j:
            c.cov["parts"]["contains-replay"] = j["summary"]
            continue
        sig = (j["v6"], j["expected"])
        if sig in seen:
            continue
        seen.add(sig)
        c.violation("contains", {k: j[k] for k in j if k != "i"}, {"spec": "Contains", "case": j})
    return len(cases)


def main(c):
    n = (negotiation(c) or 0) + params(c) + inheritance(c) + containment(c)
    import drvlib
    m = drvlib.admission(c)
    c.cov["distinct_nontrivial"] = (n or 0) + (m or 0)
    c.cov["evaluations"] = max(c.cov.get("evaluations", 0), (n or 0) + (m or 0))      # table cases run + admission steps replayed
    if not c.violations:
        drvlib.admission_window(c)
    c.cov["rule"] = ("negotiation: 25,600 pairs of (MP families, ADD-PATH entry lists incl. duplicates / invalid modes / entries for "
                     "families without MP, extended-next-hop lists), 16 pairs of (4-octet AS, extended message), 289 GR pairs, 100 LLGR "
                     "pairs - each from both ends; admission: behaviours of Admission.tla (see parts)")
