"""C17 - What the gRPC API accepts is stored faithfully, shown back unchanged, and safe.

Value half: spec/ApiValue/ApiValue.tla enumerates the API input cases (attribute kind / NLRI kind x field classes: out-of-range
enums, over-long lists, malformed address strings, Unknown{type = a known code}, family mismatches ...), states which of them
must be accepted and what structural invariants (WellFormed, the ones the wire decoder establishes) an accepted value must
satisfy.  Every case is run on the real attr_from_api / net_from_api; the recorded conversions (outcome, projection of the
value, round trip through the API form, trip over the wire, use in selection / policy / encoding) are validated by TLC against
ApiValueTrace.tla (Acceptable / NlriAcceptable).  Round trip: every sample value, every value decoded from the wire and every
extended-community type octet goes to its API form and back.

Store half: spec/ApiStore/ApiStore.tla is the state machine of AddPath / DeletePath / ListPath over a table that also holds
peer-learned paths; TLC checks StoredWellFormed and ListedEqualsStored, and its behaviours are replayed on the real
GrpcService (add_path, delete_path, list_path) with a real TableManager."""
import json
import os

import vf

LEVEL = "exploration"
SPEC = os.path.join(vf.ROOT, "spec", "ApiValue")


def case_line(i, c):
    if "segs" in c:
        segs = ",".join(f"{s['t']}:{s['n']}" for s in c["segs"])
        return "\t".join(["A", str(i), c["k"], c["a"], c["b"], segs])
    return "\t".join(["N", str(i), c["k"], c["fam"], c["a"], c["b"]])


def sig(case, why):
    """one report per (input kind, clause of the specification that is broken)"""
    c = case
    if "segs" in c:
        detail = ""
        if c["k"] == "aspath":
            detail = "type" if any(not 1 <= s["t"] <= 4 for s in c["segs"]) else "count"
        elif c["k"] == "unknown":
            detail = "value-typed" if c["a"] in ("1", "4", "5", "9") else "binary"
        elif c["k"] == "origin":
            detail = "truncated" if c["a"] == "256" else ""
        return ("attr", c["k"], detail, why)
    detail = ""
    if c["k"] in ("prefix", "labeled", "vpn"):
        detail = "labels=" + c["b"] if why.startswith("accepted value breaks") and c["b"] in ("none", "big") else ""
    return ("nlri", c["k"], detail, why)


KNOWN = {"known-ls-schema": "ls-nlri-api-form-lossy", "known-ls-attr": "ls-attribute-api-form-lossy",
         "known-rtc-as0": "rtc-as0-api-form-ambiguous", "known-rtc-value": "rtc-value-not-a-route-target-api-form"}


def known_hit(c, rt):
    """A round trip that fails in exactly the way a listed known finding describes (the harness classifies it; anything
    else that differs is reported).  Returns True if it is to be tolerated."""
    ident = KNOWN.get(rt.split(":")[0])
    if not ident:
        return False
    f = c.known(ident)
    if not f:
        return False            # not (or no longer) listed: an ordinary violation
    c.report_known(ident, f["what_fails"])
    return True


def value_half(c):
    r = vf.tlc(SPEC, "ApiValueMC", os.path.join(SPEC, "q.cfg"), workers=4, timeout=600)
    c.add_tlc("cases", r)
    if r.violated:
        c.violation("design", {"invariant": r.violated, "tlc": r.error_text[:3000]}, {"spec": "ApiValue"})
        return
    cases = [json.loads(json.loads(ln)) for ln in r.stdout.splitlines() if ln.startswith('"{')]
    cases.sort(key=vf.canon)
    inp = os.path.join(vf.WORK, "C17.in")
    outp = os.path.join(vf.WORK, "C17.out")
    with open(inp, "w") as f:
        for i, j in enumerate(cases):
            f.write(case_line(i, j["case"]) + "\n")
    if os.path.exists(outp):
        os.remove(outp)
    rc, out = vf.daemon_test("convert::verif_harness::c17_cases", env={"VERIF_IN": inp, "VERIF_OUT": outp}, timeout=1500)
    if rc != 0 or not os.path.exists(outp):
        raise vf.ToolError(f"c17_cases failed rc={rc}: {out[-3000:]}")
    res = {j["i"]: j["res"] for j in vf.read_jsonl(outp)}
    if len(res) != len(cases):
        raise vf.ToolError(f"c17_cases answered {len(res)} of {len(cases)} cases")
    # validate the recorded conversions against the specification, one TLC run per batch; a rejected record is a
    # violation, it is removed and the rest is validated again so that every record gets examined
    recs = [{"case": cases[i]["case"], "res": {k: (v if k == "desc" else (v.split(":")[0] if k in ("rt", "wire", "use") else v))
                                                for k, v in res[i].items() if k != "note"}, "i": i} for i in range(len(cases))]
    for x in recs:
        x["res"]["use"] = x["res"]["use"].split(" ")[0]
        if x["res"]["rt"] in KNOWN and known_hit(c, x["res"]["rt"]):
            x["res"]["rt"] = "na"
    outcomes = {}
    for x in recs:
        outcomes[x["res"]["outcome"]] = outcomes.get(x["res"]["outcome"], 0) + 1
    seen = set()
    for group in (True, False):
        pending = [x for x in recs if ("segs" in x["case"]) == group]
        if not pending:
            continue
        tp = os.path.join(vf.WORK, "C17.trace.ndjson")
        with open(tp, "w") as f:
            for x in pending:
                f.write(json.dumps({"case": x["case"], "res": x["res"]}) + "\n")
        tr = vf.tlc_trace(SPEC, "ApiValueTrace", os.path.join(SPEC, "trace.cfg"), tp, timeout=900)
        c.cov["traces_validated_against_impl"] += 1
        if tr.violated or f"{len(pending) + 1} distinct states" not in tr.stdout:
            raise vf.ToolError("ApiValueTrace did not consume the whole trace:\n" + tr.stdout[-2000:])
        for n, why in vf.rejected(tr.stdout):
            bad = pending[n - 1]
            full = res[bad["i"]]
            s = sig(bad["case"], why)
            if s in seen:
                continue
            seen.add(s)
            c.violation("c17." + s[0], {"why": why, "case": bad["case"], "must_accept": cases[bad["i"]]["must"], "got": full},
                        {"spec": "ApiValue", "case": bad["case"]})
    c.cov["parts"]["conversion"] = {"cases": len(cases), "must_accept": sum(1 for x in cases if x["must"]), "outcomes": outcomes}
    c.cov["distinct_nontrivial"] += len(cases)
    c.cov["evaluations"] += len(cases)
    c.sample(recs[len(recs) // 3])


def roundtrip(c):
    outp = os.path.join(vf.WORK, "C17.rt.out")
    if os.path.exists(outp):
        os.remove(outp)
    rc, out = vf.daemon_test("convert::verif_harness::c17_roundtrip", env={"VERIF_OUT": outp}, timeout=900)
    if rc != 0 or not os.path.exists(outp):
        raise vf.ToolError(f"c17_roundtrip failed rc={rc}: {out[-3000:]}")
    for j in vf.read_jsonl(outp):
        if "summary" in j:
            c.cov["parts"]["roundtrip"] = j["summary"]
            c.cov["evaluations"] += j["summary"]["attrs"] + j["summary"]["nlris"]
            c.cov["distinct_nontrivial"] += j["summary"]["attrs"] + j["summary"]["nlris"]
            continue
        if not known_hit(c, j["res"]):
            c.violation("c17.roundtrip_" + j["kind"], j, {"roundtrip": j})


STORE = os.path.join(vf.ROOT, "spec", "ApiStore")


def store_cfg(name, valid, bad, maxcalls, gen):
    d = os.path.join(vf.WORK, "cfg")
    os.makedirs(d, exist_ok=True)
    p = os.path.join(d, name)
    q = lambda xs: "{" + ", ".join('"%s"' % x for x in xs) + "}"
    with open(p, "w") as f:
        f.write(f'CONSTANTS\n  Pfx = {{"p1", "p6"}}\n  Pid = {{0, 1}}\n  ValidCls = {q(valid)}\n  BadCls = {q(bad)}\n  MaxCalls = {maxcalls}\n')
        if gen:
            f.write("SPECIFICATION GenSpec\nINVARIANTS Emit\nCHECK_DEADLOCK FALSE\n")
        else:
            f.write("SPECIFICATION Spec\nINVARIANTS StoredWellFormed KeyUnique\nPROPERTY RefusedIsNoOp\nCHECK_DEADLOCK FALSE\n")
    return p


def op_line(op):
    if op["k"] == "add":
        return f"add {op['pfx']} {op['pid']} {op['cls']}"
    if op["k"] == "del":
        return f"del {op['n']}"
    return f"{op['k']} {op['pfx']}"


def expected_rib(post):
    out = {}
    for p, paths in post["rib"].items():
        out[p] = sorted((x["src"], x["pid"], x["cls"]) for x in paths)
    return out


def store_half(c):
    valid = ["min", "full", "rr"]
    bad_all = ["badorigin", "badseg", "longseg", "badnh", "valorigin", "oddcomm", "badfam"]
    r = vf.tlc(STORE, "ApiStore", store_cfg("C17.store.cfg", valid, bad_all[:2], 3 if c.tier == "quick" else 4, False), workers=8, timeout=900)
    c.add_tlc("store-design", r)
    if r.violated:
        c.violation("design", {"invariant": r.violated, "tlc": r.error_text[:3000]}, {"spec": "ApiStore"})
        return
    # transitions to replay: two valid classes + every bad class, two calls (every (state, op) pair of that model)
    edges = []
    for bad in ([bad_all[:4], bad_all[4:]]):
        g = vf.tlc(STORE, "ApiStoreMC", store_cfg("C17.store.gen.cfg", ["full", "rr"] if bad[0] == "badorigin" else ["min", "full"], bad, 2, True),
                   workers=8, timeout=900, want_edges=True, quiet=True)
        edges += g.edges
    budget = None
    if c.tier == "thorough":
        g = vf.tlc(STORE, "ApiStoreMC", store_cfg("C17.store.gen3.cfg", ["min", "full", "rr"], ["badseg"], 3, True), workers=8, timeout=1200,
                   want_edges=True, quiet=True)
        edges += g.edges
        budget = 250000
    init = vf.canon({"rib": {"p1": [], "p6": []}, "issued": []})
    seqs, covered, total = vf.cover_sequences(edges, init_key=init, max_len=40, seed=c.seed, budget=budget)
    inp = os.path.join(vf.WORK, "C17.store.in")
    outp = os.path.join(vf.WORK, "C17.store.out")
    with open(inp, "w") as f:
        for i, sq in enumerate(seqs):
            f.write(f"seq {i}\n")
            for ei in sq:
                f.write(op_line(edges[ei]["op"]) + "\n")
    if os.path.exists(outp):
        os.remove(outp)
    rc, out = vf.daemon_test("event::verif_harness::apistore_replay", env={"VERIF_IN": inp, "VERIF_OUT": outp}, timeout=1500)
    if rc != 0 or not os.path.exists(outp):
        raise vf.ToolError(f"apistore_replay failed rc={rc}: {out[-3000:]}")
    lines = vf.read_jsonl(outp)
    k = 0
    steps = 0
    seen = set()
    for i, sq in enumerate(seqs):
        assert "seq" in lines[k], lines[k]
        k += 1
        nxt = k + len(sq)
        hist = []
        for ei in sq:
            e = edges[ei]
            got = lines[k]
            k += 1
            hist.append(op_line(e["op"]))
            if got["res"] == "skipped":
                continue
            steps += 1
            bad = None
            if got["res"] == "panic":
                bad = ("panic", got.get("note", ""))
            elif got["res"] != e["obs"]:
                bad = ("result", f"model {e['obs']}, implementation {got['res']}")
            else:
                exp = expected_rib(e["post"])
                for p in exp:
                    shown = sorted((x["src"], x["pid"], x["cls"]) for x in got["rib"][p]["shown"])
                    held = sorted((x["src"], x["pid"], x["cls"]) for x in got["rib"][p]["held"])
                    if held != exp[p]:
                        bad = ("stored", f"{p}: model {exp[p]}, table {held}")
                    elif shown != exp[p]:
                        bad = ("shown", f"{p}: model {exp[p]}, ListPath {shown}")
                    elif any(x["nh"] != "ok" for x in got["rib"][p]["held"]):
                        bad = ("nexthop", f"{p}: {got['rib'][p]['held']}")
                    if bad:
                        break
            if bad:
                sig = (bad[0], e["op"].get("cls"), e["op"]["k"])
                if sig not in seen:
                    seen.add(sig)
                    c.violation("c17.store_" + bad[0], {"what": bad[1], "op": e["op"], "history": hist[-12:]},
                                {"spec": "ApiStore", "ops": list(hist)})
                break
        k = nxt
    c.cov["parts"]["store"] = {"model_transitions": total, "replayed": covered, "sequences": len(seqs), "steps": steps}
    c.cov["traces_validated_against_impl"] += len(seqs)
    c.cov["evaluations"] += steps
    c.cov["distinct_nontrivial"] += covered
    if seqs:
        c.sample([op_line(edges[ei]["op"]) for ei in seqs[0][:12]])


def raw_through_rpc(c):
    """ApiRaw.tla: AddPath carrying one raw attribute of every type code / value shape / flag octet / request context returns
    (accepted or InvalidArgument) and leaves a table that can be listed."""
    r = vf.tlc(SPEC, "ApiRawMC", os.path.join(SPEC, "raw.cfg"), workers=2, timeout=300)
    c.add_tlc("raw-table", r)
    if r.violated:
        c.violation("design", {"invariant": r.violated, "tlc": r.error_text[:3000]}, {"spec": "ApiRaw"})
        return
    cases = [json.loads(json.loads(ln)) for ln in r.stdout.splitlines() if ln.startswith('"{')]
    if not cases:
        raise vf.ToolError("ApiRaw: no cases")
    inp = os.path.join(vf.WORK, "C17.apiraw.in")
    outp = os.path.join(vf.WORK, "C17.apiraw.out")
    with open(inp, "w") as f:
        for k in cases:
            f.write(f"raw {k['code']} {k['shape']} {k['fl']} {k['ctx']}\n")
    if os.path.exists(outp):
        os.remove(outp)
    rc, out = vf.daemon_test("event::verif_harness::api_raw_replay", env={"VERIF_IN": inp, "VERIF_OUT": outp}, timeout=1500)
    if rc != 0 or not os.path.exists(outp):
        raise vf.ToolError(f"api_raw_replay failed rc={rc}:\n{out[-3000:]}")
    got = {j["i"]: j for j in vf.read_jsonl(outp)}
    seen = set()
    accepted = 0
    for i, k in enumerate(cases):
        g = got.get(i)
        if g is None:
            raise vf.ToolError(f"no api_raw result {i}")
        accepted += g["res"] == "ok"
        bad = None
        if g["res"] == "panic":
            bad = ("c17.rpc_panic", "AddPath panics instead of returning InvalidArgument")
        elif g["list"] == "panic":
            bad = ("c17.rpc_list_panic", "the request was answered but listing the table afterwards panics")
        elif g["list"] == "err":
            bad = ("c17.rpc_delete", "the path AddPath accepted cannot be deleted by the uuid it returned")
        if bad and (bad[0], k["code"], k["shape"]) not in seen:
            seen.add((bad[0], k["code"], k["shape"]))
            c.violation(bad[0], {"case": k, "why": bad[1]}, {"spec": "ApiRaw", "case": k})
    c.cov["parts"]["raw_through_rpc"] = {"cases": len(cases), "accepted": accepted}
    c.cov["evaluations"] += len(cases)
    c.cov["distinct_nontrivial"] += len(cases)


def main(c):
    value_half(c)
    roundtrip(c)
    store_half(c)
    raw_through_rpc(c)
    c.cov["exhaustive"] = False
    c.cov["rule"] = ("every case of ApiValue.tla (attribute kind x field classes, NLRI kind x family x field classes) converted "
                     "by the real code and validated by ApiValueTrace.tla; round trip of every sample / wire-decoded attribute, "
                     "every NLRI sample of the 19 families, and 256 x 19 x 3 extended-community values")
    c.assumptions += ["concrete values are one representative per field class; TunnelEncap / PrefixSid / LS attribute contents and "
                      "BGP-LS / flowspec component contents are covered by the sample round trip only",
                      "the next hop is held outside the attribute list and is not part of what ListPath shows; stored next hop is "
                      "compared in the store half"]
