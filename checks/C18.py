"""C18 - A monitoring subscriber reconstructs the exact Adj-RIB-In whenever it subscribes.

Subscribe.tla models the session threads (insert / remove as PreLock + Body, session end as list load + per-shard drop +
PeerDown) and the subscriber (register, per-shard snapshot, EndOfSnapshot) at lock granularity; TLC checks Reconstructs and
LastEventIsCurrent for every interleaving and shows that hoisting the subscriber-list load out of the critical section
(deviation LoadBeforeLock) violates them.  Random complete interleavings are replayed on the real TableManager with real OS
threads parked at cfg-guarded scheduling points placed right before every shard-lock acquisition; after every step the real
RIB is compared with the model, and at the end each subscriber's folded event stream with the real RIB."""
import json
import os

import vf

LEVEL = "exploration"
SPEC = os.path.join(vf.ROOT, "spec", "Subscribe")

BASE = """CONSTANTS
  Keys <- MCKeys
  ShardOf <- MCShardOf
  PeerOf <- MCPeerOf
  NShards = 2
  Sessions = {"t1", "t2"}
  Prog <- MCProg%(prog)s
  SessPeer <- MCSessPeer
  Ends = {%(ends)s}
  Subs = {%(subs)s}
  Dev = {%(dev)s}
SPECIFICATION GenSpec
INVARIANTS %(invs)s
CHECK_DEADLOCK FALSE
"""


def cfg(name, prog, ends, subs, dev, invs):
    d = os.path.join(vf.WORK, "cfg")
    os.makedirs(d, exist_ok=True)
    p = os.path.join(d, name)
    q = lambda xs: ", ".join('"%s"' % x for x in xs)
    with open(p, "w") as f:
        f.write(BASE % dict(prog=prog, ends=q(ends), subs=q(subs), dev=q(dev), invs=" ".join(invs)))
    return p


CONFIGS = [("A", ["t1"], ["u1"]), ("B", ["t1"], ["u1"]), ("A", [], ["u1"]), ("B", ["t1", "t2"], ["u1"]), ("C", ["t1"], ["u1", "u2"])]


def sequential_binding(c, thorough):
    """'All subscribe points in a history', sequentially and over the whole operation set of the table: behaviours of Rib.tla
    (insert / replace / remove / peer down / next-hop flips / soft reset IN under a policy that rewrites the next hop; ADD-PATH
    path ids, import rejection) through the real TableManager, with one monitoring subscriber from the start and one that
    subscribes (with snapshot) at a random point.  After every operation each subscriber's fold of the Adj-RIB-In events -
    before and after import policy, keyed by (peer, prefix, path id) - must be what the model holds."""
    import random
    import C20
    import riblib
    from riblib import Cfg, SESSIONS, PEER_ADDR
    ops = ["insert", "remove", "drop", "nhflip", "softreset"]
    cfgs = [Cfg("s1", ["p1", "p2"], ["a1", "b1", "c1"], {"A": [0, 1], "B": [0], "C": [0, 1]}, ["c1", "c3"], ["n1", "n2"],
                filt=(False, True), ops=ops),
            Cfg("s2", ["p1", "p2", "p3"], ["a1", "a2", "b1"], {"A": [0, 1], "B": [0]}, ["c1", "c2"], ["n1", "n2", "n3"],
                filt=(False, True), ops=ops)]
    num, depth = (1000, 40) if thorough else (200, 30)
    rng = random.Random(c.seed + 18)
    nb, nsteps = 0, 0
    for cfg in cfgs:
        walks = riblib.gen_walks(cfg, num, depth, c.seed + 77)
        if not walks:
            raise vf.ToolError("RibMC produced no walks")
        inp = os.path.join(vf.WORK, f"C18.{cfg.name}.fib.in")
        outp = os.path.join(vf.WORK, f"C18.{cfg.name}.out")
        exp = []
        with open(inp, "w") as f:
            f.write("\n".join(C20.header(cfg)) + "\n")
            for w in walks:
                f.write("init\n")
                exp.append(None)
                at = rng.randrange(0, len(w))
                for i, stp in enumerate(w):
                    if i == at:
                        f.write("subscribe m1\n")
                        exp.append({"op": {"k": "subscribe"}, "post": (w[i - 1]["post"] if i else None)})
                    f.write(C20.op_line(cfg, stp["op"]) + "\n")
                    exp.append(stp)
        vf.daemon_test("fib_replay", {"VERIF_IN": inp, "VERIF_OUT": outp}, timeout=2400)
        got = vf.read_jsonl(outp)
        if len(got) != len(exp):
            raise vf.ToolError(f"fib_replay: {len(got)} results for {len(exp)} steps")
        seen = set()
        hist, skip = [], False
        for e, g in zip(exp, got):
            if e is None:
                hist, skip = [], False
                nb += 1
                continue
            if skip:
                continue
            hist.append(e["op"])
            nsteps += 1
            post = e["post"]
            if post is None:
                want_pre, want_post = {}, {}
            else:
                want_pre = {(PEER_ADDR[SESSIONS[x["sess"]]["peer"]], p, x["rid"]): x["cls"] for p in cfg.prefixes for x in post["ent"][p]}
                want_post = {(PEER_ADDR[SESSIONS[x["sess"]]["peer"]], p, x["rid"]): (x["cls"], x["nh"])
                             for p in cfg.prefixes for x in post["ent"][p] if not x["filt"]}
            bad = None
            for name, v in g["adj"].items():
                if not v["eos"]:
                    bad = ("sequential_no_end_of_snapshot", {"subscriber": name})
                    break
                have_pre = {(r[0], r[1], r[2]): r[3] for r in v["pre"]}
                have_post = {(r[0], r[1], r[2]): (r[3], r[4]) for r in v["post"]}
                if have_pre != want_pre:
                    bad = ("sequential_pre", {"subscriber": name, "subscriber_view": sorted(map(list, have_pre.items())),
                                              "model": sorted(map(list, want_pre.items()))})
                elif have_post != want_post:
                    bad = ("sequential_post", {"subscriber": name, "subscriber_view": sorted(map(list, have_post.items())),
                                               "model": sorted(map(list, want_post.items()))})
                if bad:
                    break
            if bad:
                skip = True
                sig = (bad[0], e["op"]["k"])
                if sig not in seen:
                    seen.add(sig)
                    c.violation("c18." + bad[0], dict(bad[1], op=e["op"], why="a subscriber's fold of the Adj-RIB-In events differs from "
                                                      "the Adj-RIB-In"), {"spec": "Rib (Adj-RIB-In projection)", "config": cfg.describe(), "ops": hist})
    c.cov["parts"]["sequential"] = {"behaviours": nb, "steps": nsteps}
    c.cov["evaluations"] += nsteps
    c.cov["traces_validated_against_impl"] += nb


def main(c):
    thorough = c.tier == "thorough"
    invs = ["Reconstructs", "LastEventIsCurrent"]
    total_walks = 0
    steps_total = 0
    for prog, ends, subs in CONFIGS:
        tag = f"{prog}-{'+'.join(ends) or 'none'}-{len(subs)}"
        r = vf.tlc(SPEC, "SubscribeMC", cfg(f"C18.{tag}.cfg", prog, ends, subs, [], invs), workers=8, timeout=1500)
        c.add_tlc("design-" + tag, r)
        if r.violated:
            c.violation("design", {"invariant": r.violated, "tlc": r.error_text[:3000]}, {"spec": "Subscribe", "config": tag})
            return
    rv = vf.tlc(SPEC, "SubscribeMC", cfg("C18.dev.cfg", "A", [], ["u1"], ["LoadBeforeLock"], invs), workers=4, timeout=600, quiet=True)
    if not rv.violated:
        raise vf.ToolError("Subscribe: the invariants are vacuous (deviation LoadBeforeLock not detected)")
    num = 500 if thorough else 250
    inp = os.path.join(vf.WORK, "C18.sub.in")
    outp = os.path.join(vf.WORK, "C18.sub.out")
    exp = []
    with open(inp, "w") as f:
        for prog, ends, subs in CONFIGS:
            tag = f"{prog}-{'+'.join(ends) or 'none'}-{len(subs)}"
            rw = vf.tlc(SPEC, "SubscribeMC", cfg(f"C18.walk.{tag}.cfg", prog, ends, subs, [], ["EmitWalk"]),
                        workers=1, timeout=900, simulate=num, depth=60, seed=c.seed + 3, heap="4g")
            walks = vf.parse_walks(rw.stdout)
            if not walks:
                raise vf.ToolError("SubscribeMC produced no walks")
            for w in walks:
                if not w[-1]["quiescent"]:
                    continue
                # every other behaviour runs with peer p1's next hop reported unreachable: reachability is no part of the
                # Adj-RIB-In, so the model is the same, but the table then holds paths flagged next-hop-invalid
                # ... and every other pair with route selection deferred (a restarting speaker): again no part of the Adj-RIB-In
                f.write(f"walk {prog} {','.join(ends) or '-'} {total_walks % 4}\n")
                exp.append(("walk", tag))
                for stp in w:
                    f.write(f"{stp['th']} {stp['step']}\n")
                    exp.append(("step", stp))
                exp.append(("final", w[-1]))
                total_walks += 1
                if total_walks % 97 == 1:
                    c.sample([f"{stp['th']} {stp['step']}" for stp in w[:-1]][:40])
    vf.daemon_test("subscribe_replay", {"VERIF_IN": inp, "VERIF_OUT": outp}, timeout=2400)
    got = vf.read_jsonl(outp)
    if len(got) != len(exp):
        raise vf.ToolError(f"subscribe_replay: {len(got)} lines for {len(exp)} expected")
    hist = []
    tag = None
    skip = False
    seen = set()

    def report(kind, detail):
        if kind in seen:
            return
        seen.add(kind)
        c.violation("c18." + kind, detail, {"spec": "Subscribe", "config": tag, "steps": [f"{h['th']} {h['step']}" for h in hist]})

    for (k, e), g in zip(exp, got):
        if k == "walk":
            hist = []
            tag = e
            skip = False
            continue
        if skip:
            continue
        if k == "step":
            hist.append(e)
            steps_total += 1
            if g["at"] == "stuck":
                report("stuck", {"what": "a thread did not reach its next scheduling point (deadlock or a missing hook)", "step": f"{e['th']} {e['step']}"})
                skip = True
            elif g["rib"] != e["rib"]:
                report("replay", {"what": "the real RIB differs from the model after this step", "expected": e["rib"], "actual": g["rib"], "step": f"{e['th']} {e['step']}"})
                skip = True
        else:
            if not g.get("completed"):
                continue
            for u, sv in g["subs"].items():
                if sv["view"] != g["rib"]:
                    report("reconstruct", {"what": f"subscriber {u} reconstructs a different Adj-RIB-In than the RIB holds", "subscriber_view": sv["view"],
                                           "rib": g["rib"], "events": sv["events"]})
                elif not sv["eos"]:
                    report("no_end_of_snapshot", {"what": f"subscriber {u} never saw the end of its snapshot", "events": sv["events"]})
                elif sv["bmpview"] != g["rib"]:
                    report("reconstruct_bmp", {"what": f"the BMP client's fold of subscriber {u}'s events (snapshot phase through apply_snapshot) "
                                               "gives a different Adj-RIB-In than the RIB holds", "bmp_view": sv["bmpview"], "rib": g["rib"],
                                               "events": sv["events"]})
    c.cov["parts"]["replay"] = {"behaviours": total_walks, "steps": steps_total}
    c.cov["traces_validated_against_impl"] = total_walks
    c.cov["distinct_nontrivial"] = total_walks
    c.cov["evaluations"] = steps_total                     # scheduler steps executed on the real threads
    c.cov["exhaustive"] = False
    c.cov["rule"] = ("model: all interleavings of two session threads (2-3 calls each, with and without session end), one or two "
                     "subscribers, two shards, three keys, an import policy rejecting one value - exhaustive in TLC; replay: random "
                     "complete interleavings (250 per configuration quick, 500 thorough; in turn plain / with a next hop reported unreachable / with route selection deferred / both) on real threads, each subscriber's events folded by the harness and by the BMP client's own snapshot fold; distinct = replayed behaviours")
    sequential_binding(c, thorough)
    if not c.violations:
        import drvlib
        drvlib.atomicity(c, "C18", "subs")
    c.assumptions += ["scheduling points sit right before each shard-lock acquisition: a change that moves work across such a point is "
                      "visible, a change between two statements inside one critical section or before the point is only visible through its "
                      "effect on the final comparison", "drop_stale / LLGR purges / soft_reset_in (which read the subscriber list before "
                      "taking the shard locks) and GR stale retention are outside the property's quantifier and not modelled",
                      "peer-up / peer-down pairing of bmp.rs is the session half of C19 (BmpSession.tla)"]
