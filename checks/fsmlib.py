"""Shared pieces of the C07 / C08 checks: PeerFsm model runs and replay on the real PeerFsm."""
import json
import os

import vf

SPEC = os.path.join(vf.ROOT, "spec", "PeerFsm")

# abstract identifier -> real BGP identifier (3 has the top bit set: unsigned comparison matters)
RID = {0: 0, 1: 0x01010101, 2: 0x02020202, 3: 0xC0A80101}
RID_INV = {v: k for k, v in RID.items()}
EXPECTED_ASN = 65002
WRONG_ASN = 65099

GHOST = ("sent", "acc", "kad")


def write_cfg(name, consts, spec, invariants=(), properties=(), constraint=None, extra=""):
    d = os.path.join(vf.WORK, "cfg")
    os.makedirs(d, exist_ok=True)
    p = os.path.join(d, name)
    with open(p, "w") as f:
        f.write("CONSTANTS\n")
        for k, v in consts.items():
            f.write(f"  {k} = {v}\n")
        f.write(f"SPECIFICATION {spec}\n")
        if invariants:
            f.write("INVARIANTS " + " ".join(invariants) + "\n")
        if properties:
            f.write("PROPERTIES " + " ".join(properties) + "\n")
        if constraint:
            f.write(f"CONSTRAINT {constraint}\n")
        f.write("CHECK_DEADLOCK FALSE\n")
        f.write(extra)
    return p


def tla_set(xs):
    return "{" + ", ".join(str(x) for x in sorted(xs)) + "}"


def consts(local_id, rids, local_hold, rholds):
    return {"LocalId": local_id, "RemoteIds": tla_set(rids), "LocalHold": local_hold, "InitialHold": 240,
            "RemoteHolds": tla_set(rholds)}


INVS = ["TypeOK", "EstablishedOnlyAfterOpenExchange", "AtMostOneUp", "EveryStepOK", "HoldArithmetic"]


def strip_ghost(st):
    return {r: {k: v for k, v in c.items() if k not in GHOST} for r, c in st.items()}


def op_line(op):
    if op["k"] == "open":
        asn = EXPECTED_ASN if op["asok"] else WRONG_ASN
        return f"{op['r']} open {asn} {RID[op['rid']]} {op['hold']}"
    return f"{op['r']} {op['k']}"


def abstract_state(real):
    out = {}
    for r in ("A", "P"):
        c = dict(real[r])
        c["rid"] = RID_INV.get(c["rid"], -1)
        out[r] = c
    return out


def real_monitor(pre_abs, op, post_abs, obs):
    """Property C07 evaluated directly on the real machine's projected state and outputs
    (independent of the model's prediction).  Returns a list of failure strings."""
    bad = []
    up = lambda c: c["st"] in ("OpenConfirm", "Established")
    if up(post_abs["A"]) and up(post_abs["P"]):
        bad.append("both connections in OpenConfirm-or-Established")
    r = op["r"]
    c = pre_abs[r]
    t = post_abs[r]
    code = {"None": 0, "OpenSent": 3, "OpenConfirm": 4, "Established": 5}
    if t["st"] == "Established" and c["st"] != "Established":
        if not (c["st"] == "OpenConfirm" and op["k"] == "keepalive"):
            bad.append("Established entered other than by KEEPALIVE in OpenConfirm")
    if t["st"] == "OpenConfirm" and c["st"] != "OpenConfirm":
        if not (c["st"] == "OpenSent" and op["k"] == "open" and op.get("asok")):
            bad.append("OpenConfirm entered other than by an acceptable OPEN in OpenSent")
    allowed = {"open": ("OpenSent",), "keepalive": ("OpenConfirm", "Established"),
               "update": ("Established",), "refresh": ("Established",)}
    if c["st"] != "None" and op["k"] in allowed and c["st"] not in allowed[op["k"]]:
        want = {"r": r, "t": "down", "v": 3, "n": 5 * 256 + code[c["st"]]}
        if want not in obs or t["st"] != "None":
            bad.append(f"disallowed {op['k']} in {c['st']}: no FSM-error NOTIFICATION with that state / slot kept")
    if c["st"] != "None" and op["k"] in ("notification", "holdtimer", "disconnected", "admin"):
        if t["st"] != "None":
            bad.append(f"{op['k']} did not free the slot")
    return bad


def gen_edges(c, name, k, timeout=300):
    cfg = write_cfg(f"{name}.gen.cfg", k, "GenSpec", invariants=["Emit"])
    r = vf.tlc(SPEC, "PeerFsmMC", cfg, workers=4, timeout=timeout, want_edges=True)
    if r.violated:
        raise vf.ToolError(f"generator run reported {r.violated}: {r.error_text[:500]}")
    return r.edges


def replay(c, pid, runs, test_filter="fsm::verif_harness::replay", monitor=True, extra_env=None):
    """runs: list of (name, consts, edges, sequences(list of list of edge idx)).
    Executes all sequences on the real PeerFsm in one harness invocation and compares
    every step with the model.  Returns (#steps compared, set of distinct (pre,op))."""
    inp = os.path.join(vf.WORK, f"{pid}.fsm.in")
    outp = os.path.join(vf.WORK, f"{pid}.fsm.out")
    index = {}
    with open(inp, "w") as f:
        for name, k, edges, seqs in runs:
            for si, seq in enumerate(seqs):
                sid = f"{name}/{si}"
                index[sid] = (name, k, edges, seq)
                f.write(f"seq {sid} {RID[k['LocalId']]} {k['LocalHold']} {EXPECTED_ASN}\n")
                for ei in seq:
                    f.write(op_line(edges[ei]["op"]) + "\n")
    if os.path.exists(outp):
        os.remove(outp)
    env = {"VERIF_IN": inp, "VERIF_OUT": outp}
    if extra_env:
        env.update(extra_env)
    rc, out = vf.daemon_test(test_filter, env=env)
    if rc != 0 or not os.path.exists(outp):
        raise vf.ToolError(f"fsm harness failed rc={rc}:\n{out[-3000:]}")
    got = {}
    for j in vf.read_jsonl(outp):
        got[(j["seq"], j["step"])] = j
    compared = 0
    distinct = set()
    failed_seqs = set()
    for sid, (name, k, edges, seq) in index.items():
        pre_real = None
        for i, ei in enumerate(seq, start=1):
            e = edges[ei]
            j = got.get((sid, i))
            if j is None:
                raise vf.ToolError(f"harness produced no record for {sid} step {i}")
            compared += 1
            distinct.add((vf.canon(e["pre"]), vf.canon(e["op"])))
            detail = None
            if j.get("panic"):
                detail = {"kind": "panic", "step": i, "op": e["op"]}
            else:
                act_state = abstract_state(j["state"])
                exp_state = strip_ghost(e["post"])
                if act_state != exp_state:
                    detail = {"kind": "state", "step": i, "op": e["op"], "expected": exp_state,
                              "actual": act_state}
                elif j["obs"] != e["obs"]:
                    detail = {"kind": "obs", "step": i, "op": e["op"], "expected": e["obs"],
                              "actual": j["obs"]}
                elif monitor:
                    bad = real_monitor(strip_ghost(e["pre"]), e["op"], act_state, j["obs"])
                    if bad:
                        detail = {"kind": "monitor", "step": i, "op": e["op"], "failed": bad}
            if detail and sid not in failed_seqs:
                failed_seqs.add(sid)
                c.violation(detail["kind"], detail,
                            {"spec": "PeerFsm", "constants": k, "concretise": {"rid": RID},
                             "steps": [{"op": edges[x]["op"], "post": strip_ghost(edges[x]["post"]),
                                        "obs": edges[x]["obs"]} for x in seq[:i]]})
                break
    return compared, distinct
