"""C14 - Routing policy evaluates as specified and can never crash on a route.

Evaluation half: Policy.tla is the reference semantics (function-style); TLC enumerates (policy, route) cases - every single
condition of the catalogue against every route of a W-bit prefix space x AS paths x community sets, and two-statement
policies for ordering / accumulation / default - and each case is evaluated by the real PolicyTable + apply_import at three
address embeddings; panics are violations.  Store half (PolicyStore.tla): CRUD histories with the required result of every
call and re-evaluation of the live assignment after every call."""
import json
import os

import vf

LEVEL = "exploration"
SPEC = os.path.join(vf.ROOT, "spec", "Policy")


def cfg(name, mode, invs):
    d = os.path.join(vf.WORK, "cfg")
    os.makedirs(d, exist_ok=True)
    p = os.path.join(d, name)
    with open(p, "w") as f:
        f.write(f"CONSTANTS\n  W = 3\n  Mode = \"{mode}\"\nSPECIFICATION Spec\nINVARIANTS {' '.join(invs)}\nCHECK_DEADLOCK FALSE\n")
    return p


def main(c):
    total = 0
    nontrivial = 0
    for mode in ("cond", "chain", "act"):
        r = vf.tlc(SPEC, "PolicyMC", cfg(f"C14.{mode}.cfg", mode, ["Sane", "Emit"]), workers=4, timeout=1500)
        c.add_tlc("cases-" + mode, r)
        if r.violated:
            c.violation("design", {"invariant": r.violated, "tlc": r.error_text[:3000]}, {"spec": "Policy"})
            return
        inp = os.path.join(vf.WORK, f"C14.{mode}.in")
        outp = os.path.join(vf.WORK, f"C14.{mode}.out")
        n = 0
        with open(inp, "w") as f:
            lines = []
            for ln in r.stdout.splitlines():
                if ln.startswith('"{'):
                    lines.append(json.loads(ln))
            lines.sort()          # group by policy so the harness builds each assignment once
            for s in lines:
                f.write(s + "\n")
                n += 1
                j = None
            if lines:
                c.sample(json.loads(lines[len(lines) // 2]))
        rc, so, se = vf.lib_run("policy_replay", [inp, outp] + (["wire"] if mode == "act" else []), timeout=2400)
        if rc != 0:
            raise vf.ToolError(f"policy_replay failed rc={rc}: {se[-2000:]}")
        seen = set()
        for j in vf.read_jsonl(outp):
            if "summary" in j:
                total += j["summary"]["evaluations"]
                c.cov["parts"]["replay-" + mode] = j["summary"]
                continue
            if "wire" in j:
                total += j["wire"]["evaluations"]
                c.cov["parts"]["decoder-accepted-contents"] = j["wire"]
                continue
            kind = j["kind"]
            sig = kind
            if kind != "build":
                conds = sorted(vf.canon(x) for st in j["pol"]["stmts"] for x in st["conds"])
                sig = kind + "|" + "|".join(conds) + "|" + "+".join(st["act"] for st in j["pol"]["stmts"])
            if sig in seen:
                continue
            seen.add(sig)
            c.violation("policy." + kind, {k: j[k] for k in j if k != "i"}, {"spec": "Policy", "mode": mode, "case": j})
        nontrivial += n
    c.cov["evaluations"] = total
    c.cov["distinct_nontrivial"] = nontrivial
    c.cov["exhaustive"] = True
    c.cov["rule"] = ("every condition of the catalogue (7 prefix sets x any/invert, 4 AS-path sets and 2 community sets x any/all/"
                     "invert, AS-path length comparisons) x every route (15 prefixes x 7 AS paths x 5 community sets) 72 two-statement policies x routes, and 121 pairs of "
                     "action statements (set LOCAL_PREF, add / replace / remove communities, MED +50 / -10 / := 7 with saturation at both ends, "
                     "prepend twice; a later statement reads what an earlier one wrote) x routes with and without MED / AS_PATH, each at 5 address embeddings (IPv4 at bit offsets 21, 8 and 0, IPv6 at 61 and 0 - at offset 0 the whole-space entries are the default routes); distinct = distinct (policy, route) cases")
    c.assumptions += ["defined sets, AS paths and communities are the fixed catalogue of Policy.tla (nested / overlapping / "
                      "below-own-length prefix entries, AS_SET, trailing empty segment); actions: see rule",
                      "attribute contents: AS_PATH / COMMUNITY / MED / LOCAL_PREF octet strings (well-formed and not) that the real value decoder "
                      "ACCEPTS are evaluated under every condition kind and action for panics only",
                      "RPKI, neighbour, ext/large-community and next-hop conditions are not in the catalogue"]
    import drvlib
    drvlib.policy_store(c)
