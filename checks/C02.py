"""C02 - Selected and ranked paths are always maximal under the stated decision order."""
import ribcheck
from ribcheck import Cfg, NO_DEFER, NO_LLGR, ALL_OPS

LEVEL = "model_checking"
INV = ["OrderOK", "BestOK", "KeysOK"]


def main(c):
    thorough = c.tier == "thorough"
    design = [Cfg("r1", ["p1"], ["a1", "a2", "b1"], {"A": [0, 1], "B": [0]}, ["c1", "c2", "c3"], ["n1"],
                  filt=(False, True), ops=NO_DEFER)]
    edge = [Cfg("re", ["p1"], ["a1", "b1"], {"A": [0], "B": [0]}, ["c1", "c3"], ["n1"], filt=(False, True), ops=NO_DEFER)]
    walks = [
        Cfg("w1", ["p1"], ["a1", "a2", "b1", "c1"], {"A": [0, 1], "B": [0], "C": [0]},
            ["c1", "c4", "c5", "c6", "cS", "c7", "c8", "c9", "cL", "cW", "cX"], ["n1", "n2"], filt=(False, True), ops=NO_DEFER),
        Cfg("w2", ["e1", "e2"], ["a1", "a2", "b1"], {"A": [0, 1], "B": [0]}, ["c1", "cM", "cm", "c3", "cR", "cE"], ["n1"],
            filt=(False,), evpn=["e1", "e2"], ops=NO_DEFER),
        Cfg("w3", ["p3"], ["a1", "b1", "c1"], {"A": [0], "B": [0], "C": [0]}, ["c1", "c2", "c3", "c4", "cS", "c6", "cL", "cN"], ["n1", "n2"],
            filt=(False, True), ops=NO_DEFER),
        # every session role: external, route-server client, internal, route-reflector client, confederation-external
        Cfg("w4", ["p1", "p2"], ["a1", "b1", "c1", "d1", "e1", "f1"], {"A": [0], "B": [0], "C": [0], "D": [0], "E": [0], "F": [0]},
            ["c1", "c2", "c4", "c8", "c9"], ["n1"], filt=(False,), ops=NO_DEFER),
        # three route-server clients and an ordinary peer: the view shown to each client
        Cfg("w5", ["p1", "p2"], ["d1", "g1", "h1", "a1"], {"D": [0], "G": [0], "H": [0], "A": [0]}, ["c1", "c3", "c4"], ["n1", "n2"],
            filt=(False, True), ops=NO_DEFER),
    ]
    if thorough:
        design += [
            Cfg("r1c", ["p1"], ["a1", "b1", "c1"], {"A": [0, 1], "B": [0], "C": [0]}, ["c1", "c2", "c3"], ["n1"],
                filt=(False, True), ops=NO_DEFER),
            Cfg("r2", ["p1"], ["a1", "a2", "b1"], {"A": [0, 1], "B": [0]}, ["c1", "c2", "c3"], ["n1", "n2"], filt=(False, True)),
            Cfg("r3", ["e1"], ["a1", "b1", "c1"], {"A": [0], "B": [0], "C": [0]}, ["c1", "cM", "cm"], ["n1"], filt=(False, True),
                evpn=["e1"], ops=NO_DEFER),
            Cfg("r4", ["p1"], ["a1", "b1", "c1"], {"A": [0], "B": [0], "C": [0]}, ["c1", "c9", "cL", "c8", "c7"], ["n1"],
                filt=(False,), ops=NO_DEFER),
        ]
    ribcheck.run(c, "C02", ("c02.",), design, walks, INV, nwalks=4000 if thorough else 600, depth=40, edge_cfgs=edge)
    c.assumptions += [
        "attribute classes are concretised by checks/riblib.py CLASSES (AS paths of 1/2/256/300 hops, AS_SET, confed segments, "
        "CLUSTER_LIST, ORIGINATOR_ID, LLGR_STALE / NO_LLGR communities, MAC mobility); the model key is derived from the same table",
        "ties are compared modulo order: the real ranking must be sorted under the model's decision key and its head must be one "
        "of the model's maximal paths",
    ]
