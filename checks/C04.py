"""C04 - Encoded BGP messages are well-framed and decode to the same routes at the peer.

Chunking.tla specifies the splitting loop of PeerCodec::encode_to (one action per do_encode call; nondeterministic in how full a
frame is) with the invariants FrameWithinLimit, Partition, Complete; TLC checks them for all entry-size sequences and shows
that the implementation's former rule (deviation FixedReservation / SilentStop) violates them.  The frames written by the real
encoder for every family x codec variant x attribute-block size class x entry-count class are then checked to be a behaviour
of that specification (frame lengths, consecutive slices, success only when complete) and decoded with the codec negotiated
from the OPPOSITE side: same (path-id, prefix) sequence, next hop and attributes; decode(encode(decoded)) is a fixed point;
OPEN with capability lists around and beyond the one-octet limit."""
import os

import vf

LEVEL = "exploration"
SPEC = os.path.join(vf.ROOT, "spec", "Chunking")


def cfg(name, dev):
    d = os.path.join(vf.WORK, "cfg")
    os.makedirs(d, exist_ok=True)
    p = os.path.join(d, name)
    dv = ", ".join('"%s"' % x for x in dev)
    with open(p, "w") as f:
        f.write("CONSTANTS\n  Limit = 12\n  Overheads = {4, 9, 11, 13}\n  EntrySizes = {1, 2, 4}\n  Resv = 2\n  MaxN = 5\n"
                "  Dev = {%s}\nSPECIFICATION Spec\nINVARIANTS FrameWithinLimit Partition Complete\nCHECK_DEADLOCK FALSE\n" % dv)
    return p


def main(c):
    r = vf.tlc(SPEC, "Chunking", cfg("C04.cfg", []), workers=4, timeout=900)
    c.add_tlc("chunking-design", r)
    if r.violated:
        c.violation("design", {"invariant": r.violated, "tlc": r.error_text[:3000]}, {"spec": "Chunking"})
        return
    for dev in (["FixedReservation"], ["FixedReservation", "SilentStop"]):
        rv = vf.tlc(SPEC, "Chunking", cfg("C04.dev.cfg", dev), workers=2, timeout=600, quiet=True)
        if not rv.violated:
            raise vf.ToolError(f"Chunking: invariants are vacuous (deviation {dev} not detected)")
    profiles = ("dev", "release") if c.tier == "thorough" else ("dev",)
    for prof in profiles:
        outp = os.path.join(vf.WORK, f"C04.{prof}.out")
        rc, so, se = vf.lib_run("chunk_replay", [str(c.seed), outp], timeout=2400, profile=prof)
        if rc != 0:
            raise vf.ToolError(f"chunk_replay failed rc={rc}: {se[-2000:]}")
        for j in vf.read_jsonl(outp):
            if "sample" in j:
                c.sample(j["sample"])
                continue
            if "summary" in j:
                c.cov["parts"][f"replay-{prof}"] = j["summary"]
                c.cov["distinct_nontrivial"] = j["summary"]["cases"]
                c.cov["evaluations"] = c.cov.get("evaluations", 0) + j["summary"]["frames"]
                continue
            c.violation("c04." + j["kind"], {"what": j["what"], "case": j["case"], "profile": prof}, {"spec": "Chunking", "case": j["case"], "profile": prof})
    c.cov["exhaustive"] = False
    c.cov["rule"] = ("19 families x {2,4-octet AS} x {add-path off/on} x {4096, 65535 limit} x attribute filler {none, half, limit-160, "
                     "limit-70, beyond the limit} x entry count {1, all samples, one frame's worth, three frames' worth} x {announce, "
                     "withdraw}, an alternative IPv4 next hop, and OPEN with 1/6/12/19 families x 0/3/8 extra capabilities; "
                     "distinct = encoder cases")
    c.assumptions += ["NLRI values are the per-family samples (self-tested round trip), repeated to reach the entry counts; attribute "
                      "equality is by code and payload (the extended-length flag is wire detail); a withdrawn labeled prefix is "
                      "compared without its labels (RFC 8277 2.4)"]
