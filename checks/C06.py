"""C06 - The RIB's change stream reproduces the RIB: no best/add-path change is missed."""
import os

import ribcheck
import riblib
import vf
from ribcheck import Cfg, NO_DEFER, NO_LLGR, ALL_OPS

LEVEL = "model_checking"
INV = ["ViewsMatch", "IdsOK", "KeysOK"]


def manager_binding(c, thorough):
    """The same property one level up: behaviours of Rib.tla through the real TableManager (two shards, import policy, next-hop
    tracking, soft reset IN), where every change is fanned out to the registered neighbours' channels.  Each neighbour - two
    addresses that are nobody's session and every source peer's own address, until that peer's session ends - folds what it
    receives with the two documented consumers; after every operation its view must be the model's."""
    import C20
    from riblib import Consumer, ident
    cfgs = [Cfg("m1", ["p1", "p2"], ["a1", "a2", "b1", "c1"], {"A": [0, 1], "B": [0], "C": [0]}, ["c1", "c2", "c3", "cN"], ["n1", "n2"],
                filt=(False, True), ops=C20.OPS),
            # LLGR marking of a peer some of whose routes carry NO_LLGR (two table calls whose changes are fanned out in order)
            Cfg("m3", ["p1", "p2", "p3"], ["a1", "a2", "b1"], {"A": [0, 1], "B": [0]}, ["c1", "cN", "cL"], ["n1"],
                filt=(False,), ops=["insert", "remove", "markllgr", "dropllgr"]),
            Cfg("m2", ["p1", "p2", "p3"], ["a1", "b1", "d1"], {"A": [0], "B": [0], "D": [0]}, ["c1", "c4"], ["n1", "n2"],
                filt=(False, True), ops=C20.OPS)]
    num, depth = (1200, 40) if thorough else (250, 30)
    nb, nsteps = 0, 0
    for cfg in cfgs:
        walks = riblib.gen_walks(cfg, num, depth, c.seed + 66)
        if not walks:
            raise vf.ToolError("RibMC produced no walks")
        inp = os.path.join(vf.WORK, f"C06.{cfg.name}.fib.in")
        outp = os.path.join(vf.WORK, f"C06.{cfg.name}.out")
        exp = []
        with open(inp, "w") as f:
            f.write("\n".join(C20.header(cfg)) + "\n")
            for w in walks:
                f.write("init\n")
                exp.append(None)
                for stp in w:
                    f.write(C20.op_line(cfg, stp["op"]) + "\n")
                    exp.append(stp)
        vf.daemon_test("fib_replay", {"VERIF_IN": inp, "VERIF_OUT": outp}, timeout=2400)
        got = vf.read_jsonl(outp)
        if len(got) != len(exp):
            raise vf.ToolError(f"fib_replay: {len(got)} results for {len(exp)} steps")
        seen = set()
        cons, hist, skip = {}, [], False
        for e, g in zip(exp, got):
            if e is None:
                cons, hist, skip = {}, [], False
                nb += 1
                continue
            if skip:
                continue
            hist.append(e["op"])
            nsteps += 1
            post = e["post"]
            nhbad = set(post["nhbad"])
            bad = None
            for name, items in g["notifs"].items():
                k = cons.setdefault(name, Consumer())
                for n in items:
                    k.feed(n)
                if name in g["closed"]:
                    continue          # this neighbour's own session ended: its channel is gone
                for p in cfg.prefixes:
                    elig = sorted(ident(x) for x in post["ent"][p] if not x["filt"] and x["nh"] not in nhbad)
                    best = {ident(x) for x in post["best"][p]}
                    have = k.best.get(p)
                    if (have is None) != (not best) or (have is not None and tuple(have) not in best):
                        bad = ("c06.manager_fold_best", {"neighbour": name, "prefix": p, "consumer": have, "maximal_in_model": sorted(best)})
                    elif sorted(tuple(v) for v in k.all.get(p, {}).values()) != elig:
                        bad = ("c06.manager_fold_all", {"neighbour": name, "prefix": p, "consumer": sorted(k.all.get(p, {}).values()),
                                                        "eligible_in_model": elig})
                    if bad:
                        break
                if bad:
                    break
            if bad:
                skip = True
                sig = (bad[0], e["op"]["k"])
                if sig not in seen:
                    seen.add(sig)
                    c.violation(bad[0], dict(bad[1], op=e["op"], why="a registered neighbour folding the stream the TableManager fans "
                                             "out holds something else than the RIB"), {"spec": "Rib", "config": cfg.describe(), "ops": hist})
    c.cov["parts"]["manager"] = {"behaviours": nb, "steps": nsteps}
    c.cov["evaluations"] += nsteps
    c.cov["traces_validated_against_impl"] += nb


def main(c):
    thorough = c.tier == "thorough"
    design = [Cfg("v1", ["p1", "p2"], ["a1", "a2", "b1"], {"A": [0], "B": [0]}, ["c1", "c3"], ["n1", "n2"], filt=(False,),
                  ops=NO_LLGR)]
    edge = [Cfg("ve", ["p1", "p2"], ["a1", "b1"], {"A": [0], "B": [0]}, ["c1"], ["n1"], filt=(False, True),
                ops=["insert", "remove", "drop", "nhflip", "startdef", "enddef"])]
    walks = [
        Cfg("w1", ["p1", "p2"], ["a1", "a2", "b1"], {"A": [0, 1], "B": [0]}, ["c1", "c2", "c3", "cN"], ["n1", "n2"],
            filt=(False, True)),
        Cfg("w2", ["p1", "p2", "p3"][:2], ["a1", "a2", "b1", "c1"], {"A": [0, 1], "B": [0, 1], "C": [0]}, ["c1", "c3", "cL"],
            ["n1", "n2", "n3"], filt=(False, True)),
        # focused behaviours (few operation kinds: long chains of one mechanism become likely): a peer that goes stale / LLGR-stale,
        # comes back on a new session, re-announces part of what it had under the same or other path ids, and is purged
        Cfg("w3", ["p1", "p2"], ["a1", "a2", "b1"], {"A": [0, 1], "B": [0]}, ["c1", "c3", "cN", "cL"], ["n1", "n2"], filt=(False, True),
            ops=["insert", "remove", "markllgr", "dropllgr"]),
        Cfg("w4", ["p1", "p2"], ["a1", "a2", "b1"], {"A": [0, 1], "B": [0]}, ["c1", "c2", "c3"], ["n1", "n2"], filt=(False, True),
            ops=["insert", "remove", "markstale", "dropstale", "nhflip"]),
    ]
    if thorough:
        design += [
            Cfg("v2", ["p1", "p2"], ["a1", "a2", "b1"], {"A": [0], "B": [0]}, ["c1", "c3"], ["n1"], filt=(False, True)),
            Cfg("v3", ["p1"], ["a1", "a2", "b1"], {"A": [0, 1], "B": [0]}, ["c1", "c2", "cN"], ["n1", "n2"], filt=(False, True)),
        ]
    ribcheck.run(c, "C06", ("c06.",), design, walks, INV, nwalks=4000 if thorough else 600, depth=50, edge_cfgs=edge)
    if not os.environ.get("VERIF_REPLAY"):
        manager_binding(c, thorough)
    c.assumptions += [
        "consumers are the two documented ones: the best-path consumer skips notifications without best_changed, the add-path "
        "consumer those without any_changed and re-reads a path only when it is new or named by replaced_path_id",
        "selection deferral is started on an empty table only (the daemon arms it at start-up); see DESIGN 5 C06",
        "the LLGR_STALE marking of an already advertised path is an export matter (C01/C09), not part of the path identity here",
    ]
