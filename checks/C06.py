"""C06 - The RIB's change stream reproduces the RIB: no best/add-path change is missed."""
import ribcheck
from ribcheck import Cfg, NO_DEFER, NO_LLGR, ALL_OPS

LEVEL = "model_checking"
INV = ["ViewsMatch", "IdsOK", "KeysOK"]


def main(c):
    thorough = c.tier == "thorough"
    design = [Cfg("v1", ["p1", "p2"], ["a1", "a2", "b1"], {"A": [0], "B": [0]}, ["c1", "c3"], ["n1", "n2"], filt=(False,),
                  ops=NO_LLGR)]
    edge = [Cfg("ve", ["p1", "p2"], ["a1", "b1"], {"A": [0], "B": [0]}, ["c1"], ["n1"], filt=(False, True),
                ops=["insert", "remove", "drop", "nhflip", "startdef", "enddef"])]
    walks = [
        Cfg("w1", ["p1", "p2"], ["a1", "a2", "b1"], {"A": [0, 1], "B": [0]}, ["c1", "c2", "c3", "cN"], ["n1", "n2"],
            filt=(False, True)),
        Cfg("w2", ["p1", "p2", "p3"][:2], ["a1", "a2", "b1", "c1"], {"A": [0, 1], "B": [0, 1], "C": [0]}, ["c1", "c3", "cL"],
            ["n1", "n2", "n3"], filt=(False, True)),
    ]
    if thorough:
        design += [
            Cfg("v2", ["p1", "p2"], ["a1", "a2", "b1"], {"A": [0, 1], "B": [0]}, ["c1", "c3"], ["n1"], filt=(False, True)),
            Cfg("v3", ["p1"], ["a1", "a2", "b1"], {"A": [0, 1], "B": [0]}, ["c1", "c2", "cN"], ["n1", "n2"], filt=(False, True)),
        ]
    ribcheck.run(c, "C06", ("c06.",), design, walks, INV, nwalks=4000 if thorough else 600, depth=50, edge_cfgs=edge)
    c.assumptions += [
        "consumers are the two documented ones: the best-path consumer skips notifications without best_changed, the add-path "
        "consumer those without any_changed and re-reads a path only when it is new or named by replaced_path_id",
        "selection deferral is started on an empty table only (the daemon arms it at start-up); see DESIGN 5 C06",
        "the LLGR_STALE marking of an already advertised path is an export matter (C01/C09), not part of the path identity here",
    ]
