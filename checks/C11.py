"""C11 - Restarting speaker selects nothing until all helpers sent EOR or the timer fires.

1. design: TLC exhausts Deferral.tla (machine + driver glue + held/announced prefixes) for several GR configurations;
2. spec -> impl: every transition of the machine part replayed on the real gr::RestartingDeferral (complete pi);
3. table half: model behaviours of Rib.tla with selection deferral executed on the real table::Table - no notification
   with paths may appear while deferring, and ending the deferral announces every held prefix exactly once;
4. driver glue (process_restarting_outputs / Global.selection_deferral): event.rs harness."""
import json
import os

import ribcheck
import riblib
import vf
from ribcheck import Cfg

LEVEL = "model_checking"
SPEC = os.path.join(vf.ROOT, "spec", "Deferral")
INVS = ["TypeOK", "FlagIffPending", "EndsOnlyWhenDone", "NoPendingMeansCompleted", "HeldBack", "EndAnnouncesOnce",
        "TimerOnlyDeferring"]

PEERS = ["A", "B", "C"]
CONFIGS = {
    "g1": {"fams": ["v4", "v6"], "gr": {"A": ["v4", "v6"], "B": ["v4"], "C": []}},
    "g2": {"fams": ["v4", "v6"], "gr": {"A": ["v4"], "B": ["v6"], "C": ["v4", "v6"]}},
    "g3": {"fams": ["v4", "v6", "vpn4"], "gr": {"A": ["v4", "v6", "vpn4"], "B": ["v6", "vpn4"], "C": ["v4"]}},
    "g0": {"fams": ["v4"], "gr": {"A": [], "B": [], "C": []}},
}
PFX = {"v4": ["x1", "x2"], "v6": ["y1"], "vpn4": ["z1"]}


def materialise(name, k, spec, invs, base):
    d = os.path.join(vf.WORK, "deferral", f"{name}-{spec}")
    os.makedirs(d, exist_ok=True)
    for f in ("Deferral.tla", "DeferralMC.tla", "DeferralMCR.tla"):
        with open(os.path.join(SPEC, f)) as src, open(os.path.join(d, f), "w") as dst:
            dst.write(src.read())
    ts = riblib.tset
    gr = " [] ".join(f'p = "{p}" -> {ts(k["gr"][p])}' for p in PEERS)
    pf = " [] ".join(f'f = "{f}" -> {ts(PFX[f])}' for f in k["fams"])
    with open(os.path.join(d, f"MC_{name}.tla"), "w") as f:
        f.write(f"---- MODULE MC_{name} ----\nEXTENDS {base}\n"
                f"cGr == [p \\in {ts(PEERS)} |-> CASE {gr}]\n"
                f"cPfx == [f \\in {ts(k['fams'])} |-> CASE {pf}]\n====\n")
    cfgp = os.path.join(d, "run.cfg")
    with open(cfgp, "w") as f:
        f.write(f"CONSTANTS\n  Peer = {ts(PEERS)}\n  Fam = {ts(k['fams'])}\n  GrCfg <- cGr\n  Pfx <- cPfx\n"
                f"SPECIFICATION {spec}\nINVARIANTS {' '.join(invs)}\nCHECK_DEADLOCK FALSE\n")
    return d, f"MC_{name}", cfgp


def op_line(op):
    fs = lambda x: ",".join(sorted(x)) if x else "-"
    if op["k"] == "est":
        return f"d est {op['p']} {fs(op['fams'])}"
    if op["k"] == "eor":
        return f"d eor {op['p']} {op['f']}"
    if op["k"] == "withdrawn":
        return f"d withdrawn {op['p']}"
    return "d timer"


def norm_state(st):
    return {"st": st["st"], "pending": {p: sorted(v) for p, v in st["pending"].items()}}


def norm_obs(o):
    return {"complete": sorted(o["complete"]), "start": o["start"], "end": o["end"], "rest": sorted(o["rest"])}


def main(c):
    names = ["g1", "g0"] if c.tier != "thorough" else list(CONFIGS)
    runs = []
    for name in names:
        k = CONFIGS[name]
        d, m, cfgp = materialise(name, k, "Spec", INVS, "Deferral")
        r = vf.tlc(d, m, cfgp, workers=8, timeout=900)
        c.add_tlc("design-" + name, r)
        if r.violated:
            c.violation("design", {"invariant": r.violated, "config": k, "tlc": r.error_text[:3000]},
                        {"spec": "Deferral", "config": k, "counterexample": r.error_text[:20000]})
            continue
        d, m, cfgp = materialise(name, k, "GenSpec", ["EmitEdge"], "DeferralMC")
        r = vf.tlc(d, m, cfgp, workers=4, timeout=600, want_edges=True)
        edges = r.edges
        if not edges:
            continue
        init = None
        for e in edges:
            if not e["pre"]["timer"] and e["pre"]["st"] in ("Awaiting",) and \
                    all(sorted(e["pre"]["pending"][p]) == sorted(k["gr"][p]) for p in PEERS):
                init = vf.canon(e["pre"])
                break
        if init is None:
            init = vf.canon(edges[0]["pre"])
        seqs, covered, total = vf.cover_sequences(edges, init_key=init, max_len=40)
        runs.append((name, k, edges, seqs))
        c.cov["parts"]["edges-" + name] = {"model_transitions": total, "covered": covered, "sequences": len(seqs)}
    if c.violations:
        return
    # replay on the real RestartingDeferral
    inp = os.path.join(vf.WORK, "C11.gr.in")
    outp = os.path.join(vf.WORK, "C11.gr.out")
    index = {}
    with open(inp, "w") as f:
        for name, k, edges, seqs in runs:
            for si, seq in enumerate(seqs):
                sid = f"{name}/{si}"
                index[sid] = (name, k, edges, seq)
                conf = " ".join(f"{p}={','.join(k['gr'][p]) if k['gr'][p] else '-'}" for p in PEERS)
                f.write(f"dseq {sid} {conf}\n")
                for ei in seq:
                    f.write(op_line(edges[ei]["op"]) + "\n")
    if os.path.exists(outp):
        os.remove(outp)
    rc, out = vf.daemon_test("gr::verif_harness::replay", env={"VERIF_IN": inp, "VERIF_OUT": outp})
    if rc != 0 or not os.path.exists(outp):
        raise vf.ToolError(f"gr harness failed rc={rc}:\n{out[-3000:]}")
    got = {(j["seq"], j["step"]): j for j in vf.read_jsonl(outp)}
    compared = 0
    nontrivial = 0
    for sid, (name, k, edges, seq) in index.items():
        j0 = got[(sid, 0)]
        allf = sorted({f for p in PEERS for f in k["gr"][p]})
        if sorted(j0["obs"]["defer"]) != allf:
            c.violation("obs", {"what": "families deferred at start", "expected": allf, "actual": j0["obs"]["defer"]},
                        {"spec": "Deferral", "config": k, "steps": []})
        for i, ei in enumerate(seq, start=1):
            e = edges[ei]
            j = got.get((sid, i))
            if j is None:
                raise vf.ToolError(f"no harness record for {sid} step {i}")
            compared += 1
            detail = None
            if norm_state(j["state"]) != norm_state(e["post"]):
                detail = {"kind": "state", "step": i, "op": e["op"], "expected": norm_state(e["post"]),
                          "actual": norm_state(j["state"])}
            elif norm_obs(j["obs"]) != norm_obs(e["obs"]):
                detail = {"kind": "obs", "step": i, "op": e["op"], "expected": norm_obs(e["obs"]),
                          "actual": norm_obs(j["obs"])}
            if detail:
                c.violation(detail["kind"], detail, {"spec": "Deferral", "config": k,
                                                     "steps": [op_line(edges[x]["op"]) for x in seq[:i]]})
                break
    for name, k, edges, seqs in runs:
        nontrivial += sum(1 for e in edges if e["pre"] != e["post"] or any(e["obs"][x] for x in ("complete", "start", "end", "rest")))
        if seqs:
            c.sample({"config": name, "ops": [op_line(edges[i]["op"]) for i in seqs[0][:10]]})
    c.cov["evaluations"] = compared
    c.cov["distinct_nontrivial"] = nontrivial
    c.cov["traces_validated_against_impl"] = sum(len(s) for _, _, _, s in runs)
    # table half
    thorough = c.tier == "thorough"
    walks = [Cfg("d1", ["p1", "p2"], ["a1", "a2", "b1"], {"A": [0, 1], "B": [0]}, ["c1", "c3"], ["n1", "n2"],
                 filt=(False, True)),
             Cfg("d2", ["p1", "p2"], ["a1", "b1"], {"A": [0], "B": [0]}, ["c1", "cN"], ["n1"], filt=(False,),
                 ops=["insert", "remove", "drop", "markstale", "dropstale", "nhflip", "startdef", "enddef"])]
    ev, dn = c.cov["evaluations"], c.cov["distinct_nontrivial"]
    tv = c.cov["traces_validated_against_impl"]
    ribcheck.run(c, "C11", ("c11.",), [], walks, [], nwalks=3000 if thorough else 500, depth=40,
                 edge_cfgs=[Cfg("de", ["p1"], ["a1", "b1"], {"A": [0], "B": [0]}, ["c1"], ["n1", "n2"], filt=(False, True),
                                ops=["insert", "remove", "drop", "nhflip", "startdef", "enddef"])])
    c.cov["evaluations"] += ev
    c.cov["distinct_nontrivial"] += dn
    c.cov["traces_validated_against_impl"] += tv
    c.cov["exhaustive"] = False
    c.cov["rule"] = ("machine: every transition of Deferral.tla's machine part replayed on the real RestartingDeferral (exhaustive); "
                     "tables: Rib.tla behaviours with start/end deferral replayed on table::Table (edge cover of a small "
                     "configuration + random walks); non-trivial = the step changes state or emits an output")
    c.assumptions += [
        "pi for RestartingDeferral = (state name, pending map); the machine has no other state",
        "'held back' is read as: while a family is deferring no change notification with a non-empty path list is emitted for it",
    ]
    import drvlib
    drvlib.deferral_glue(c)
