"""C13 - The installed VRPs always equal what the RPKI cache has announced so far.

1. design: TLC exhausts RtrClient.tla (client + conforming cache + a second cache's VRPs) under the C13 invariants;
2. spec -> impl: every transition of the model replayed on the real RpkiClient::serve_inner over tokio::io::duplex, each PDU
   written in the fragments the model chose; after every step the VRPs installed per cache are compared, and every
   well-formed PDU (including a Router Key PDU the client does not use) must be consumed."""
import json
import os

import vf

LEVEL = "model_checking"
SPEC = os.path.join(vf.ROOT, "spec", "RtrClient")
INVS = ["InstalledEqualsAnnounced", "IncrementalTracks", "OtherCacheUntouched", "GoneWhenDown"]


def cfg(name, cuts, rounds, spec, invs):
    d = os.path.join(vf.WORK, "cfg")
    os.makedirs(d, exist_ok=True)
    p = os.path.join(d, name)
    with open(p, "w") as f:
        f.write("CONSTANTS\n  V = {\"v1\", \"v2\", \"v3\"}\n"
                f"  Cuts = {{{', '.join(str(x) for x in cuts)}}}\n  MaxRounds = {rounds}\n"
                f"SPECIFICATION {spec}\nINVARIANTS {' '.join(invs)}\nCHECK_DEADLOCK FALSE\n")
    return p


def line(op):
    k = op["k"]
    if k in ("announce", "withdraw"):
        return f"{k} {op['v']} {op['cut']}"
    if k == "end":
        return f"end {op['how']}"
    return f"{k} {op['cut']}"


def main(c):
    thorough = c.tier == "thorough"
    cuts = [0, 3, 9] if not thorough else [0, 1, 3, 7, 8, 9, 15]
    rounds = 3 if not thorough else 4
    r = vf.tlc(SPEC, "RtrClient", cfg("C13.design.cfg", cuts, rounds, "Spec", INVS), workers=4, timeout=600)
    c.add_tlc("design", r)
    if r.violated:
        c.violation("design", {"invariant": r.violated, "tlc": r.error_text[:3000]}, {"spec": "RtrClient"})
        return
    g = vf.tlc(SPEC, "RtrClientMC", cfg("C13.gen.cfg", cuts, rounds, "GenSpec", ["EmitEdge"]), workers=2, timeout=600,
               want_edges=True)
    edges = g.edges
    init = None
    for e in edges:
        p = e["pre"]
        if p["up"] and not p["eod"] and not p["buf"] and not p["inst"] and p["cst"] == "idle" and p["first"] and p["rounds"] == 0:
            init = vf.canon(p)
            break
    # the part of the graph behind a Reset Query is reachable only with a client that asks one; it gets sequences of its own, so
    # that a client that does not ask (those sequences end at that step) still has every other transition replayed
    behind = [i for i, e in enumerate(edges) if e["op"]["k"] == "cacheresetq" or (e["pre"]["first"] and e["pre"]["rounds"] > 0)]
    front = [i for i in range(len(edges)) if i not in set(behind)]
    seqs, covered, total = vf.cover_sequences(edges, init_key=init, max_len=30, targets=front)
    if covered != len(front):
        raise vf.ToolError(f"edge cover incomplete {covered}/{len(front)}")
    seqs_b, covered_b, _ = vf.cover_sequences(edges, init_key=init, max_len=30, targets=behind)
    seqs = seqs + seqs_b
    total = len(edges)
    inp = os.path.join(vf.WORK, "C13.in")
    outp = os.path.join(vf.WORK, "C13.out")
    with open(inp, "w") as f:
        for si, seq in enumerate(seqs):
            f.write(f"seq r{si}\n")
            for ei in seq:
                f.write(line(edges[ei]["op"]) + "\n")
    if os.path.exists(outp):
        os.remove(outp)
    rc, out = vf.daemon_test("rpki::verif_harness::replay", env={"VERIF_IN": inp, "VERIF_OUT": outp}, timeout=3000)
    if rc != 0 or not os.path.exists(outp):
        raise vf.ToolError(f"rpki harness failed rc={rc}:\n{out[-3000:]}")
    got = {(j["seq"], j["step"]): j for j in vf.read_jsonl(outp)}
    steps = 0
    not_taken = {}
    for si, seq in enumerate(seqs):
        for i, ei in enumerate(seq, start=1):
            e = edges[ei]
            j = got.get((f"r{si}", i))
            if j is None:
                raise vf.ToolError(f"no record for r{si} step {i}")
            steps += 1
            detail = None
            post = e["post"]
            real = j["state"]
            if "variant-not-taken" in j["note"]:
                not_taken[e["op"]["k"]] = not_taken.get(e["op"]["k"], 0) + 1
                break                 # this client answers a Cache Reset the other way: the rest of the sequence is not its behaviour
            if "not processed" in j["note"] or "no progress" in j["note"] or "did not stop" in j["note"]:
                detail = {"kind": "rtr.progress", "note": j["note"]}
            elif sorted(real["other"]) != ["v1", "v2", "v3"]:
                detail = {"kind": "rtr.other_cache", "other": real["other"]}
            elif not real["twin"]:
                detail = {"kind": "rtr.other_cache", "what": "the VRP of a cache running on the same address (another port) is gone"}
            elif sorted(real["inst"]) != sorted(post["inst"]):
                detail = {"kind": "rtr.installed", "expected": sorted(post["inst"]), "actual": sorted(real["inst"]),
                          "announced_so_far": sorted(post["ann"])}
            elif real["up"] != post["up"]:
                detail = {"kind": "rtr.up", "expected": post["up"], "actual": real["up"]}
            if detail:
                detail.update({"step": i, "op": e["op"]})
                c.violation(detail["kind"], detail, {"spec": "RtrClient", "steps": [line(edges[x]["op"]) for x in seq[:i]]})
                break
    c.cov["evaluations"] = steps
    c.cov["distinct_nontrivial"] = sum(1 for e in edges if e["pre"] != e["post"])
    c.cov["traces_validated_against_impl"] = len(seqs)
    c.cov["exhaustive"] = True
    if len(not_taken) > 1:
        c.violation("rtr.cache_reset", {"what": "the client answers a Cache Reset sometimes with a Reset Query and sometimes not", "seen": not_taken},
                    {"spec": "RtrClient"})
    c.cov["parts"]["cache_reset_variant"] = {"sequences_ended_because_the_client_does_the_other_thing": not_taken}
    c.cov["parts"]["replay"] = {"model_transitions": total, "sequences": len(seqs), "steps_replayed": steps, "cuts": cuts}
    c.cov["rule"] = ("every transition of RtrClient.tla (PDU type x fragmentation point x client/cache state) replayed on the real "
                     "serve_inner; non-trivial = the transition changes the model state")
    c.sample({"ops": [line(edges[i]["op"]) for i in seqs[0][:12]]})
    import drvlib
    drvlib.rtr_operator_ends(c)
    if not c.violations:
        drvlib.atomicity(c, "C13", "vrps")
    c.assumptions += ["the cache is conforming (RFC 8210 sequencing); a PDU counts as processed when the client's per-type "
                      "counter advances, a PDU type without counter when a following Serial Notify is processed",
                      "Cache Reset is modelled as having no table effect (the client takes no action on it)"]
