"""Xbfd - extra check beyond the listed properties: daemon/src/bfd.rs next_state against the RFC 5880 6.8.6 table (Bfd.tla)."""
import json
import os

import vf

LEVEL = "exploration"
SPEC = os.path.join(vf.ROOT, "spec", "Bfd")
# the one cell where the implementation knowingly departs from the RFC table: a local AdminDown session does not discard
# packets (the daemon never puts a session into AdminDown itself, so the cell is unreachable); reported as information only
UNREACHABLE = {"AdminDown"}


def main(c):
    r = vf.tlc(SPEC, "BfdMC", os.path.join(SPEC, "q.cfg"), workers=1, timeout=300, want_edges=True)
    c.add_tlc("table", r)
    if r.violated:
        c.violation("design", {"invariant": r.violated}, {"spec": "Bfd"})
        return
    cases = sorted(r.edges, key=vf.canon)
    inp = os.path.join(vf.WORK, "Xbfd.in")
    outp = os.path.join(vf.WORK, "Xbfd.out")
    with open(inp, "w") as f:
        for e in cases:
            f.write(f"{e['cur']} {e['rem']}\n")
    rc, out = vf.daemon_test("bfd::verif_harness::bfd_replay", env={"VERIF_IN": inp, "VERIF_OUT": outp}, timeout=600)
    if rc != 0 or not os.path.exists(outp):
        raise vf.ToolError(f"bfd_replay failed rc={rc}: {out[-2000:]}")
    got = vf.read_jsonl(outp)
    info = []
    for e, g in zip(cases, got):
        if g["next"] != e["next"]:
            if e["cur"] in UNREACHABLE:
                info.append(f"{e['cur']} x {e['rem']}: RFC {e['next']}, implementation {g['next']} (local AdminDown is never entered)")
                continue
            c.violation("bfd.table", {"current": e["cur"], "remote": e["rem"], "rfc": e["next"], "actual": g["next"]}, {"spec": "Bfd", "case": e})
    c.cov["parts"]["unreachable_cells"] = info
    c.cov["evaluations"] = len(cases)
    c.cov["distinct_nontrivial"] = len(cases)
    c.cov["exhaustive"] = True
    c.cov["rule"] = "all 16 (current, remote) state pairs"
    c.sample(cases[5])
