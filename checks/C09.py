"""C09 - Routes are propagated only where BGP allows, with correctly rewritten attributes.

Function-style specification Propagation.tla: the finite matrix source kind x receiver role x confederation x AS_PATH shape x
attribute presence x LLGR-stale x same-peer with, per case, what the statement requires (`Expected`).  TLC enumerates the matrix
completely, checks the table's internal consistency and prints every case; each case is executed on the real
process_nlri_change (plain and add-path branch) with a recording sink and compared field by field.  Inbound loop rejection
(AS_PATH loop, ORIGINATOR_ID, CLUSTER_LIST) is replayed end-to-end on a real session."""
import json
import os

import vf

LEVEL = "exploration"
SPEC = os.path.join(vf.ROOT, "spec", "Propagation")
ATTRS = ["LP", "MED", "OID", "CL", "AIGP", "UT", "UN"]


def tsets(sets):
    return "{" + ", ".join("{" + ", ".join(f'"{a}"' for a in s) + "}" for s in sets) + "}"


def cfg(name, hassets, invs, polsets=((), ("LP", "MED"), tuple(ATTRS))):
    d = os.path.join(vf.WORK, "cfg")
    os.makedirs(d, exist_ok=True)
    p = os.path.join(d, name)
    hs = tsets(hassets)
    with open(p, "w") as f:
        f.write(f"CONSTANTS\n  HasSets = {hs}\n  PolHasSets = {tsets(polsets)}\nSPECIFICATION Spec\nINVARIANTS {' '.join(invs)}\nCHECK_DEADLOCK FALSE\n")
    return p


def hassets(thorough):
    if thorough:
        out = []
        for m in range(1 << len(ATTRS)):
            out.append([a for i, a in enumerate(ATTRS) if m >> i & 1])
        return out
    return [[], ATTRS, ["LP", "MED"], ["OID", "CL"], ["UT", "UN"], ["AIGP", "LP"]] + [[a] for a in ATTRS]


def main(c):
    thorough = c.tier == "thorough"
    hs = hassets(thorough)
    r = vf.tlc(SPEC, "PropagationMC", cfg("C09.cfg", hs, ["Consistent", "Emit"]), workers=4, timeout=1500)
    c.add_tlc("matrix", r)
    if r.violated:
        c.violation("design", {"invariant": r.violated, "tlc": r.error_text[:3000]}, {"spec": "Propagation"})
        return
    cases = []
    for ln in r.stdout.splitlines():
        if ln.startswith('"{'):
            j = json.loads(json.loads(ln))
            if "inbound" in j:        # constant-level definition, printed once when TLC starts
                c.inbound_cases = j["inbound"]
            else:
                cases.append(j)
    if not cases:
        raise vf.ToolError("no cases emitted")
    inp = os.path.join(vf.WORK, "C09.prop.in")
    outp = os.path.join(vf.WORK, "C09.prop.out")
    with open(inp, "w") as f:
        for j in cases:
            k = j["case"]
            f.write(f"case {k['src']} {k['dst']} {1 if k['confed'] else 0} {k['asp']} {','.join(k['has']) if k['has'] else '-'} "
                    f"{1 if k['llgr'] else 0} {1 if k['same'] else 0} {k['pol']}\n")
    if os.path.exists(outp):
        os.remove(outp)
    rc, out = vf.daemon_test("event::verif_harness::prop_replay", env={"VERIF_IN": inp, "VERIF_OUT": outp}, timeout=3000)
    if rc != 0 or not os.path.exists(outp):
        raise vf.ToolError(f"prop_replay failed rc={rc}:\n{out[-3000:]}")
    got = {j["i"]: j for j in vf.read_jsonl(outp)}
    nontrivial = 0
    fails = {}
    for i, j in enumerate(cases):
        k, e, com = j["case"], j["exp"], j["common"]
        g = got.get(i)
        if g is None:
            raise vf.ToolError(f"no result for case {i}")
        if e["sent"]:
            nontrivial += 1
        for branch in ("plain", "addpath", "addpath_companion"):
            bad = []
            if g.get("panic"):
                bad.append("panic")
            else:
                a = g[branch]
                if a["sent"] != e["sent"]:
                    bad.append(f"sent: expected {e['sent']} got {a['sent']}")
                elif e["sent"]:
                    if e["asp"] != "any" and [[s["t"], s["n"]] for s in e["asp"]] != a["asp"]:
                        bad.append(f"AS_PATH: expected {[[s['t'], s['n']] for s in e['asp']]} got {a['asp']}")
                    if e["first"] != "any":
                        want = 64512 if e["first"] == "confed_id" else 65001
                        if a["first"] != want:
                            bad.append(f"first AS: expected {want} got {a['first']}")
                    for x in e["absent"]:
                        if x in a["present"]:
                            bad.append(f"{x} must not be sent")
                    for x in e["present"]:
                        if x not in a["present"]:
                            bad.append(f"{x} must be present")
                    if e["medval"] == "policy" and a["med"] != 777:
                        bad.append(f"MED: the export policy sets 777, sent {a['med']}")
                    if e["comm"] == "policy":
                        want = sorted([(65000 << 16) | 1] + ([0xFFFF0006] if com["llgrStale"] else []))
                        if a["comm"] != want:
                            bad.append(f"communities: expected {want} got {a['comm']}")
                    if e["nexthop"] != "any" and a["nexthop"] != e["nexthop"]:
                        bad.append(f"next hop: expected {e['nexthop']} got {a['nexthop']}")
                    if e["oid"] != "any" and a["oid"] != e["oid"]:
                        bad.append(f"ORIGINATOR_ID: expected {e['oid']} got {a['oid']}")
                    if e["cl"] != "any" and a["cl"] != e["cl"]:
                        bad.append(f"CLUSTER_LIST: expected {e['cl']} got {a['cl']}")
                    if "UT" in a["present"] and com["utPartial"] and not a["utPartial"]:
                        bad.append("unknown transitive attribute forwarded without Partial")
                    if com["llgrStale"] != a["llgrStale"]:
                        bad.append(f"LLGR_STALE community: expected {com['llgrStale']} got {a['llgrStale']}")
            if bad:
                sig = bad[0].split(":")[0] + "|" + k["src"] + ">" + k["dst"]
                if sig not in fails:
                    fails[sig] = True
                    c.violation("prop." + bad[0].split(":")[0].replace(" ", "_"),
                                {"case": k, "branch": branch, "failed": bad, "expected": e, "actual": g.get(branch)},
                                {"spec": "Propagation", "case": k, "branch": branch})
    c.cov["evaluations"] = 3 * len(cases)
    c.cov["distinct_nontrivial"] = nontrivial
    c.cov["exhaustive"] = True
    c.cov["rule"] = ("every case of the matrix (source kind x receiver role x confederation x AS_PATH shape x attribute-presence vector "
                     f"[{len(hs)} vectors] x LLGR-stale x same-peer x export policy [none; for 3 vectors also next-hop / MED / community-replace "
                     f"actions]), both export branches, the ADD-PATH one also with a locally originated companion path ranked first; non-trivial = the statement requires the route to be sent")
    c.sample(cases[len(cases) // 3])
    c.assumptions += [
        "fields the statement leaves open are not compared: everything but the opaque-attribute rule for RS clients (RFC 7947 "
        "transparency vs the eBGP clause), next hop / MED of locally originated routes",
        "iBGP sessions always carry a cluster id (accept_connection defaults it to the router id), so reflection applies to every "
        "iBGP-learned route sent to an iBGP peer that split horizon lets through",
    ]
    import drvlib
    drvlib.inbound_loops(c)
    drvlib.llgr_marking(c)
