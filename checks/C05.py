"""C05 - A malformed UPDATE never installs a route; the session resets only if it must.

Rfc7606.tla is the reference table (function-style): base message x peer kind x AS width x attribute type x corruption kind
(x an optional second corrupted attribute) -> the set of outcomes the statement allows.  TLC enumerates the matrix and checks
the table's internal consistency; every case is materialised as UPDATE bytes and run through the real
PeerCodec::try_parse -> validate_message; the fate of the announced prefix, of the withdrawn prefix and of the faulty
attribute is compared with the table.  Panics are violations."""
import json
import os

import vf

LEVEL = "exploration"
SPEC = os.path.join(vf.ROOT, "spec", "Rfc7606")


def cfg(name, pairs, invs):
    d = os.path.join(vf.WORK, "cfg")
    os.makedirs(d, exist_ok=True)
    p = os.path.join(d, name)
    with open(p, "w") as f:
        f.write(f"CONSTANTS\n  Pairs = {pairs}\nSPECIFICATION Spec\nINVARIANTS {' '.join(invs)}\nCHECK_DEADLOCK FALSE\n")
    return p


def main(c):
    pairs = "TRUE"
    r = vf.tlc(SPEC, "Rfc7606MC", cfg("C05.cfg", pairs, ["Sane", "Emit"]), workers=4, timeout=1500)
    c.add_tlc("cases", r)
    if r.violated:
        c.violation("design", {"invariant": r.violated, "tlc": r.error_text[:3000]}, {"spec": "Rfc7606"})
        return
    cases = []
    for ln in r.stdout.splitlines():
        if ln.startswith('"{'):
            cases.append(json.loads(json.loads(ln)))
    cases.sort(key=vf.canon)
    inp = os.path.join(vf.WORK, "C05.in")
    outp = os.path.join(vf.WORK, "C05.out")
    with open(inp, "w") as f:
        for j in cases:
            f.write(json.dumps(j) + "\n")
    c.sample(cases[len(cases) // 2])
    outcomes = {}
    for profile in (("dev",) if c.tier == "quick" else ("dev", "release")):
        rc, so, se = vf.lib_run("update_replay", [inp, outp], timeout=1200, profile=profile)
        if rc != 0:
            raise vf.ToolError(f"update_replay failed rc={rc}: {se[-2000:]}")
        seen = set()
        for j in vf.read_jsonl(outp):
            case = cases[j["i"]]
            x = case["case"]
            res = j["res"]
            out = res["outcome"]
            outcomes[out] = outcomes.get(out, 0) + 1
            bad = None
            if out == "reset":
                if not case["reset_ok"]:
                    bad = "needless_reset"
            elif out == "withdraw":
                if not case["withdraw_ok"]:
                    bad = "valid_route_withdrawn"
            elif out == "installed":
                if not case["install_ok"]:
                    bad = "installed"
                elif res["present1"] and not case["keep1"]:
                    bad = "faulty_attr_believed"
                elif not res["present1"] and not case["drop1"]:
                    bad = "attr_lost"
                elif x["attr2"] != "none" and res["present2"] and not case["keep2"]:
                    bad = "faulty_attr_believed"
                elif x["attr2"] != "none" and not res["present2"] and not case["drop2"]:
                    bad = "attr_lost"
            elif out == "ignored" and x["base"].startswith("only"):
                pass                # nothing was announced: there is nothing to install or to treat as withdrawn
            else:
                bad = out           # panic / ignored (neither installed nor withdrawn) / needmore
            if bad is None and out != "reset" and x["base"].endswith("_wd") and not res.get("withdrawals_applied"):
                bad = "withdrawals_lost"
            if bad is None and out == "installed" and x["peer"] == "ebgp" and res.get("ibgp_only_kept"):
                bad = "ibgp_only_believed"
            if bad is None:
                continue
            sig = (bad, x["attr"], x["corrupt"], x.get("attr2"), x.get("corrupt2"), out)
            if sig in seen:
                continue
            seen.add(sig)
            c.violation("c05." + bad, {"case": x, "table": {k: case[k] for k in case if k != "case"}, "got": res, "profile": profile},
                        {"spec": "Rfc7606", "case": case})
    c.cov["cases"] = len(cases)
    c.cov["outcomes"] = outcomes
    c.cov["distinct_nontrivial"] = len(cases)
    c.cov["evaluations"] = sum(outcomes.values())          # decoder + validator runs (per arithmetic profile)
    c.cov["exhaustive"] = True
    c.cov["rule"] = ("every meaningful (base in v4/v4+withdrawn/v6 MP_REACH/v6 MP_REACH+MP_UNREACH/both families in one UPDATE) x (eBGP, iBGP) x (2-octet, "
                     "4-octet AS) x 20 attribute types (incl. MP_REACH itself) x 10 corruption kinds" +
                     " x an optional second corrupted attribute (5 in-place corruption kinds)" +
                     "; distinct = distinct cases of Rfc7606.tla")
    if not c.violations:
        import drvlib
        ev, dn = c.cov["evaluations"], c.cov.get("distinct_nontrivial", 0)
        drvlib.ibgp_only_from_external(c)
        c.cov["distinct_nontrivial"] = dn
    c.assumptions += ["one announced prefix and at most one withdrawn prefix per message; IPv4 unicast (legacy NLRI) and IPv6 "
                      "unicast (MP_REACH/MP_UNREACH) only; confederation peers are treated as iBGP by validate_message (is_ebgp = false)",
                      "the RIB is not involved: 'installed' = a Reach for the announced prefix in validate_message's output "
                      "(PeerSession::rx_msg installs exactly those - bound by C09's inbound replay; which session kinds count as external is bound here, on real sessions of every kind)"]
