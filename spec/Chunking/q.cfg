CONSTANTS
  Limit = 12
  Overheads = {4, 9, 11}
  EntrySizes = {1, 2, 4}
  Resv = 2
  MaxN = 5
  Dev = {}
SPECIFICATION Spec
INVARIANTS FrameWithinLimit Partition Complete
CHECK_DEADLOCK FALSE
