------------------------------ MODULE Chunking ------------------------------
(***************************************************************************)
(* C04: splitting one UPDATE (a list of entries sharing an attribute       *)
(* block) into wire frames - PeerCodec::encode_to / do_encode.             *)
(*                                                                         *)
(* One action per do_encode call: EmitFrame(n) writes a frame with the     *)
(* next n entries.  The specification is nondeterministic in n (it does    *)
(* not prescribe how full a frame is) but requires: every frame within the *)
(* negotiated limit, at least one entry per frame, and - when not even one *)
(* entry fits behind the attribute block - a reported error, never a       *)
(* silent stop.  The frames of the real encoder are recorded and checked   *)
(* to be a behaviour of this specification.                                *)
(*                                                                         *)
(* Dev "FixedReservation": n is chosen as the implementation did - an      *)
(* entry is admitted while a fixed per-family reservation still fits,      *)
(* whatever the entry's real size.  Dev "SilentStop": no progress ends the *)
(* loop with success.                                                      *)
(***************************************************************************)
EXTENDS Naturals, Sequences, FiniteSets, TLC

CONSTANTS Limit, Overheads, EntrySizes, Resv, MaxN, Dev

VARIABLE s

SizeSeqs == UNION {[1..n -> EntrySizes] : n \in 0..MaxN}
RECURSIVE Sum(_, _, _)
Sum(q, a, b) == IF a > b THEN 0 ELSE q[a] + Sum(q, a + 1, b)

Init == \E q \in SizeSeqs, o \in Overheads :
          s = [sizes |-> q, ovh |-> o, start |-> 1, frames |-> <<>>, status |-> "running"]

N == Len(s.sizes)
FrameBytes(first, n) == s.ovh + Sum(s.sizes, first, first + n - 1)

\* how many entries the fixed-reservation rule admits from `first`
RECURSIVE Admit(_, _)
Admit(first, n) == IF first + n > N THEN n
                   ELSE IF FrameBytes(first, n) + Resv < Limit THEN Admit(first, n + 1) ELSE n

EmitFrame(n) ==
  /\ s.status = "running" /\ s.start <= N /\ n >= 1 /\ s.start + n - 1 <= N
  /\ IF "FixedReservation" \in Dev THEN n = Admit(s.start, 0) ELSE FrameBytes(s.start, n) <= Limit
  /\ s' = [s EXCEPT !.frames = Append(s.frames, [first |-> s.start, n |-> n, bytes |-> FrameBytes(s.start, n)]),
                    !.start = s.start + n]
\* nothing fits: the call fails (it must not report success)
Fail == /\ s.status = "running" /\ s.start <= N
        /\ IF "FixedReservation" \in Dev THEN Admit(s.start, 0) = 0 ELSE FrameBytes(s.start, 1) > Limit
        /\ s' = [s EXCEPT !.status = IF "SilentStop" \in Dev THEN "ok" ELSE "error"]
Finish == /\ s.status = "running" /\ s.start > N
          \* an UPDATE without entries is still one frame (End-of-RIB / attribute-only)
          /\ s' = [s EXCEPT !.status = "ok"]
Next == (\E n \in 1..MaxN : EmitFrame(n)) \/ Fail \/ Finish
Spec == Init /\ [][Next]_s

\* ---- the property -------------------------------------------------------------
FrameWithinLimit == \A i \in 1..Len(s.frames) : s.frames[i].bytes <= Limit
\* the frames are consecutive, non-empty slices from the first entry: nothing dropped, duplicated or reordered
Partition ==
  /\ \A i \in 1..Len(s.frames) : s.frames[i].n >= 1
                                 /\ s.frames[i].first = (IF i = 1 THEN 1 ELSE s.frames[i - 1].first + s.frames[i - 1].n)
  /\ s.start = (IF s.frames = <<>> THEN 1 ELSE s.frames[Len(s.frames)].first + s.frames[Len(s.frames)].n)
\* success means every entry went out
Complete == s.status = "ok" => s.start = N + 1
=============================================================================
