------------------------------ MODULE RibMC ------------------------------
\* TLC-only companion of Rib: transition emission (one TLC state per transition).
EXTENDS Rib, Json

VARIABLES pre, act

GenInit == Init /\ pre = s /\ act = [k |-> "init"]
GenNext == \E op \in Ops : /\ Enabled(s, op) /\ s' = Step(s, op) /\ act' = op /\ pre' = s
GenSpec == GenInit /\ [][GenNext]_<<s, pre, act>>

\* JSON-friendly projection: sets become sequences in a canonical order
RECURSIVE SeqOf(_)
SeqOf(S) == IF S = {} THEN <<>> ELSE LET x == CHOOSE y \in S : TRUE IN <<x>> \o SeqOf(S \ {x})

AnyP == CHOOSE p \in Prefix : TRUE
AnyNh == CHOOSE n \in NextHops : TRUE
\* decision key per (session, class) in this state (keys do not depend on rid / next hop)
Keys(st) == [x \in Sess |-> [c \in Cls |->
               FullKey(st, AnyP, [sess |-> x, rid |-> 0, cls |-> c, nh |-> AnyNh, filt |-> FALSE])]]

PJ(st) == [ent   |-> [p \in Prefix |-> SeqOf(st.ent[p])],
           keys  |-> Keys(st),
           best  |-> [p \in Prefix |-> SeqOf(BestSet(st, p))],
           ecmp  |-> [p \in Prefix |-> SeqOf(EcmpSet(st, p))],
           stale |-> st.stale, llgr |-> st.llgr, nhbad |-> SeqOf(st.nhbad),
           did   |-> st.did, stats |-> st.stats, cnt |-> st.cnt, defer |-> st.defer,
           closed |-> SeqOf(st.closed),
           \* C20: what replaying the FIB requests must yield, and the outstanding next-hop registrations
           fib   |-> [p \in Prefix |-> SeqOf(FibNh(st, p))],
           vfib  |-> [v \in Vrfs |-> [p \in VpnPfx |-> VrfMode(st, v, p)]],
           reg   |-> [n \in NextHops |-> Cardinality({<<p, e>> \in (Prefix \X UNION {st.ent[q] : q \in Prefix}) : e \in st.ent[p] /\ e.nh = n})]]

\* walk mode (tlc -simulate, one worker): consecutive lines form a behaviour
EmitWalk == \/ act.k = "init" /\ PrintT("INIT")
            \/ act.k # "init" /\
               PrintT(ToJson([lvl |-> TLCGet("level"), op |-> act, post |-> PJ(s), res |-> Out(pre, act).res]))

\* graph mode (exhaustive): every transition once, with its source state
EmitEdge == \/ act.k = "init"
            \/ PrintT(ToJson([pre |-> PJ(pre), op |-> act, post |-> PJ(s), res |-> Out(pre, act).res]))
=============================================================================
