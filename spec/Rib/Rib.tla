-------------------------------- MODULE Rib --------------------------------
(***************************************************************************)
(* One shard / one family of the RIB (`table::Table`): paths per prefix,   *)
(* per-source stale / LLGR-stale marks, next-hop reachability, destination *)
(* identifiers, the per-peer counters, the per-session prefix-limit        *)
(* counter, selection deferral, and the change notifications with the two  *)
(* consumers that fold them (best-path consumer, add-path consumer).       *)
(*                                                                         *)
(* Properties: C02 (ranking is maximal under the stated decision order and *)
(* depends only on the path set), C06 (folding the notifications gives the *)
(* exportable state; ids unique; end of deferral announces everything),    *)
(* C15 (counters equal a recount).                                         *)
(*                                                                         *)
(* The state is one record `s`; every public mutator of the table is one   *)
(* operation record and `Step` is a function (DESIGN 3.2).                 *)
(***************************************************************************)
EXTENDS Naturals, Sequences, FiniteSets, TLC

CONSTANTS
  Prefix,      \* set of prefixes
  Sess,        \* set of session names (a session = one `Source`)
  SessInfo,    \* [Sess -> [peer, ebgp, rtr, max, ord, idx]]  max = NoLimit: unlimited; ord: order of a peer's sessions; idx: unique
  Rids,        \* [peer -> set of remote path-ids that peer may use]
  Cls,         \* set of attribute-class names
  ClsInfo,     \* [Cls -> [lp, aslen, origin, clen, oid, llgrc, nollgr, mm]]
  NextHops,    \* set of next hops
  FiltVals,    \* subset of BOOLEAN: values of the `filtered` argument explored
  EvpnT2,      \* subset of Prefix holding EVPN type-2 routes (MAC mobility ahead of everything)
  OpKinds,     \* operation kinds explored in this configuration (all of them in the thorough tier)
  VpnPfx,      \* subset of Prefix holding VPN (RD-qualified) prefixes, installed per VRF (C20)
  Vrfs,        \* set of VRFs that have a kernel table
  VrfImport    \* [Vrfs -> set of route targets imported]; ClsInfo[c].rts = route targets a class carries

VARIABLE s

NoLimit == 1000000
Peers   == {SessInfo[x].peer : x \in Sess}
PeerOf(x) == SessInfo[x].peer
SessOf(p) == {x \in Sess : PeerOf(x) = p}

---------------------------------------------------------------------------
\* Paths and the decision order (C02)

\* a path: [sess, rid, cls, nh, filt]
Path == [sess : Sess, rid : Nat, cls : Cls, nh : NextHops, filt : BOOLEAN]

IsLlgr(st, e)  == st.llgr[e.sess] \/ ClsInfo[e.cls].llgrc
IsStale(st, e) == st.stale[e.sess]
Eligible(st, e) == ~e.filt /\ e.nh \notin st.nhbad

B2N(b) == IF b THEN 1 ELSE 0

\* Decision key, compared lexicographically, smaller is better.  Exactly the order
\* stated in C02: not-LLGR-stale, higher LOCAL_PREF, shorter AS_PATH, lower ORIGIN,
\* eBGP over iBGP/confed, not GR-stale, shorter CLUSTER_LIST, lower ORIGINATOR_ID /
\* router-id.  LOCAL_PREF is stored inverted (MaxLp - lp).
MaxLp == 1000
Key(st, e) ==
  LET c == ClsInfo[e.cls] IN
  << B2N(IsLlgr(st, e)), MaxLp - c.lp, c.aslen, c.origin, B2N(~SessInfo[e.sess].ebgp),
     B2N(IsStale(st, e)), c.clen, IF c.oid # 0 THEN c.oid ELSE SessInfo[e.sess].rtr >>

\* EVPN type-2: MAC-mobility sequence first (present beats absent, higher beats lower).
\* mm = 0 means "no MAC mobility community", mm = n+1 means sequence n.
MaxMm == 1000
FullKey(st, p, e) ==
  IF p \in EvpnT2 THEN << MaxMm - ClsInfo[e.cls].mm >> \o Key(st, e) ELSE << 0 >> \o Key(st, e)

RECURSIVE LexLess(_, _)
LexLess(a, b) ==
  IF a = <<>> THEN FALSE
  ELSE IF Head(a) < Head(b) THEN TRUE
  ELSE IF Head(a) > Head(b) THEN FALSE
  ELSE LexLess(Tail(a), Tail(b))

Better(st, p, a, b) == LexLess(FullKey(st, p, a), FullKey(st, p, b))
Tied(st, p, a, b)   == FullKey(st, p, a) = FullKey(st, p, b)

Elig(st, p) == {e \in st.ent[p] : Eligible(st, e)}

\* the set of best paths (all of them are acceptable as "the" best)
BestSet(st, p) == {e \in Elig(st, p) : \A f \in Elig(st, p) : ~Better(st, p, f, e)}

\* ECMP: tied with the best on every step before the router-id step
KeyNoRtr(st, p, e) == SubSeq(FullKey(st, p, e), 1, Len(FullKey(st, p, e)) - 1)
EcmpSet(st, p) == {e \in Elig(st, p) : \E b \in BestSet(st, p) : KeyNoRtr(st, p, e) = KeyNoRtr(st, p, b)}

\* C20, VRF clause: a VPN prefix is installed, with the same next-hop set, in the table of every VRF whose import
\* targets match the best path's route targets.  With several equally good best paths that differ in their route
\* targets either reading is acceptable ("may"); a VRF the best path does not match is not constrained by C20
\* ("none"); without an eligible path nothing may be left in any VRF ("empty").
VrfMatch(v, e) == ClsInfo[e.cls].rts \cap VrfImport[v] # {}
VrfMode(st, v, p) ==
  IF Elig(st, p) = {} THEN "empty"
  ELSE IF \A b \in BestSet(st, p) : VrfMatch(v, b) THEN "must"
  ELSE IF \E b \in BestSet(st, p) : VrfMatch(v, b) THEN "may"
  ELSE "none"
FibNh(st, p) == {e.nh : e \in EcmpSet(st, p)}

\* a canonical ranking: sort by key, ties by (session index, rid) -- used only to have a
\* deterministic representative; implementations may order ties differently.
Tie(e) == << SessInfo[e.sess].idx, e.rid >>
CanonLess(st, p, a, b) ==
  \/ Better(st, p, a, b)
  \/ Tied(st, p, a, b) /\ LexLess(Tie(a), Tie(b))

RECURSIVE RankOf(_, _, _)
RankOf(st, p, S) ==
  IF S = {} THEN <<>>
  ELSE LET m == CHOOSE x \in S : \A y \in S \ {x} : CanonLess(st, p, x, y)
       IN << m >> \o RankOf(st, p, S \ {m})
Rank(st, p) == RankOf(st, p, Elig(st, p))
CanonBest(st, p) == IF Elig(st, p) = {} THEN <<>> ELSE << Rank(st, p)[1] >>

---------------------------------------------------------------------------
\* State

NoStats == [received |-> 0, accepted |-> 0]

Init ==
  s = [ ent    |-> [p \in Prefix |-> {}],
        stale  |-> [x \in Sess |-> FALSE],
        llgr   |-> [x \in Sess |-> FALSE],
        closed |-> {},                         \* sessions that have ended
        nhbad  |-> {},
        did    |-> [p \in Prefix |-> 0],       \* destination id, 0 = no destination
        stats  |-> [q \in Peers |-> NoStats],
        cnt    |-> [x \in Sess |-> 0],         \* per-session prefix-limit counter
        defer  |-> FALSE,
        vbest  |-> [p \in Prefix |-> <<>>],    \* best-path consumer's view (0 or 1 path)
        vall   |-> [p \in Prefix |-> {}] ]     \* add-path consumer's view (set of paths)

\* the session of peer q that may currently send (lowest not yet closed)
Active(st, q) ==
  LET C == {x \in SessOf(q) : x \notin st.closed} IN
  IF C = {} THEN {} ELSE {CHOOSE x \in C : \A y \in C : SessInfo[x].ord <= SessInfo[y].ord}

RidAll == UNION {Rids[q] : q \in Peers}

Ops ==
       [k : {"insert"}, sess : Sess, p : Prefix, rid : RidAll, cls : Cls, nh : NextHops, filt : FiltVals]
  \cup [k : {"remove"}, sess : Sess, p : Prefix, rid : RidAll]
  \cup [k : {"drop", "markstale", "dropstale", "markllgr", "dropllgr"}, peer : Peers]
  \cup [k : {"nhflip"}, nh : NextHops, up : BOOLEAN]
  \cup [k : {"startdef", "enddef"}]
  \* soft reset IN of a peer under an import policy that sets the next hop to `to` ("keep": a policy that does not touch it)
  \cup [k : {"softreset"}, peer : Peers, to : NextHops \cup {"keep"}]

Enabled(st, op) ==
  /\ op.k \in OpKinds
  /\ (CASE op.k \in {"insert", "remove"} ->
              /\ op.sess \in Active(st, PeerOf(op.sess))
              /\ op.rid \in Rids[PeerOf(op.sess)]
         \* selection deferral starts only on an empty table (it is armed at start-up after
         \* a restart, before any session exists); C06's "held back" reading, see DESIGN 5
         [] op.k = "startdef" -> \A p \in Prefix : st.ent[p] = {}
         \* a soft reset is asked of a peer whose session is up: none of its paths is stale
         [] op.k = "softreset" -> \A x \in SessOf(op.peer) : ~st.stale[x] /\ ~st.llgr[x]
         [] OTHER -> TRUE)

FreeId(st) == CHOOSE i \in 1..(Cardinality(Prefix) + 1) :
                 /\ \A p \in Prefix : st.did[p] # i
                 /\ \A j \in 1..(i - 1) : \E p \in Prefix : st.did[p] = j

FromPeer(st, p, q) == {e \in st.ent[p] : PeerOf(e.sess) = q}

\* recomputation of the per-peer counters for the prefixes in P after entries changed
\* from `old` to `new` (used by the purge operations; insert/remove are incremental)
StatsDelta(stats, q, oldEnt, newEnt) ==
  LET lostPfx == Cardinality({p \in Prefix : (\E e \in oldEnt[p] : PeerOf(e.sess) = q)
                                             /\ ~(\E e \in newEnt[p] : PeerOf(e.sess) = q)})
      lostAcc == Cardinality(UNION {{<<p, e>> : e \in {x \in oldEnt[p] \ newEnt[p] : PeerOf(x.sess) = q /\ ~x.filt}} : p \in Prefix})
  IN [stats EXCEPT ![q] = [received |-> @.received - lostPfx, accepted |-> @.accepted - lostAcc]]

\* destination ids after entries changed: emptied prefixes release their id
DidAfter(st, newEnt) == [p \in Prefix |-> IF newEnt[p] = {} THEN 0 ELSE st.did[p]]

\* purge helper: remove the entries satisfying Gone(p, e) that belong to peer q
Purge(st, q, Gone(_, _)) ==
  LET newEnt == [p \in Prefix |-> {e \in st.ent[p] : ~(PeerOf(e.sess) = q /\ Gone(p, e))}]
  IN [st EXCEPT !.ent = newEnt, !.did = DidAfter(st, newEnt),
                !.stats = StatsDelta(st.stats, q, st.ent, newEnt)]

---------------------------------------------------------------------------
\* Operations on the RIB proper (no notifications yet): result [st, res]

DoInsert(st, op) ==
  LET q       == PeerOf(op.sess)
      old     == {e \in st.ent[op.p] : PeerOf(e.sess) = q /\ e.rid = op.rid}
      others  == FromPeer(st, op.p, q) \ old
      isNew   == old = {} /\ others = {}
      lim     == SessInfo[op.sess].max
      sessHad == \E e \in st.ent[op.p] : e.sess = op.sess
      ne      == [sess |-> op.sess, rid |-> op.rid, cls |-> op.cls, nh |-> op.nh, filt |-> op.filt]
  IN
  \* the limit is checked whenever this session gains a prefix it had no path for
  \* (a brand-new prefix, or the replacement of a stale path of an earlier session)
  IF ~sessHad /\ lim # NoLimit /\ st.cnt[op.sess] >= lim
  THEN [st |-> st, res |-> "limit"]
  ELSE
    LET accDelta == IF old # {} THEN
                      (LET o == CHOOSE e \in old : TRUE IN
                       IF o.filt /\ ~op.filt THEN 1 ELSE 0)
                    ELSE IF ~op.filt THEN 1 ELSE 0
        accMinus == IF old # {} THEN
                      (LET o == CHOOSE e \in old : TRUE IN
                       IF ~o.filt /\ op.filt THEN 1 ELSE 0)
                    ELSE 0
        st2 == [st EXCEPT
                 !.ent[op.p] = (@ \ old) \cup {ne},
                 !.did[op.p] = IF @ = 0 THEN FreeId(st) ELSE @,
                 !.stats[q]  = [received |-> @.received + (IF isNew THEN 1 ELSE 0),
                                accepted |-> (@.accepted + accDelta) - accMinus],
                 !.cnt[op.sess] = IF lim # NoLimit /\ ~sessHad THEN @ + 1 ELSE @]
    IN [st |-> st2, res |-> "ok"]

DoRemove(st, op) ==
  LET q   == PeerOf(op.sess)
      old == {e \in st.ent[op.p] : PeerOf(e.sess) = q /\ e.rid = op.rid}
  IN IF old = {} THEN [st |-> st, res |-> "none"]
  ELSE
    LET o       == CHOOSE e \in old : TRUE
        newSet  == st.ent[op.p] \ old
        still   == \E e \in newSet : PeerOf(e.sess) = q
        sessHad == \E e \in st.ent[op.p] : e.sess = op.sess
        sessHas == \E e \in newSet : e.sess = op.sess
        st2 == [st EXCEPT
                 !.ent[op.p] = newSet,
                 !.did[op.p] = IF newSet = {} THEN 0 ELSE @,
                 !.stats[q]  = [received |-> @.received - (IF still THEN 0 ELSE 1),
                                accepted |-> @.accepted - (IF o.filt THEN 0 ELSE 1)],
                 !.cnt[op.sess] = IF SessInfo[op.sess].max # NoLimit /\ sessHad /\ ~sessHas
                                  THEN @ - 1 ELSE @]
    IN [st |-> st2, res |-> "ok"]

\* sessions of peer q that still own a path somewhere
Owning(st, q) == {x \in SessOf(q) : \E p \in Prefix : \E e \in st.ent[p] : e.sess = x}

DoDrop(st, q) ==
  LET newEnt == [p \in Prefix |-> {e \in st.ent[p] : PeerOf(e.sess) # q}]
  IN [st EXCEPT !.ent = newEnt, !.did = DidAfter(st, newEnt), !.stats[q] = NoStats,
                !.closed = @ \cup Active(st, q)]

DoMarkStale(st, q) ==
  [st EXCEPT !.stale = [x \in Sess |-> @[x] \/ x \in Owning(st, q)],
             !.closed = @ \cup Active(st, q)]

DoDropStale(st, q) == LET G(p, e) == st.stale[e.sess] IN Purge(st, q, G)

\* LLGR marking starts the LLGR period of a peer whose session is down: like stale
\* marking it ends the peer's current session.
DoMarkLlgr(st, q) ==
  LET st1 == [st EXCEPT !.llgr = [x \in Sess |-> @[x] \/ x \in Owning(st, q)],
                        !.closed = @ \cup Active(st, q)]
      G(p, e) == ClsInfo[e.cls].nollgr
  IN Purge(st1, q, G)

\* the purge takes the routes of sessions this helper marked, not routes that merely
\* carry the LLGR_STALE community (those may be fresh re-announcements, C10)
DoDropLlgr(st, q) == LET G(p, e) == st.llgr[e.sess] IN Purge(st, q, G)

DoNhFlip(st, nh, up) == [st EXCEPT !.nhbad = IF up THEN @ \ {nh} ELSE @ \cup {nh}]

\* every path of the peer goes through the import policy again; a policy that sets the next hop replaces it (eligibility
\* then follows the reachability of the NEW next hop), everything else about the path stays.  The policy rejects what it
\* rejected before and rejects first: a rejected path is not rewritten.
DoSoftReset(st, q, to) ==
  [st EXCEPT !.ent = [p \in Prefix |-> {IF PeerOf(e.sess) = q /\ to # "keep" /\ ~e.filt THEN [e EXCEPT !.nh = to] ELSE e : e \in st.ent[p]}]]

Core(st, op) ==
  CASE op.k = "insert"    -> DoInsert(st, op)
    [] op.k = "remove"    -> DoRemove(st, op)
    [] op.k = "drop"      -> [st |-> DoDrop(st, op.peer), res |-> "ok"]
    [] op.k = "markstale" -> [st |-> DoMarkStale(st, op.peer), res |-> "ok"]
    [] op.k = "dropstale" -> [st |-> DoDropStale(st, op.peer), res |-> "ok"]
    [] op.k = "markllgr"  -> [st |-> DoMarkLlgr(st, op.peer), res |-> "ok"]
    [] op.k = "dropllgr"  -> [st |-> DoDropLlgr(st, op.peer), res |-> "ok"]
    [] op.k = "nhflip"    -> [st |-> DoNhFlip(st, op.nh, op.up), res |-> "ok"]
    [] op.k = "softreset" -> [st |-> DoSoftReset(st, op.peer, op.to), res |-> "ok"]
    [] op.k = "startdef"  -> [st |-> [st EXCEPT !.defer = TRUE], res |-> "ok"]
    [] op.k = "enddef"    -> [st |-> [st EXCEPT !.defer = FALSE], res |-> "ok"]

---------------------------------------------------------------------------
\* Notifications and the two consumers (C06)
\*
\* A notification for prefix p carries the ranked eligible list, `bc` (best changed)
\* and `ac` (any changed).  The best-path consumer skips it unless bc, the add-path
\* consumer unless ac.  The rule below is the *weakest* correct one: bc iff the set of
\* best paths changed (as identities incl. attributes and next hop), ac iff the eligible
\* set changed; while deferring nothing at all is notified (C11: selection and
\* advertisement are held back - for withdrawals, purges and next-hop flips too) and the
\* end of the deferral notifies every prefix that has an eligible path.

Notifs(st, op, st2) ==
  IF op.k = "enddef"
  THEN {[p |-> p, bc |-> TRUE, ac |-> TRUE] : p \in {x \in Prefix : Elig(st2, x) # {}}}
  ELSE IF st2.defer THEN {}
  ELSE {[p |-> p, bc |-> CanonBest(st, p) # CanonBest(st2, p),
                  ac |-> Elig(st, p) # Elig(st2, p)] :
          p \in {x \in Prefix : Elig(st, x) # Elig(st2, x) \/ CanonBest(st, x) # CanonBest(st2, x)}}

Fold(st2, ns) ==
  [st2 EXCEPT
     !.vbest = [p \in Prefix |-> IF \E n \in ns : n.p = p /\ n.bc THEN CanonBest(st2, p) ELSE @[p]],
     !.vall  = [p \in Prefix |-> IF \E n \in ns : n.p = p /\ n.ac THEN Elig(st2, p) ELSE @[p]]]

StepFull(st, op) ==
  LET c  == Core(st, op)
      ns == Notifs(st, op, c.st)
  IN [s |-> Fold(c.st, ns), res |-> c.res, notifs |-> ns]

Step(st, op) == StepFull(st, op).s
Out(st, op)  == [res |-> StepFull(st, op).res, notifs |-> StepFull(st, op).notifs]

Next == \E op \in Ops : Enabled(s, op) /\ s' = Step(s, op)
Spec == Init /\ [][Next]_s

---------------------------------------------------------------------------
\* Invariants

\* C02: Better is a strict weak order on the paths present, the reported best is
\* maximal, ineligible paths are never selected, ECMP is a subset containing the best.
OrderOK ==
  \A p \in Prefix :
    LET E == s.ent[p] IN
    /\ \A a \in E : ~Better(s, p, a, a)
    /\ \A a, b \in E : ~(Better(s, p, a, b) /\ Better(s, p, b, a))
    /\ \A a, b, c \in E : (Better(s, p, a, b) /\ Better(s, p, b, c)) => Better(s, p, a, c)
    /\ \A a, b, c \in E : (Tied(s, p, a, b) /\ Tied(s, p, b, c)) => Tied(s, p, a, c)
    /\ \A a, b \in E : Better(s, p, a, b) \/ Better(s, p, b, a) \/ Tied(s, p, a, b)

BestOK ==
  \A p \in Prefix :
    /\ (Elig(s, p) # {} => BestSet(s, p) # {})
    /\ \A b \in BestSet(s, p) : Eligible(s, b) /\ b \in EcmpSet(s, p)
    /\ (Elig(s, p) # {} => Rank(s, p)[1] \in BestSet(s, p))
    /\ Len(Rank(s, p)) = Cardinality(Elig(s, p))
    /\ \A i, j \in 1..Len(Rank(s, p)) : i < j => ~Better(s, p, Rank(s, p)[j], Rank(s, p)[i])

\* C06
ViewsMatch ==
  ~s.defer => \A p \in Prefix :
     /\ s.vall[p] = Elig(s, p)
     /\ s.vbest[p] = CanonBest(s, p)

\* while deferring, views only lag behind through inserts; nothing is lost for good:
DeferralOnlyDelays ==
  s.defer => \A p \in Prefix : s.vall[p] \subseteq (Elig(s, p) \cup s.vall[p])

IdsOK ==
  /\ \A p \in Prefix : (s.did[p] # 0) <=> (s.ent[p] # {})
  /\ \A p, q \in Prefix : (p # q /\ s.did[p] # 0) => s.did[p] # s.did[q]

\* one path per (peer, remote path-id) and prefix
KeysOK ==
  \A p \in Prefix : \A a, b \in s.ent[p] :
     (PeerOf(a.sess) = PeerOf(b.sess) /\ a.rid = b.rid) => a = b

\* C15
Recount(q) ==
  [received |-> Cardinality({p \in Prefix : FromPeer(s, p, q) # {}}),
   accepted |-> Cardinality(UNION {{<<p, e>> : e \in {x \in FromPeer(s, p, q) : ~x.filt}} : p \in Prefix})]

CountersOK ==
  /\ \A q \in Peers : s.stats[q] = Recount(q)
  /\ \A x \in Sess : (x \notin s.closed /\ SessInfo[x].max # NoLimit) =>
        /\ s.cnt[x] = Cardinality({p \in Prefix : \E e \in s.ent[p] : e.sess = x})
        /\ s.cnt[x] <= SessInfo[x].max

TotalsOK ==
  Cardinality({p \in Prefix : s.did[p] # 0}) = Cardinality({p \in Prefix : s.ent[p] # {}})
=============================================================================
