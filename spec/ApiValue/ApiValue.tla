------------------------------ MODULE ApiValue ------------------------------
(***************************************************************************)
(* C17, value half: what conversion from the gRPC API form to the internal *)
(* form (convert.rs attr_from_api / net_from_api) may do with ANY API      *)
(* message.  Function-style, like Rfc7606.tla:                             *)
(*                                                                         *)
(*   AttrCases / NlriCases   the finite universe of API inputs, one record *)
(*                           per (kind, field-class vector); classes are   *)
(*                           string tags the harness concretises           *)
(*   MustAccept(c)           the input denotes a value the wire decoder    *)
(*                           accepts: it has to be accepted, and the       *)
(*                           result has to be Expected(c)                  *)
(*   WellFormed(d)           the structural invariants every attribute     *)
(*                           accepted from the wire satisfies, over the    *)
(*                           projection d = pi(packet::Attribute) the      *)
(*                           harness reports (packet/src/bgp.rs            *)
(*                           Attribute::decode is where the wire side      *)
(*                           establishes them)                             *)
(*   Acceptable(c, r)        the verdict on one observed conversion r of   *)
(*                           case c: never a panic; accepted => WellFormed *)
(*                           and the value survives display, the wire and  *)
(*                           use (selection / policy / encoding)           *)
(*                                                                         *)
(* ApiValueMC prints the cases, ApiValueTrace validates the recorded       *)
(* conversions against Acceptable.                                         *)
(***************************************************************************)
EXTENDS Naturals, Sequences, FiniteSets, TLC

\* ------------------------------------------------------------------ attribute cases
Seg == [t : {0, 1, 2, 3, 4, 5, 258}, n : {0, 1, 2, 255, 256, 300}]
SegSeqs == {<<>>} \cup {<<s>> : s \in Seg} \cup {<<s1, s2>> : s1 \in Seg, s2 \in {x \in Seg : x.n \in {0, 2, 256}}}

AddrTags == {"v4", "v6", "empty", "garbage", "v4space", "v4mapped"}
U32Tags  == {"0", "1", "2", "3", "100", "255", "256", "65000", "65536", "4200000000", "u32max"}
UnknownTypes == {"1", "2", "3", "4", "5", "6", "7", "8", "9", "10", "14", "15", "16", "17", "18", "23", "26", "29",
                 "32", "40", "99", "255", "257", "258", "264"}
UnknownLens == {"0", "1", "3", "4", "6", "8", "12"}
ExtKinds == {"twoas", "ipv4", "fouras", "mup", "unknown", "rate", "action", "redirect2", "remark", "redirect4addr",
             "redirect4as", "none", "unsupported"}
ExtFaults == {"ok", "subtype256", "asn65536", "admin65536", "badaddr", "len7", "len9"}
MpFams == {"none", "ipv4", "ipv6", "fs4", "afi70000"}
MpNhs  == {"none", "v4", "v6", "garbage", "v4v6"}
Unsupported == {"as4path", "as4aggregator", "aigp", "pmsi", "ip6ext", "mpunreach"}

C(k, a, b, segs) == [k |-> k, a |-> a, b |-> b, segs |-> segs]
AttrCases ==
       {C("origin", a, "", <<>>) : a \in {"0", "1", "2", "3", "255", "256", "u32max"}}
  \cup {C("aspath", "", "", s) : s \in SegSeqs}
  \cup {C("nexthop", a, "", <<>>) : a \in AddrTags}
  \cup {C(k, a, "", <<>>) : k \in {"med", "localpref"}, a \in {"0", "100", "u32max"}}
  \cup {C("atomic", "", "", <<>>)}
  \cup {C("aggregator", a, b, <<>>) : a \in {"0", "65000", "4200000000"}, b \in {"v4", "v6", "empty", "garbage"}}
  \cup {C("communities", a, "", <<>>) : a \in {"0", "1", "3"}}
  \cup {C("originator", a, "", <<>>) : a \in AddrTags}
  \cup {C("clusterlist", a, b, <<>>) : a \in {"0", "1", "2"}, b \in {"v4", "v6", "garbage"}}
  \cup {C("largecomm", a, "", <<>>) : a \in {"0", "1", "2"}}
  \cup {C("extcomm", a, b, <<>>) : a \in ExtKinds, b \in ExtFaults}
  \cup {C("unknown", a, b, <<>>) : a \in UnknownTypes, b \in UnknownLens}
  \* a known code with a malformed (3-octet) value, under flag octets that are / are not the code's canonical ones
  \cup {C("unknownflags", a, b, <<>>) : a \in {"1", "2", "5", "8", "16", "32"}, b \in {"64", "128", "192", "224", "208", "80"}}
  \cup {C("mpreach", a, b, <<>>) : a \in MpFams, b \in MpNhs}
  \cup {C("missing", "", "", <<>>)}
  \cup {C("unsupported", a, "", <<>>) : a \in Unsupported}

\* which fault classes exist for which extended-community kind (others are dropped as meaningless)
ExtMeaningful(c) ==
  c.k = "extcomm" =>
    CASE c.a \in {"twoas", "fouras"} -> c.b \in {"ok", "subtype256", "asn65536", "admin65536"} /\ (c.a = "fouras" => c.b # "asn65536")
      [] c.a = "ipv4"          -> c.b \in {"ok", "subtype256", "admin65536", "badaddr"}
      [] c.a = "mup"           -> c.b \in {"ok", "subtype256", "admin65536"}       \* admin = segment_id2
      [] c.a = "unknown"       -> c.b \in {"ok", "len7", "len9"}
      [] c.a \in {"rate", "redirect2"} -> c.b \in {"ok", "asn65536"}
      [] c.a = "redirect4addr" -> c.b \in {"ok", "badaddr", "admin65536"}
      [] c.a = "redirect4as"   -> c.b \in {"ok", "admin65536"}
      [] OTHER                 -> c.b = "ok"
MeaningfulAttr(c) == ExtMeaningful(c) /\ (c.k = "clusterlist" /\ c.a = "0" => c.b = "v4")

\* ------------------------------------------------------------------ what must be accepted
WireSegs(s) == \A i \in DOMAIN s : s[i].t \in 1..4 /\ s[i].n <= 255
MustAccept(c) ==
  CASE c.k = "origin"      -> c.a \in {"0", "1", "2"}
    [] c.k = "aspath"      -> WireSegs(c.segs)
    [] c.k = "nexthop"     -> c.a \in {"v4", "v6", "v4mapped"}
    [] c.k \in {"med", "localpref", "atomic", "communities", "largecomm"} -> TRUE
    [] c.k = "aggregator"  -> c.b = "v4"
    [] c.k = "originator"  -> c.a = "v4"
    [] c.k = "clusterlist" -> c.b = "v4"
    [] c.k = "extcomm"     -> c.b = "ok" /\ c.a \notin {"none", "unsupported"}
    [] c.k = "mpreach"     -> (c.a \in {"ipv4", "ipv6"} /\ c.b \in {"v4", "v6", "v4v6"}) \/ (c.a = "fs4" /\ c.b = "none")
    [] OTHER               -> FALSE

ExpCode(c) ==
  CASE c.k = "origin" -> 1 [] c.k = "aspath" -> 2 [] c.k = "nexthop" -> 3 [] c.k = "med" -> 4 [] c.k = "localpref" -> 5
    [] c.k = "atomic" -> 6 [] c.k = "aggregator" -> 7 [] c.k = "communities" -> 8 [] c.k = "originator" -> 9
    [] c.k = "clusterlist" -> 10 [] c.k = "mpreach" -> 14 [] c.k = "extcomm" -> 16 [] c.k = "largecomm" -> 32
    [] OTHER -> 0

Num(tag) == CASE tag = "0" -> 0 [] tag = "1" -> 1 [] tag = "2" -> 2 [] tag = "3" -> 3 [] OTHER -> 0
ExpLen(c) ==
  CASE c.k = "aspath"      -> LET RECURSIVE L(_) L(i) == IF i = 0 THEN 0 ELSE L(i - 1) + 2 + 4 * c.segs[i].n IN L(Len(c.segs))
    [] c.k = "nexthop"     -> IF c.a = "v4" THEN 4 ELSE 16
    [] c.k = "atomic"      -> 0
    [] c.k = "aggregator"  -> 8
    [] c.k = "communities" -> 4 * Num(c.a)
    [] c.k = "clusterlist" -> 4 * Num(c.a)
    [] c.k = "largecomm"   -> 12 * Num(c.a)
    [] c.k = "extcomm"     -> 8
    [] c.k = "mpreach"     -> IF c.b = "none" THEN 5 ELSE IF c.b = "v6" THEN 21 ELSE 9     \* the FIRST next hop is used
    [] OTHER               -> 0
ExpKind(c) == IF c.k \in {"origin", "med", "localpref", "originator"} THEN "val" ELSE "bin"

\* ------------------------------------------------------------------ wire invariants on pi(Attribute)
\* d = [code, kind ("val" | "bin"), len, val (decimal string, "" for bin), segs (AS_PATH / AS4_PATH: <<[t, n]>>),
\*      exact (AS_PATH: the segments consume the value exactly)]
\* NEXT_HOP / MP_REACH / MP_UNREACH are never held in an attribute list (the session code and GrpcService::local_path move
\* the next hop into the path and drop them); what AddPath does with a malformed one is the store half's business.
WellFormed(d) ==
  CASE d.code = 1            -> d.kind = "val" /\ d.val \in {"0", "1", "2"}
    [] d.code \in {4, 5, 9}  -> d.kind = "val"
    [] d.code = 2            -> d.kind = "bin" /\ d.exact /\ \A i \in DOMAIN d.segs : d.segs[i].t \in 1..4
    [] d.code = 17           -> d.kind = "bin" /\ d.exact /\ d.len >= 6 /\ \A i \in DOMAIN d.segs : d.segs[i].t \in 1..4 /\ d.segs[i].n > 0
    [] d.code = 3            -> d.kind = "bin" /\ d.len \in {4, 16, 32}
    [] d.code = 6            -> d.kind = "bin" /\ d.len = 0
    [] d.code \in {7, 18}    -> d.kind = "bin" /\ d.len = 8
    [] d.code \in {8, 10}    -> d.kind = "bin" /\ d.len % 4 = 0
    [] d.code = 16           -> d.kind = "bin" /\ d.len % 8 = 0
    [] d.code = 32           -> d.kind = "bin" /\ d.len % 12 = 0
    [] OTHER                 -> d.kind = "bin"

\* ------------------------------------------------------------------ verdict on one observed conversion
\* r = [outcome ("ok" | "err" | "panic"), desc, rt, wire, use]
\*   rt   : attr_from_api(attr_to_api(x)) = x            ("same" | "diff" | "panic" | "na")
\*   wire : UPDATE carrying x encoded, decoded by the peer, validated: same attribute ("same" | "diff" | "error" | "panic" | "na")
\*   use  : x put next to another path of the same prefix in a real table (selection), run through a policy that looks at
\*          every attribute kind and rewrites them, and encoded ("ok" | "panic")
\* the first clause an observed conversion breaks ("" if none): used both as the verdict and as its explanation
Reason(c, r) ==
  IF r.outcome \notin {"ok", "err"} THEN "conversion panics"
  ELSE IF r.outcome = "ok" /\ ~WellFormed(r.desc) THEN "accepted value breaks a wire invariant"
  ELSE IF r.outcome = "ok" /\ r.rt \notin {"same", "na"} THEN "accepted value does not survive its own API form"
  ELSE IF r.outcome = "ok" /\ r.wire = "panic" THEN "accepted value panics the encoder or decoder"
  ELSE IF r.outcome = "ok" /\ r.use # "ok" THEN "accepted value panics selection, policy or encoding"
  ELSE IF MustAccept(c) /\ r.outcome # "ok" THEN "valid input rejected"
  ELSE IF MustAccept(c) /\ ~(r.desc.code = ExpCode(c) /\ r.desc.kind = ExpKind(c) /\ (ExpKind(c) = "bin" => r.desc.len = ExpLen(c)))
       THEN "valid input converted to a different value"
  ELSE ""
Acceptable(c, r) == Reason(c, r) = ""

\* ------------------------------------------------------------------ NLRI cases
\* k: API NLRI message kind; fam: the family stated next to it in the Path; a: field class
NlriFams == {"ipv4", "ipv6", "ipv4-mpls", "ipv6-mpls", "ipv4-vpn", "ipv6-vpn", "ipv4-flowspec", "ipv6-flowspec", "l2vpn-evpn",
             "ipv4-srpolicy", "rtc", "ipv4-mup", "ipv4-flowspec-vpn", "ipv6-flowspec-vpn"}
PrefixTags == {"v4/24", "v4/0", "v4/32", "v4/33", "v4/300", "v4/host", "v6/64", "v6/128", "v6/129", "v6/host", "garbage", "empty"}
LabelTags == {"none", "one", "two", "big"}                      \* big: a label of 2^20 (does not fit the 20-bit field)
N(k, fam, a, b) == [k |-> k, fam |-> fam, a |-> a, b |-> b]
NlriCases ==
       {N("prefix", f, a, "") : f \in {"ipv4", "ipv6", "ipv4-vpn", "rtc"}, a \in PrefixTags}
  \cup {N("labeled", f, a, b) : f \in {"ipv4-mpls", "ipv6-mpls", "ipv4"}, a \in PrefixTags, b \in LabelTags}
  \cup {N("vpn", f, a, b) : f \in {"ipv4-vpn", "ipv6-vpn", "ipv6"}, a \in PrefixTags \cup {"nord", "badrd"}, b \in LabelTags}
  \cup {N("evpn-macadv", "l2vpn-evpn", a, "") : a \in {"ok", "nord", "noesi", "badmac", "shortmac", "badip", "nolabel", "esi-short", "esi-long"}}
  \cup {N("evpn-prefix", "l2vpn-evpn", a, "") : a \in {"ok", "len33v4", "len129", "len200", "badgw", "gwmix"}}
  \cup {N("evpn-multicast", "l2vpn-evpn", a, "") : a \in {"ok", "badip", "nord"}}
  \cup {N("srpolicy", f, a, "") : f \in {"ipv4-srpolicy", "ipv4"}, a \in {"ep4", "ep16", "ep0", "ep5"}}
  \cup {N("rtc", "rtc", a, "") : a \in {"wildcard", "aswild", "exact", "badrt"}}
  \cup {N("flowspec", f, a, "") : f \in {"ipv4-flowspec", "ipv6-flowspec", "ipv4"}, a \in {"dst", "empty", "badtype", "badprefix", "len300"}}
  \cup {N("flowspec", f, a, "") : f \in {"ipv4-flowspec", "ipv6-flowspec"}, a \in {"len40", "offset200"}}
  \cup {N("vpnflowspec", f, a, "") : f \in {"ipv4-flowspec-vpn", "ipv6-flowspec-vpn", "ipv4-flowspec"},
                                     a \in {"dst", "empty", "badtype", "badprefix", "len300", "len40", "offset200", "nord"}}
  \cup {N("mup-isd", "ipv4-mup", a, "") : a \in {"ok", "nord", "noslash", "len300"}}
  \cup {N("mup-t1st", "ipv4-mup", a, "") : a \in {"ok", "qfi256", "badep"}}
  \cup {N("none", "ipv4", "", "")}

FamAfi(f) == IF f \in {"ipv6", "ipv6-mpls", "ipv6-vpn", "ipv6-flowspec"} THEN 6 ELSE 4
NlriMustAccept(c) ==
  CASE c.k = "prefix"  -> (c.fam = "ipv4" /\ c.a \in {"v4/24", "v4/0", "v4/32"}) \/ (c.fam = "ipv6" /\ c.a \in {"v6/64", "v6/128"})
    [] c.k = "labeled" -> c.b \in {"one", "two"} /\ ((c.fam = "ipv4-mpls" /\ c.a \in {"v4/24", "v4/0", "v4/32"}) \/ (c.fam = "ipv6-mpls" /\ c.a \in {"v6/64", "v6/128"}))
    [] c.k = "vpn"     -> c.b \in {"one", "two"} /\ ((c.fam = "ipv4-vpn" /\ c.a \in {"v4/24", "v4/0", "v4/32"}) \/ (c.fam = "ipv6-vpn" /\ c.a \in {"v6/64", "v6/128"}))
    [] c.k \in {"evpn-macadv", "evpn-prefix", "evpn-multicast", "mup-isd", "mup-t1st"} -> c.a = "ok"
    [] c.k = "srpolicy" -> c.fam = "ipv4-srpolicy" /\ c.a \in {"ep4", "ep16"}
    [] c.k = "rtc"      -> c.a \in {"wildcard", "aswild", "exact"}
    [] c.k = "flowspec" -> c.fam \in {"ipv4-flowspec", "ipv6-flowspec"} /\ (c.a = "dst" \/ (c.a = "len40" /\ c.fam = "ipv6-flowspec"))
    [] c.k = "vpnflowspec" -> c.fam \in {"ipv4-flowspec-vpn", "ipv6-flowspec-vpn"} /\ (c.a = "dst" \/ (c.a = "len40" /\ c.fam = "ipv6-flowspec-vpn"))
    [] OTHER -> FALSE

\* pi(Nlri) = [variant, famok (the variant is the one the stated family carries), mask, maxmask (what the wire decoder enforces
\*             for that variant), host (bits set beyond the mask; informational), labelsok (labeled / VPN: at least one label,
\*             every label fits its 20-bit field)]
\* (bits beyond the mask are NOT excluded: the wire decoder keeps the bits of the last octet it reads)
NlriWellFormed(d) ==
  /\ d.famok
  /\ d.mask <= d.maxmask
  /\ d.labelsok

\* r = [outcome, desc, rt (net_from_api(nlri_to_api(x), family) = x), wire (announced and decoded by the peer), use]
NlriReason(c, r) ==
  IF r.outcome \notin {"ok", "err"} THEN "conversion panics"
  ELSE IF r.outcome = "ok" /\ ~NlriWellFormed(r.desc) THEN "accepted value breaks a wire invariant"
  ELSE IF r.outcome = "ok" /\ r.rt \notin {"same", "na"} THEN "accepted value does not survive its own API form"
  ELSE IF r.outcome = "ok" /\ r.wire = "panic" THEN "accepted value panics the encoder or decoder"
  ELSE IF r.outcome = "ok" /\ r.use # "ok" THEN "accepted value panics selection, policy or encoding"
  ELSE IF NlriMustAccept(c) /\ r.outcome # "ok" THEN "valid input rejected"
  ELSE ""
NlriAcceptable(c, r) == NlriReason(c, r) = ""

\* ------------------------------------------------------------------ enumeration behaviour (one state per case)
VARIABLE c
Init == c \in {x \in AttrCases : MeaningfulAttr(x)} \cup NlriCases
Next == UNCHANGED c
Spec == Init /\ [][Next]_c

IsAttr(x) == "segs" \in DOMAIN x
\* internal consistency of the table: whatever must be accepted has an expected code; AS_PATH expectations are wire-valid
Sane == IsAttr(c) /\ MustAccept(c) => ExpCode(c) # 0 /\ (c.k = "aspath" => WireSegs(c.segs))
=============================================================================
