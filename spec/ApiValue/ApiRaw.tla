------------------------------- MODULE ApiRaw -------------------------------
(***************************************************************************)
(* C17, totality THROUGH THE RPC: an AddPath request may carry any         *)
(* attribute in raw form (UnknownAttribute: flags, type code, value        *)
(* octets), including type codes the daemon knows and gives a meaning to   *)
(* (MP_REACH_NLRI, NEXT_HOP, AS_PATH, ...).  ApiValue.tla decides what     *)
(* attr_from_api must do with one value; this table is about the whole     *)
(* call: for every (type code, value shape, flag octet, request context)   *)
(* the RPC returns - accepted or InvalidArgument - and afterwards the      *)
(* table can still be listed and every stored path re-encoded.             *)
(* Function-style (DESIGN 3.2): TLC enumerates and prints the cases.       *)
(***************************************************************************)
EXTENDS Naturals, TLC

VARIABLE c

\* attribute type codes: the ones the daemon interprets, some it does not, and the ends of the range
Codes == {0, 1, 2, 3, 4, 5, 6, 7, 8, 9, 10, 14, 15, 16, 17, 18, 22, 23, 25, 26, 29, 32, 34, 35, 40, 128, 200, 255}

\* value shapes; the "mp_" ones read as an MP_REACH_NLRI header <afi, safi, next-hop length, ...> whose length octet
\* points inside, at the end of, or beyond the value
Shapes == {"empty", "one", "three", "four", "five", "mp_nh_short", "mp_nh_overrun6", "mp_ok4", "mp_ok6", "mp_nolen",
           "ff16", "long300"}

Flags == {"canon", "0x00", "0x40", "0x80", "0xc0", "0xd0"}     \* canon: the flag octet the type code has on the wire

\* the request around it: IPv4 / IPv6 prefix, with or without a typed next hop next to the raw attribute
Ctx == {"v4", "v4nh", "v6", "v6nh"}

Cases == [code : Codes, shape : Shapes, fl : Flags, ctx : Ctx]

\* the whole of the requirement: the call returns; accepted or not is decided by ApiValue.tla for the single value
Expected(x) == [returns |-> TRUE, listable |-> TRUE]

Init == c \in Cases
Next == UNCHANGED c
Spec == Init /\ [][Next]_c
Sane == Expected(c).returns /\ Expected(c).listable
=============================================================================
