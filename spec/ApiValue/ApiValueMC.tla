---------------------------- MODULE ApiValueMC ----------------------------
EXTENDS ApiValue, Json
Emit == PrintT(ToJson([case |-> c, must |-> IF IsAttr(c) THEN MustAccept(c) ELSE NlriMustAccept(c)]))
=============================================================================
