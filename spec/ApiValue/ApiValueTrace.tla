--------------------------- MODULE ApiValueTrace ---------------------------
(* Validates the conversions recorded from the real convert.rs (one JSON record per case:
   {"case": <the case TLC printed>, "res": <what the implementation did>}) against ApiValue!Acceptable. *)
EXTENDS ApiValue, Json, IOUtils, TLCExt

Rec == ndJsonDeserialize(IOEnv.TRACE)
VARIABLE l

Why(i) == IF IsAttr(Rec[i].case) THEN Reason(Rec[i].case, Rec[i].res) ELSE NlriReason(Rec[i].case, Rec[i].res)
OkAt(i) == Why(i) = ""

TInit == l = 1 /\ c = Rec[1].case
TNext == /\ l <= Len(Rec)
         /\ (IF OkAt(l) THEN TRUE ELSE PrintT(ToJson([rejected |-> l, why |-> Why(l)])))      \* a rejected record is reported and the rest still examined
         /\ l' = l + 1
         /\ c' = IF l + 1 <= Len(Rec) THEN Rec[l + 1].case ELSE c
TSpec == TInit /\ [][TNext]_<<l, c>>

Accepted ==
  LET n == TLCGet("stats").diameter IN
  IF n = Len(Rec) + 1 THEN TRUE
  ELSE PrintT(<<"STUCK", n>>) /\ FALSE
=============================================================================
