---------------------------- MODULE RtrClientMC ----------------------------
EXTENDS RtrClient, Json
VARIABLES pre, act
GenInit == Init /\ pre = s /\ act = [k |-> "init"]
GenNext == \E op \in Ops : /\ Enabled(s, op) /\ s' = Step(s, op) /\ act' = op /\ pre' = s
GenSpec == GenInit /\ [][GenNext]_<<s, pre, act>>
RECURSIVE SeqOf(_)
SeqOf(S) == IF S = {} THEN <<>> ELSE LET x == CHOOSE y \in S : TRUE IN <<x>> \o SeqOf(S \ {x})
PJ(st) == [up |-> st.up, eod |-> st.eod, buf |-> SeqOf(st.buf), inst |-> SeqOf(st.inst), cst |-> st.cst,
           first |-> st.first, ann |-> SeqOf(st.ann), rounds |-> st.rounds]
EmitEdge == \/ act.k = "init"
            \/ PrintT(ToJson([pre |-> PJ(pre), op |-> act, post |-> PJ(s)]))
=============================================================================
