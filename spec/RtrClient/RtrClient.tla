------------------------------ MODULE RtrClient ------------------------------
(***************************************************************************)
(* C13: the RTR (RFC 6810 / 8210) client of daemon/src/rpki.rs for one     *)
(* cache session: what is installed in the VRP table on behalf of the      *)
(* cache after each PDU, against the fold of what the cache announced.     *)
(*                                                                         *)
(* One action per PDU type the cache can send (including types the client  *)
(* does not use), plus the end of the stream.  The cache side is kept      *)
(* conforming by the protocol state `cst`.  A second cache's VRPs (`other`)*)
(* sit in the same table and must never be touched.                        *)
(***************************************************************************)
EXTENDS Naturals, Sequences, FiniteSets, TLC

CONSTANTS V,          \* universe of VRPs this cache may announce
          Cuts,       \* where a PDU's bytes are split into two TCP segments (0 = not split)
          MaxRounds   \* bound on the number of responses (End-of-Data PDUs)

VARIABLE s

Init ==
  s = [ up     |-> TRUE,
        eod    |-> FALSE,      \* client: an End-of-Data has been seen (incremental mode)
        buf    |-> {},         \* client: announcements collected during the initial snapshot
        inst   |-> {},         \* VRPs installed on behalf of this cache
        other  |-> TRUE,       \* the other cache's VRPs are still intact
        cst    |-> "idle",     \* cache: "idle" | "resp" (between Cache Response and End of Data)
        first  |-> TRUE,       \* cache: the current/next response is the full snapshot
        ann    |-> {},         \* ghost: what the cache has announced so far (fold of its PDUs)
        rounds |-> 0 ]

\* "cachereset" / "cacheresetq": the cache says it cannot serve an incremental update.  A client may go on with what it has
\* (cachereset) or ask for a new snapshot with a Reset Query (cacheresetq); in the second case what the cache sends next is
\* a full response that REPLACES what was installed.
Ops ==      [k : {"cacheresp", "eod", "notify", "cachereset", "cacheresetq", "error", "routerkey"}, cut : Cuts]
       \cup [k : {"announce", "withdraw"}, v : V, cut : Cuts]
       \* session loss at any point: the stream ends on a PDU boundary ("clean"), in the middle of a PDU header
       \* ("midhdr") or in the middle of a prefix PDU's body ("midpdu")
       \cup [k : {"end"}, how : {"clean", "midhdr", "midpdu"}]

Enabled(st, op) ==
  /\ st.up
  /\ CASE op.k = "cacheresp" -> st.cst = "idle" /\ st.rounds < MaxRounds
       [] op.k = "announce"  -> st.cst = "resp" /\ op.v \notin st.ann
       [] op.k = "withdraw"  -> st.cst = "resp" /\ ~st.first /\ op.v \in st.ann
       [] op.k = "eod"       -> st.cst = "resp"
       [] op.k = "notify"    -> st.cst = "idle" /\ ~st.first
       [] op.k = "cacheresetq" -> st.cst = "idle" /\ st.eod
       [] OTHER -> TRUE

Step(st, op) ==
  CASE op.k = "cacheresp" -> [st EXCEPT !.cst = "resp"]
    [] op.k = "announce" ->
         IF st.eod THEN [st EXCEPT !.inst = @ \cup {op.v}, !.ann = @ \cup {op.v}]
         ELSE [st EXCEPT !.buf = @ \cup {op.v}, !.ann = @ \cup {op.v}]
    [] op.k = "withdraw" ->
         IF st.eod THEN [st EXCEPT !.inst = @ \ {op.v}, !.ann = @ \ {op.v}]
         ELSE [st EXCEPT !.ann = @ \ {op.v}]
    [] op.k = "eod" ->
         \* the snapshot is installed at the first End of Data; later ones only close a round
         IF st.eod THEN [st EXCEPT !.cst = "idle", !.rounds = @ + 1]
         ELSE [st EXCEPT !.eod = TRUE, !.inst = st.buf, !.buf = {}, !.cst = "idle", !.first = FALSE, !.rounds = @ + 1]
    [] op.k = "cacheresetq" ->
         \* the old VRPs stay until the new snapshot has arrived; the next response is a full one
         [st EXCEPT !.eod = FALSE, !.buf = {}, !.first = TRUE, !.ann = {}]
    [] op.k = "end" -> [st EXCEPT !.up = FALSE, !.inst = {}, !.cst = "idle"]
    [] OTHER -> st      \* Serial Notify, Cache Reset, Error Report, Router Key: no table effect

Next == \E op \in Ops : Enabled(s, op) /\ s' = Step(s, op)
Spec == Init /\ [][Next]_s

---------------------------------------------------------------------------
\* Properties

\* after each End of Data the installed VRPs equal the fold of the cache's responses
InstalledEqualsAnnounced ==
  (s.up /\ s.eod /\ s.cst = "idle") => s.inst = s.ann

\* in incremental mode the table tracks every PDU at once (stronger, also holds)
IncrementalTracks == (s.up /\ s.eod) => s.inst = s.ann

OtherCacheUntouched == s.other

GoneWhenDown == ~s.up => s.inst = {}
=============================================================================
