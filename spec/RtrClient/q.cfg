CONSTANTS
  V = {"v1", "v2", "v3"}
  Cuts = {0, 3, 9}
  MaxRounds = 3
SPECIFICATION Spec
INVARIANTS InstalledEqualsAnnounced IncrementalTracks OtherCacheUntouched GoneWhenDown
CHECK_DEADLOCK FALSE
