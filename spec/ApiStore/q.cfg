CONSTANTS
  Pfx = {"p1", "p6"}
  Pid = {0, 1}
  ValidCls = {"min", "full", "rr"}
  BadCls = {"badorigin", "badseg"}
  MaxCalls = 3
SPECIFICATION Spec
INVARIANTS StoredWellFormed KeyUnique
PROPERTY RefusedIsNoOp
CHECK_DEADLOCK FALSE
