------------------------------ MODULE ApiStore ------------------------------
(***************************************************************************)
(* C17, store half: AddPath / DeletePath / ListPath of the gRPC service    *)
(* over a table that also holds peer-learned paths.  One action per RPC    *)
(* (GrpcService::add_path = local_path + insert_route per net,             *)
(* delete_path = path_uuid_map lookup + remove_route, list_path =           *)
(* collect_paths + destination_to_api), plus the peer side.                 *)
(*                                                                         *)
(* A path request is [pfx, pid, cls]: cls names an attribute-list class    *)
(* (the harness owns the concrete API messages).  Valid classes must be    *)
(* stored and listed with exactly their canonical content; classes that     *)
(* carry a value the wire would refuse must be rejected and leave the table *)
(* untouched.                                                              *)
(***************************************************************************)
EXTENDS Naturals, Sequences, FiniteSets, TLC

CONSTANTS Pfx,          \* prefixes (the harness fixes the family of each)
          Pid,          \* path identifiers
          ValidCls,     \* attribute-list classes the API must accept
          BadCls,       \* classes that must be rejected
          MaxCalls      \* bound on AddPath calls (uuid space)

VARIABLE s   \* [rib : [Pfx -> SUBSET path], issued : Seq([pfx, pid] | Gone)]
             \* path = [src : {"local", "peer"}, pid, cls]

Cls == ValidCls \cup BadCls
Gone == [pfx |-> "gone", pid |-> 0]           \* a uuid that has been deleted
Init == s = [rib |-> [p \in Pfx |-> {}], issued |-> <<>>]

Ops == [k : {"add"}, pfx : Pfx, pid : Pid, cls : Cls]
  \cup [k : {"del"}, n : 1..MaxCalls]
  \cup [k : {"peer+", "peer-"}, pfx : Pfx]

Enabled(st, op) ==
  CASE op.k = "add" -> Len(st.issued) < MaxCalls
    [] op.k = "del" -> op.n <= Len(st.issued) + 1        \* + 1: a uuid that was never issued
    [] OTHER -> TRUE

LocalOf(st, p, i) == {x \in st.rib[p] : x.src = "local" /\ x.pid = i}

\* the result the RPC reports
Out(st, op) ==
  CASE op.k = "add" -> IF op.cls \in ValidCls THEN "ok" ELSE "rejected"
    [] op.k = "del" -> IF op.n <= Len(st.issued) /\ st.issued[op.n] # Gone THEN "ok" ELSE "rejected"
    [] OTHER -> "ok"

Step(st, op) ==
  CASE op.k = "add" ->
         IF op.cls \in ValidCls
         THEN [rib |-> [st.rib EXCEPT ![op.pfx] = (@ \ LocalOf(st, op.pfx, op.pid)) \cup {[src |-> "local", pid |-> op.pid, cls |-> op.cls]}],
               issued |-> Append(st.issued, [pfx |-> op.pfx, pid |-> op.pid])]
         ELSE st                                      \* a refused request changes nothing and issues no uuid
    [] op.k = "del" ->
         IF Out(st, op) = "ok"
         THEN LET u == st.issued[op.n] IN
              \* the uuid names (prefix, path id): whatever local path is there now goes (as implemented: a later
              \* AddPath of the same key replaced the content but not the key)
              [rib |-> [st.rib EXCEPT ![u.pfx] = @ \ LocalOf(st, u.pfx, u.pid)],
               issued |-> [st.issued EXCEPT ![op.n] = Gone]]
         ELSE st
    [] op.k = "peer+" -> [st EXCEPT !.rib[op.pfx] = @ \cup {[src |-> "peer", pid |-> 0, cls |-> "peer"]}]
    [] op.k = "peer-" -> [st EXCEPT !.rib[op.pfx] = {x \in @ : x.src # "peer"}]

Next == \E op \in Ops : Enabled(s, op) /\ s' = Step(s, op)
Spec == Init /\ [][Next]_s

\* ---------------------------------------------------------------- properties
\* every stored local path came from a class whose content the wire would accept
StoredWellFormed == \A p \in Pfx : \A x \in s.rib[p] : x.src = "local" => x.cls \in ValidCls
\* one local path per (prefix, path id)
KeyUnique == \A p \in Pfx : \A x, y \in s.rib[p] : x.src = "local" /\ y.src = "local" /\ x.pid = y.pid => x = y
\* a refused request never changes what is stored (action property)
RefusedIsNoOp == [][\A op \in Ops : (Enabled(s, op) /\ Out(s, op) = "rejected" /\ s' = Step(s, op)) => s' = s]_s
=============================================================================
