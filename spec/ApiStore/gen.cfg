CONSTANTS
  Pfx = {"p1", "p6"}
  Pid = {0, 1}
  ValidCls = {"min", "full"}
  BadCls = {"badorigin"}
  MaxCalls = 2
SPECIFICATION GenSpec
INVARIANTS Emit
CHECK_DEADLOCK FALSE
