---------------------------- MODULE ApiStoreMC ----------------------------
EXTENDS ApiStore, Json
VARIABLES pre, act
GenInit == Init /\ pre = s /\ act = [k |-> "init"]
GenNext == \E op \in Ops : Enabled(s, op) /\ s' = Step(s, op) /\ act' = op /\ pre' = s
GenSpec == GenInit /\ [][GenNext]_<<s, pre, act>>
Emit == act.k = "init" \/ PrintT(ToJson([pre |-> pre, op |-> act, post |-> s, obs |-> Out(pre, act)]))
=============================================================================
